"""C14 - a crash of the helper process is contained and recovered from.

Streams
  corr     fault plans x query lists run on the real jedi through harness/helper_wrapper/python;
           the helper-layer operations jedi performed (get_inference_state_subprocess, get_sys_path,
           CompiledSubprocess.run, InferenceStateSubprocess.__del__) are recorded by monkeypatching in
           the harness process and replayed on Model.Helper with the same plan: outcome class of every
           operation, is_crashed / reaped / cleanup count / deletion queue of every CompiledSubprocess
           after every operation, helper-side state ids, requests served.
  oracle   the property itself per case: at most one failing query per helper death, the failure is
           InternalError, no hang, later Scripts answer like the undisturbed run, dead helpers reaped
           (no zombie after the failing query, none at the end), no leaked pipes: a census of the
           parent's open pipe descriptors (/proc/self/fd -> 'pipe:[inode]') is taken right after every
           query; a helper whose finalizer (_cleanup_process) has run must hold none of the three pipes
           it was started with while jedi still references its CompiledSubprocess; and no fds at the end.
           Deaths come from the wrapper's fault plans and from the harness itself (SIGKILL between two
           queries + waitid(WNOWAIT): a deterministic "dead before the request is written").
           Helper-side state: with the last stateful request (id, function) the helper served in a step it
           must hold no inference state of a Script that was discarded before the step began (the deletion
           queue is flushed before every such request).  `prog` cases keep several Scripts alive at the same
           time (distinct ids), make requests of theirs raise inside the surviving helper (first / only
           stateful request: _test_raise_error(ValueError), or the wrapper's `raises` fault), drop them and
           go on.
           "The helper raises": the class of the exception is part of the fault (raises: Exception subclasses,
           reported back by Listener.listen and re-raised by design; raises_fatal: SystemExit with every kind
           of argument, KeyboardInterrupt, GeneratorExit, asyncio.CancelledError, a BaseException subclass of
           our own, BaseException: the helper must die and the query may only fail with InternalError).  One
           case per fatal class in every run.  The same faults through the public API (`mods` cases): a project
           with sourceless modules (load_unsafe_extensions=True), one of which calls sys.exit() / raises a
           non-Exception / os._exit()s / SIGKILLs itself / closes fd 0 or 1 / writes half a reply and exits /
           raises an ordinary Exception while the helper imports it; complete/infer/goto/get_signatures/help
           on it, 1..3 consecutive times, queries on a harmless sourceless module before and after.
  churn    many Scripts created and dropped on one helper: helper-side live states subset of live Scripts.
"""
import gc
import io
import json
import os
import signal
import time
import weakref

import common
from common import short

MODELS = ['Helper']
MANIFEST = dict(
    text='Theorems over a parent/child state machine of CompiledSubprocess/_send/_kill/run, '
         'InferenceStateSubprocess, Environment._get_subprocess and Listener, by induction over arbitrary '
         'operation traces and arbitrary fault plans: every helper death is detected by exactly the in-flight '
         'operation, which raises InternalError (InvalidPythonEnvironment when it hits the version handshake), '
         'marks the helper crashed and reaps it, and the next operation starts a new helper '
         '(crash_one_failure, stated for every plan whose pickle exceptions are in the except clauses read from '
         'the source; kernel-checked counter-witness for a truncated reply = F13); deletion-queue invariant; no '
         'deletion after a crash; _cleanup_process runs exactly once per started helper; its close loop releases '
         'all three pipes for every subset of streams whose close() raises an OSError (cleanup_closes_all_streams, '
         'over the loop shape / stream list / except clause read from the source), hence a crashed or finalized '
         'helper holds no descriptor at any point of any trace (no_leaked_pipes); kernel-checked counter-witness '
         'for the shape with one try/except around the whole loop; every inference state the helper holds is '
         'queued for deletion or belongs to a live, _used Script bound to that helper, for every plan and trace '
         '(states_owned_or_queued), hence after one further served request nothing is left of a dropped Script '
         'whatever the outcomes of its requests were (discarded_states_released, over the position of '
         '`self._used = True` relative to run() read from the source); kernel-checked counter-witnesses for the '
         'mark moved behind run() (leaked state, stale state reused after id() reuse); "the helper raises" is '
         'modelled over the except clause of Listener.listen read from the source (listenFault): the clause catches '
         'no class that is not an Exception (listen_catches_only_exceptions), hence a SystemExit / KeyboardInterrupt / '
         'GeneratorExit / CancelledError / own BaseException raised while a request is served ends in InternalError, a '
         'crashed and reaped helper (helper_raise_fatal_contained_partial); kernel-checked counter-witness for '
         '`except (Exception, SystemExit)` (SystemExit re-raised in the user\'s process). Tie: translator (except clauses, _kill, '
         '__del__ guard and body, _used writes, run() flush loop, replacement test, close-loop shape) + trace '
         'correspondence (incl. open pipe count and helper-side inference states per helper after every '
         'operation) through a fault-injecting stand-in for the environment executable and '
         'SIGKILLs from the harness.',
    note='Modelled not verified: pipes, pickle framing (which exception a truncated stream raises is measured '
         'per case), process reaping, weakref.finalize once-only semantics, GC timing, that close() releases the '
         'descriptor also when it raises, that a request which failed with EPIPE stays buffered (requests < 8 KiB). '
         'No-hang, zombie and fd claims are observed by the oracle (pipe census via /proc/self/fd after every '
         'query), not proved.',
    technique='Lean 4 proof over hand-written model + translator-generated constants + differential '
              'correspondence under fault injection',
    design='5.C14')
LEAN_TARGETS = ['JediModel.Props.C14', 'JediModel.Drivers.C14']

WRAPPER = os.path.join(common.VERIF, 'harness', 'helper_wrapper', 'python')
SCRATCH = '/tmp/scratch-c14c12'
DEATHS = ('before_send', 'after_send', 'trunc', 'raises_fatal')
PHASES = DEATHS + ('raises',)
# "the helper raises": the class of the exception is part of the fault.  What decides whether the helper
# lives is CPython's class hierarchy, not jedi: Exception subclasses are reported back by Listener.listen
# (phase `raises`), every other BaseException leaves the request loop and ends the process (`raises_fatal`).
EXC_SOFT = ('RuntimeError', 'ValueError', 'KeyError', 'OSError', 'ZeroDivisionError', 'MemoryError',
            'NotImplementedError', 'UnicodeError', 'EOFError', 'BrokenPipeError', 'Exception')
EXC_FATAL = (('KeyboardInterrupt', None), ('SystemExit', 3), ('SystemExit', None), ('SystemExit', 0),
             ('SystemExit', 'quit'), ('GeneratorExit', None), ('CancelledError', None), ('VerifFatal', None),
             ('BaseException', None))


# ---- "the helper raises / dies" through the public API: a project (load_unsafe_extensions=True) with sourceless
# modules; jedi imports such modules only inside the helper.  `bad` does something while it is imported.
MOD_FINE = "def fine_function(a, b):\n    return a\nfine_value = 3\nclass FineClass:\n    fine_attr = 1\n"
MOD_HEAD = ("import os, sys\nanswer = 42\ndef f(a):\n    return a\n"
            "_F = getattr(sys, '_verif_fault', None) or (lambda *a, **k: None)\n")
# action -> (phase the wrapper vocabulary has for it, class raised, module-level code)
MOD_ACTIONS = {
    'sys.exit(3)': ('raises_fatal', 'SystemExit', "_F('raises_fatal', exc='SystemExit')\nsys.exit(3)\n"),
    'sys.exit()': ('raises_fatal', 'SystemExit', "_F('raises_fatal', exc='SystemExit')\nsys.exit()\n"),
    'sys.exit(str)': ('raises_fatal', 'SystemExit',
                      "_F('raises_fatal', exc='SystemExit')\nsys.exit('usage: bad [options]')\n"),
    'raise SystemExit subclass': ('raises_fatal', 'SystemExit',
                                  "class Quit(SystemExit):\n    pass\n_F('raises_fatal', exc='SystemExit')\nraise Quit(2)\n"),
    'raise KeyboardInterrupt': ('raises_fatal', 'KeyboardInterrupt',
                                "_F('raises_fatal', exc='KeyboardInterrupt')\nraise KeyboardInterrupt\n"),
    'raise GeneratorExit': ('raises_fatal', 'GeneratorExit',
                            "_F('raises_fatal', exc='GeneratorExit')\nraise GeneratorExit\n"),
    'raise asyncio.CancelledError': ('raises_fatal', 'CancelledError',
                                     "import asyncio\n_F('raises_fatal', exc='CancelledError')\n"
                                     "raise asyncio.CancelledError()\n"),
    'raise own BaseException': ('raises_fatal', 'VerifFatal',
                                "class Stop(BaseException):\n    pass\n_F('raises_fatal', exc='VerifFatal')\n"
                                "raise Stop('stop')\n"),
    'os._exit(7)': ('after_send', None, "_F('after_send')\nos._exit(7)\n"),
    'SIGKILL itself': ('after_send', None, "_F('after_send')\nos.kill(os.getpid(), 9)\n"),
    'close fd 1': ('after_send', None, "_F('after_send')\nos.close(1)\n"),
    'partial reply, exit': ('trunc', None, "_F('trunc', prefix='800495')\nos.write(1, bytes.fromhex('800495'))\n"
                                            "os._exit(0)\n"),
    'close fd 0': ('before_send', None, "_F('before_send', dk=1)\nos.close(0)\n"),
    # Exceptions: access.load_module catches them inside the helper (a warning, no module): no fault at all
    'raise ImportError': (None, 'ImportError', "raise ImportError('no such thing')\n"),
    'raise RuntimeError': (None, 'RuntimeError', "raise RuntimeError('boom')\n"),
    'raise ZeroDivisionError': (None, 'ZeroDivisionError', "1 / 0\n"),
    'benign': (None, None, ""),
}
MQ_FINE = [('complete', 'import fine\nfine.fine_'), ('infer', 'import fine\nfine.fine_function'),
           ('goto', 'import fine\nfine.FineClass'), ('complete', 'from fine import fi'),
           ('get_signatures', 'import fine\nfine.fine_function('), ('complete', 'import fine\nfine.FineClass.fine_a')]
MQ_BAD = [('complete', 'import bad\nbad.ans'), ('infer', 'import bad\nbad'), ('goto', 'from bad import answer\nanswer'),
          ('complete', 'from bad import an'), ('get_signatures', 'import bad\nbad.f('), ('help', 'import bad\nbad.f'),
          ('complete', 'import fine, bad\nfine.fine_')]


def make_project(tag, mods):
    """a directory with one sourceless (.pyc only) module per entry of `mods`"""
    import py_compile
    import shutil
    pdir = os.path.join(SCRATCH, 'proj-' + tag)
    shutil.rmtree(pdir, ignore_errors=True)
    os.makedirs(pdir)
    for name, src in mods.items():
        srcfile = os.path.join(pdir, name + '_src.py')
        with open(srcfile, 'w') as f:
            f.write(src)
        py_compile.compile(srcfile, cfile=os.path.join(pdir, name + '.pyc'), doraise=True)
        os.remove(srcfile)
    return pdir


def is_exception_subclass(name):
    """CPython fact, independent of jedi: is the class called `name` a subclass of Exception"""
    import asyncio
    import builtins
    cls = {'CancelledError': asyncio.CancelledError, 'VerifFatal': BaseException}.get(name) \
        or getattr(builtins, name, None)
    if cls is None:
        return None
    return issubclass(cls, Exception)


def with_exc(rng, plan):
    """adds the exception class to a raises / raises_fatal plan"""
    if plan['phase'] == 'raises':
        plan['exc'] = rng.choice(EXC_SOFT)
    elif plan['phase'] == 'raises_fatal':
        name, arg = rng.choice(EXC_FATAL)
        plan['exc'] = name
        if name == 'SystemExit' and arg is not None:
            plan['arg'] = arg
    return plan

SCEN = [
    ('complete', 'import math\nmath.sq'),
    ('complete', 'import ma'),
    ('complete', 'from math import co'),
    ('infer', 'import math\nmath.sqrt'),
    ('goto', 'import math\nmath.sqrt'),
    ('get_signatures', 'import math\nmath.sqrt('),
    ('complete', 'import itertools\nitertools.ch'),
    ('complete', 'import sys\nsys.pa'),
    ('complete', 'import json\njson.lo'),
    ('complete', 'x = "abc"\nx.upp'),
    ('help', 'import math\nmath.sqrt'),
    ('get_references', 'import math\nmath.sqrt\nmath.sqrt'),
]


def load_own_findings(ctx, pid):
    """known_findings.d/<pid>.json entries that tools/mkknown.py has not merged yet"""
    path = os.path.join(common.VERIF, 'known_findings.d', pid + '.json')
    try:
        with open(path, encoding='utf-8') as f:
            own = json.load(f).get('findings', [])
    except FileNotFoundError:
        return
    have = {k['id'] for k in ctx.known}
    ctx.known += [k for k in own if k['id'] not in have and k['property'] == pid]


class Hang(BaseException):
    pass


def _alarm(sig, frm):
    raise Hang()


# ----------------------------------------------------------------- host-side recorder

class Rec:
    """records the helper-layer operations of the real code (monkeypatching, harness process only)"""
    installed = False
    cur = None

    def __init__(self):
        self.ops = []          # {'op','s','out','snap'}
        self.procs = []        # CompiledSubprocess objects, creation order
        self.popens = []       # Popen objects, start order
        self.pipes = []        # per Popen: {'stdin'|'stdout'|'stderr': 'pipe:[inode]'} at start
        self.cleanups = {}     # pid -> count
        self.ids = []          # python ids of InferenceStateSubprocess objects, first-seen order
        self.live = {}         # python id -> weakref of the InferenceStateSubprocess objects
        self.log = None
        self.logpos = 0
        self.events = []
        self.last_states = {}  # helper pid -> python ids in Listener._inference_states at its last logged request

    def serial(self, pyid):
        if pyid not in self.ids:
            self.ids.append(pyid)
        return self.ids.index(pyid)

    def read_log(self):
        with open(self.log) as f:
            f.seek(self.logpos)
            data = f.read()
            self.logpos = f.tell()
        for line in data.splitlines():
            try:
                e = json.loads(line)
            except ValueError:
                continue
            self.events.append(e)
            if 'states' in e:
                self.last_states[e['pid']] = e['states']

    def snap(self):
        out = []
        table = None
        if self.log is not None:
            self.read_log()
        for i, ref in enumerate(self.procs):
            p = ref()
            po = self.popens[i] if i < len(self.popens) else None
            if p is None:
                out.append({'idx': i, 'gone': True})
                continue
            mine = set(self.pipes[i].values()) if i < len(self.pipes) else set()
            if table is None and mine:
                table = pipe_table()
            out.append({'idx': i, 'crashed': bool(p.is_crashed), 'started': po is not None,
                        'fds': sum(1 for t in table.values() if t in mine) if mine else 0,
                        'child': (sorted(self.serial(x) for x in self.last_states[po.pid])
                                  if po is not None and po.pid in self.last_states else None),
                        'reaped': po is not None and po.returncode is not None,
                        'cleanups': self.cleanups.get(po.pid, 0) if po is not None else 0,
                        'queue': [self.serial(x) for x in p._inference_state_deletion_queue]})
        return out

    def record(self, op, s, out):
        self.ops.append({'op': op, 's': s, 'out': out, 'snap': self.snap()})

    @classmethod
    def install(cls):
        if cls.installed:
            return
        cls.installed = True
        import jedi.inference.compiled.subprocess as jsub
        import jedi.api.environment as jenv
        from jedi.cache import memoize_method

        orig_init = jsub.CompiledSubprocess.__init__

        def init(self, *a, **k):
            orig_init(self, *a, **k)
            if cls.cur is not None:
                cls.cur.procs.append(weakref.ref(self))
        jsub.CompiledSubprocess.__init__ = init

        orig_popen = jsub._GeneralizedPopen

        def popen(*a, **k):
            p = orig_popen(*a, **k)
            if cls.cur is not None:
                cls.cur.popens.append(p)
                cls.cur.pipes.append({n: pipe_of(getattr(p, n)) for n in ('stdin', 'stdout', 'stderr')})
            return p
        jsub._GeneralizedPopen = popen

        orig_cleanup = jsub._cleanup_process

        def cleanup(process, thread):
            if cls.cur is not None:
                cls.cur.cleanups[process.pid] = cls.cur.cleanups.get(process.pid, 0) + 1
            return orig_cleanup(process, thread)
        jsub._cleanup_process = cleanup

        orig_gis = jenv.Environment.get_inference_state_subprocess

        def gis(self, inference_state):
            r = cls.cur
            try:
                res = orig_gis(self, inference_state)
            except BaseException as e:
                if r is not None:
                    r.record('new', 10 ** 6 + len(r.ops), type(e).__name__)
                raise
            if r is not None:
                r.record('new', r.serial(id(res)), 'ok')
                r.live[id(res)] = weakref.ref(res)
            return res
        jenv.Environment.get_inference_state_subprocess = gis

        # Environment.get_sys_path = memoize_method(<inner>): trace the inner function, keep the memo
        inner = None
        for c in jenv.Environment.get_sys_path.__closure__ or ():
            if callable(c.cell_contents) and getattr(c.cell_contents, '__name__', '') == 'get_sys_path':
                inner = c.cell_contents
        if inner is None:
            raise common.InfraError('cannot find the memoised body of Environment.get_sys_path')

        def get_sys_path(self):
            r = cls.cur
            try:
                res = inner(self)
            except BaseException as e:
                if r is not None:
                    r.record('sys', 0, type(e).__name__)
                raise
            if r is not None:
                r.record('sys', 0, 'ok')
            return res
        get_sys_path.__doc__ = inner.__doc__
        jenv.Environment.get_sys_path = memoize_method(get_sys_path)

        orig_run = jsub.CompiledSubprocess.run

        def run(self, inference_state_id, function, args=(), kwargs={}):
            r = cls.cur
            try:
                res = orig_run(self, inference_state_id, function, args, kwargs)
            except BaseException as e:
                if r is not None:
                    r.record('call', r.serial(inference_state_id), type(e).__name__)
                raise
            if r is not None:
                r.record('call', r.serial(inference_state_id), 'ok')
            return res
        jsub.CompiledSubprocess.run = run

        orig_del = jsub.InferenceStateSubprocess.__del__

        def del_(self):
            r = cls.cur
            try:
                orig_del(self)
            finally:
                if r is not None:
                    try:
                        r.record('drop', r.serial(id(self)), 'ok')
                    except Exception:
                        pass
        jsub.InferenceStateSubprocess.__del__ = del_


# ----------------------------------------------------------------- running a case on the real code

def zombies():
    me = str(os.getpid())
    z = []
    for p in os.listdir('/proc'):
        if not p.isdigit():
            continue
        try:
            with open('/proc/%s/stat' % p) as f:
                st = f.read()
        except OSError:
            continue
        rest = st[st.rfind(')') + 2:].split()
        if rest[1] == me and rest[0] == 'Z':
            z.append(int(p))
    return z


def children():
    me = str(os.getpid())
    n = []
    for p in os.listdir('/proc'):
        if not p.isdigit():
            continue
        try:
            with open('/proc/%s/stat' % p) as f:
                st = f.read()
        except OSError:
            continue
        rest = st[st.rfind(')') + 2:].split()
        if rest[1] == me:
            n.append(int(p))
    return n


def nfds():
    return len(os.listdir('/proc/self/fd'))


def pipe_table():
    """fd -> 'pipe:[inode]' for every pipe end this process has open"""
    out = {}
    for name in os.listdir('/proc/self/fd'):
        try:
            target = os.readlink('/proc/self/fd/' + name)
        except OSError:
            continue
        if target.startswith('pipe:'):
            out[int(name)] = target
    return out


def pipe_of(f):
    try:
        return os.readlink('/proc/self/fd/%d' % f.fileno())
    except (OSError, ValueError, AttributeError):
        return None


def proc_state(pid):
    try:
        with open('/proc/%d/stat' % pid) as f:
            st = f.read()
    except OSError:
        return None
    return st[st.rfind(')') + 2:].split()[0]


def requests_read(events, pid):
    """how many requests helper `pid` has read so far, from the wrapper log"""
    evs = [e for e in events if e.get('pid') == pid]
    return sum(1 for e in evs if e.get('ev') == 'req') + \
        sum(1 for e in evs if e.get('ev') == 'fault' and not e.get('by')
            and (e['phase'] in ('after_send', 'raises', 'raises_fatal') or (e.get('nat') and e['phase'] == 'trunc')))


def harness_kill(rec):
    """SIGKILL the live helper between two queries and wait until it is dead WITHOUT reaping it
    (that is jedi's job).  The next request written to it fails deterministically with EPIPE and stays
    in the buffer of the stdin object.  Returns the fault event or None when there is no live helper."""
    rec.read_log()
    for i in range(len(rec.popens) - 1, -1, -1):
        po = rec.popens[i]
        if po.returncode is None and rec.cleanups.get(po.pid, 0) == 0:
            if proc_state(po.pid) in (None, 'Z'):
                return None          # died already (a wrapper fault that nobody has noticed yet)
            # never kill a helper that is still starting up: the wrapper consumes its fault plan
            # (truncate + rewrite of the plan file) before it logs `start`; a SIGKILL in between
            # leaves an empty plan file behind (seen once on a machine at load 70)
            deadline = time.time() + 60
            while not any(e.get('ev') == 'start' and e.get('pid') == po.pid for e in rec.events):
                if time.time() > deadline or proc_state(po.pid) in (None, 'Z'):
                    return None
                time.sleep(0.01)
                rec.read_log()
            k = requests_read(rec.events, po.pid)
            os.kill(po.pid, signal.SIGKILL)
            os.waitid(os.P_PID, po.pid, os.WEXITED | os.WNOWAIT)
            return {'ev': 'fault', 'phase': 'before_send', 'k': k, 'pid': po.pid, 'by': 'harness'}
    return None


def dead_pipes(rec):
    """for every helper whose finalizer has run and whose CompiledSubprocess jedi still references:
    the descriptors of this process that are still connected to one of its three pipes"""
    table = None
    out = []
    for i, po in enumerate(rec.popens):
        if rec.cleanups.get(po.pid, 0) < 1 or i >= len(rec.procs) or rec.procs[i]() is None:
            continue
        if table is None:
            table = pipe_table()
        mine = {t: n for n, t in rec.pipes[i].items() if t}
        left = sorted([fd, t, mine[t]] for fd, t in table.items() if t in mine)
        if left:
            out.append({'helper': i, 'open': left})
    return out


def canon(method, res):
    out = []
    for x in res:
        if method == 'get_signatures':
            out.append([x.name, [p.name for p in x.params], x.index])
        elif method in ('infer', 'goto', 'help', 'get_references'):
            out.append([x.name, x.type, x.module_name, x.line, x.column])
        else:
            out.append([x.name, x.type])
    return sorted(out, key=repr)


HANG_AFTER = 30      # seconds; a case that hit it is re-run alone with RETRY_HANG_AFTER before it is judged
RETRY_HANG_AFTER = 180


def do_query(env, qi, path=None, timeout=HANG_AFTER):
    import jedi
    method, src = SCEN[qi]
    signal.signal(signal.SIGALRM, _alarm)
    signal.alarm(timeout)
    try:
        s = jedi.Script(src, environment=env, path=path)
        res = canon(method, getattr(s, method)())
        return {'ok': True, 'answer': res}
    except Hang:
        return {'ok': False, 'cls': 'HANG', 'msg': 'query did not return within %d s' % timeout}
    except BaseException as e:
        return {'ok': False, 'cls': type(e).__name__, 'msg': str(e)[:400] + ' ... ' + str(e)[-600:] if len(str(e)) > 1000 else str(e)}
    finally:
        signal.alarm(0)
        s = None


def do_step(env, slots, st, timeout=HANG_AFTER):
    """one step of a `prog` case: Scripts are kept in `slots`, so several are alive at the same time"""
    import jedi
    do = st['do']
    if do == 'query':
        return do_query(env, st['q'], timeout=timeout)
    signal.signal(signal.SIGALRM, _alarm)
    signal.alarm(timeout)
    try:
        if do == 'new':
            # every Script gets a path of its own: Scripts without a path share ONE parso diff-cache entry
            # (key None), so creating the next one rewrites the module node of the previous one in place
            # (ValueError 'Please provide a position that exists within this node' / wrong answers of the
            # older Script) - not this property's business
            slots['n'] = slots.get('n', 0) + 1
            stem = 'c14prog%d_%d' % (os.getpid(), slots['n'])
            slots[st['slot']] = (st['q'], jedi.Script(SCEN[st['q']][1], environment=env,
                                                     path=os.path.join(SCRATCH, stem + '.py')), stem)
            return {'ok': True, 'answer': None}
        if do == 'drop':
            slots.pop(st['slot'], None)
            return {'ok': True, 'answer': None}
        if do == 'mq':
            # a fresh Script on the project with the sourceless modules
            script = jedi.Script(st['src'], environment=env, project=slots['__project__'])
            return {'ok': True, 'answer': canon(st['method'], getattr(script, st['method'])())}
        qi, script, stem = slots[st['slot']]
        if do == 'run':
            ans = canon(SCEN[qi][0], getattr(script, SCEN[qi][0])())
            # the undisturbed reference run had no path: its own module is called __main__ there
            ans = sorted(([('__main__' if v == stem else v) for v in row] for row in ans), key=repr)
            return {'ok': True, 'q': qi, 'answer': ans}
        if do == 'raise':
            # a request of this Script that raises inside the (surviving) helper: ordinary control flow
            # for jedi (ValueError "no signature", SyntaxError of safe_literal_eval, ...)
            try:
                script._inference_state.compiled_subprocess._test_raise_error(ValueError)
            except ValueError:
                return {'ok': True, 'answer': None, 'raised_in_helper': 'ValueError'}
            return {'ok': False, 'cls': 'NoException', 'msg': '_test_raise_error(ValueError) returned'}
        raise common.InfraError('unknown step %r' % (st,))
    except Hang:
        return {'ok': False, 'cls': 'HANG', 'msg': 'step did not return within %d s' % timeout}
    except common.InfraError:
        raise
    except BaseException as e:
        import traceback
        return {'ok': False, 'cls': type(e).__name__, 'msg': str(e)[:1000], 'tb': traceback.format_exc()[-1800:]}
    finally:
        signal.alarm(0)
        script = None


def steps_of(case):
    return case['prog'] if case.get('prog') else [{'do': 'query', 'q': qi} for qi in case['queries']]


def run_case(case):
    """executes one case in this (worker) process; returns everything observed"""
    from jedi.api.environment import Environment
    Rec.install()
    tag = '%d-%s' % (os.getpid(), case['id'])
    plan_file = os.path.join(SCRATCH, 'plan-%s.json' % tag)
    log_file = os.path.join(SCRATCH, 'log-%s.jsonl' % tag)
    os.makedirs(SCRATCH, exist_ok=True)
    with open(plan_file, 'w') as f:
        json.dump({'starts': case['starts']}, f)
    open(log_file, 'w').close()
    gc.collect()
    fd0 = nfds()
    kids0 = set(children())
    rec = Rec()
    rec.log = log_file
    Rec.cur = rec
    env_vars = dict(os.environ, DAVIDHALTER_JEDI_VERIF='1', JEDI_VERIF_PLAN=plan_file,
                    JEDI_VERIF_LOG=log_file)
    res = {'id': case['id'], 'queries': [], 'env_error': None}
    env = None
    slots = {}
    pdir = None
    try:
        try:
            env = Environment(WRAPPER, env_vars=env_vars)
        except BaseException as e:
            res['env_error'] = [type(e).__name__, str(e)[:300]]
        if env is not None and case.get('mods'):
            import jedi
            pdir = make_project(tag, case['mods'])
            slots['__project__'] = jedi.Project(pdir, load_unsafe_extensions=True)
        if env is not None:
            for qn, st in enumerate(steps_of(case)):
                n_ops = len(rec.ops)
                # (no read_log here: what the helper logged while the environment was created - e.g. a
                # fault plan that fires with the handshake - is attributed to the first step)
                n_ev = len(rec.events)
                # InferenceStateSubprocess objects alive when the step starts (python ids)
                alive0 = sorted(pid_ for pid_, ref in rec.live.items() if ref() is not None)
                if qn in case.get('kills', ()):
                    ev = harness_kill(rec)
                    if ev is not None:
                        rec.events.append(ev)
                q = do_step(env, slots, st, timeout=case.get('timeout', HANG_AFTER))
                # census before anything is collected: the crashed CompiledSubprocess is still
                # Environment._subprocess here
                q['dead_pipes'] = dead_pipes(rec)
                gc.collect()
                time.sleep(0.002)
                rec.read_log()
                q['ops'] = [n_ops, len(rec.ops)]
                q['faults'] = [e for e in rec.events[n_ev:] if e.get('ev') == 'fault']
                q['zombies_after'] = len([z for z in zombies() if z not in kids0])
                # helper-side states of the current helper right after the query
                cs = None
                for e in reversed(rec.events):
                    if e.get('ev') in ('req', 'fault') and 'states' in e:
                        cs = (e['pid'], [rec.serial(x) for x in e['states']])
                        break
                q['child_states'] = cs
                # "helper-side state of discarded Scripts is released": the states the helper held when
                # it served the LAST stateful request (id, function) of this step - CompiledSubprocess.run
                # has flushed the deletion queue before it - that belong to no Script alive when the step
                # began and to none created during it
                last = None
                for e in rec.events[n_ev:]:
                    if e.get('ev') in ('req', 'fault') and e.get('id') is not None and e.get('fn') \
                            and 'states' in e:
                        last = e
                if last is not None:
                    born = {rec.ids[o['s']] for o in rec.ops[n_ops:] if o['op'] == 'new' and o['out'] == 'ok'}
                    q['stale_states'] = [rec.serial(x) for x in last['states']
                                         if x not in alive0 and x not in born]
                    q['states_seen'] = [len(last['states']), len(alive0), last['k']]
                res['queries'].append(q)
        # release everything
        n_procs = len(rec.procs)
        env = None
        if slots:
            # Scripts with a path: jedi's time caches (call signatures are cached per module path for a few
            # seconds) may still hold values of the last InferenceState, and through them the helper
            from jedi import cache as jcache
            jcache.clear_time_caches(delete_all=True)
        slots.clear()
        gc.collect()
        n_ops_before_gc = len(rec.ops)
        Rec.cur = None
        res['ops'] = rec.ops[:n_ops_before_gc]
        res['idmap'] = {str(x): i for i, x in enumerate(rec.ids)}
        res['pids'] = [p.pid for p in rec.popens]
        res['final'] = {'cleanups': [rec.cleanups.get(p.pid, 0) for p in rec.popens],
                        'reaped': [p.returncode is not None for p in rec.popens],
                        'n_procs': n_procs}
        rec.popens = []
        gc.collect()
        time.sleep(0.01)
        table = pipe_table()
        res['final']['fds'] = [sum(1 for t in table.values() if t in set(m.values())) for m in rec.pipes]
        res['zombies_end'] = len([z for z in zombies() if z not in kids0])
        res['children_end'] = len([c for c in children() if c not in kids0])
        res['fds'] = [fd0, nfds()]
        rec.read_log()
        res['events'] = rec.events
        with open(plan_file) as f:
            res['plan_left'] = json.load(f)
    finally:
        Rec.cur = None
        for p in (plan_file, log_file):
            try:
                os.unlink(p)
            except OSError:
                pass
        if pdir is not None:
            import shutil
            shutil.rmtree(pdir, ignore_errors=True)
    return res


def trunc_class(prefix_hex):
    """CPython parameter: which exception the parent's Unpickler raises on this prefix"""
    from jedi._compatibility import Unpickler
    try:
        Unpickler(io.BytesIO(bytes.fromhex(prefix_hex))).load()
    except BaseException as e:
        return type(e).__name__
    return 'none'


# ----------------------------------------------------------------- model request

def model_request(res):
    """the plan as it was executed (fault events of the wrapper) + the recorded operations"""
    pids = res['pids']
    plan = []
    for e in res['events']:
        if e.get('ev') == 'fault' and e['pid'] in pids:
            item = {'h': pids.index(e['pid']), 'k': e['k'], 'phase': e['phase'], 'cls': ''}
            if e['phase'] == 'trunc':
                item['cls'] = trunc_class(e['prefix'])
            if e['phase'] in ('raises', 'raises_fatal'):
                item['cls'] = e.get('exc') or ('RuntimeError' if e['phase'] == 'raises' else 'KeyboardInterrupt')
            plan.append(item)
        elif e.get('ev') == 'req' and e.get('exc') and e.get('fn') and e['pid'] in pids:
            # the requested function raised inside the surviving helper (jedi's ordinary control flow);
            # a KeyError of a deletion request (fn None) is the model's own business
            plan.append({'h': pids.index(e['pid']), 'k': e['k'], 'phase': 'raises', 'cls': e['exc']})
    ops = [{'op': o['op'], 's': o['s']} for o in res['ops']]
    ops.append({'op': 'dropenv'})
    return {'op': 'trace', 'plan': plan, 'ops': ops}


def compare_case(ctx, case, res, ans):
    """model vs implementation, operation by operation. Returns list of disagreements."""
    diffs = []
    ops = res['ops']
    pids = res['pids']
    for i, o in enumerate(ops):
        m = ans[i]
        if m['out'] != o['out']:
            diffs.append('op %d %s s=%s: outcome impl=%s model=%s' % (i, o['op'], o['s'], o['out'], m['out']))
            break
        mp = m['env']['procs']
        if len(mp) != len(o['snap']):
            diffs.append('op %d: number of CompiledSubprocess objects impl=%d model=%d'
                         % (i, len(o['snap']), len(mp)))
            break
        for a, b in zip(o['snap'], mp):
            if a.get('gone'):
                continue
            for key in ('crashed', 'started', 'reaped', 'cleanups', 'queue', 'fds'):
                if a[key] != b[key]:
                    diffs.append('op %d %s: proc %d %s impl=%r model=%r'
                                 % (i, o['op'], a['idx'], key, a[key], b[key]))
            # helper-side inference states after every operation (as of the last request the helper logged)
            if b['alive'] and a.get('child') is not None and a['child'] != sorted(b['child']):
                diffs.append('op %d %s s=%s: helper %d live states impl=%r model=%r'
                             % (i, o['op'], o['s'], a['idx'], a['child'], sorted(b['child'])))
        if diffs:
            break
    if not diffs and ops:
        # helper-side: requests read and live states of every helper, at the end of the trace
        last = ans[len(ops) - 1]['env']['procs']
        for h, pid in enumerate(pids):
            evs = [e for e in res['events'] if e.get('pid') == pid]
            nreq = requests_read(evs, pid)
            if h < len(last) and last[h]['nreq'] != nreq:
                diffs.append('helper %d: requests read impl=%d model=%d' % (h, nreq, last[h]['nreq']))
            if h < len(last) and last[h]['alive']:
                st = None
                for e in reversed(evs):
                    if 'states' in e:
                        st = sorted(res_serial(res, x) for x in e['states'])
                        break
                if st is not None and st != sorted(last[h]['child']):
                    diffs.append('helper %d: live states impl=%r model=%r' % (h, st, sorted(last[h]['child'])))
        fin = ans[len(ops)]['env']['procs']
        for h in range(len(pids)):
            if h < len(fin) and (fin[h]['cleanups'] != res['final']['cleanups'][h]
                                 or fin[h]['reaped'] != res['final']['reaped'][h]
                                 or fin[h]['fds'] != res['final']['fds'][h]):
                diffs.append('helper %d after GC: cleanups/reaped/fds impl=%r/%r/%r model=%r/%r/%r'
                             % (h, res['final']['cleanups'][h], res['final']['reaped'][h],
                                res['final']['fds'][h], fin[h]['cleanups'], fin[h]['reaped'], fin[h]['fds']))
    return diffs


def res_serial(res, pyid):
    return res.get('idmap', {}).get(str(pyid), -1)


# ----------------------------------------------------------------- oracle

def culprit_of(q, prev_faults):
    f = q['faults'][-1] if q['faults'] else (prev_faults[-1] if prev_faults else None)
    if f is None:
        return None, None
    return ('handshake' if f['k'] == 0 else f['phase']), f['phase']


def oracle_case(ctx, case, res, expected):
    how = ('Environment(harness/helper_wrapper/python, env_vars={DAVIDHALTER_JEDI_VERIF:1, JEDI_VERIF_PLAN:'
           '<file with {"starts": plan}>}); run the listed queries as jedi.Script(src, environment=env).<method>(); '
           'before query i for i in `kills`: os.kill(<helper pid>, SIGKILL); os.waitid(P_PID, pid, WEXITED|WNOWAIT); '
           'with `prog`: the steps new/run/raise/drop act on Scripts kept alive in slots (raise = '
           'script._inference_state.compiled_subprocess._test_raise_error(ValueError)); '
           './check C14 --replay <this file>')
    base = {'queries': [list(SCEN[q]) for q in case['queries']], 'starts': case['starts'],
            'kills': list(case.get('kills', []))}
    if case.get('prog'):
        base['prog'] = [dict(st, src=list(SCEN[st['q']])) if 'q' in st else dict(st) for st in case['prog']]
    if case.get('mods'):
        base['mods'] = case['mods']
        base['on_import'] = case.get('on_import')
        how = ('a directory with the sourceless modules `mods` (name.pyc compiled from the given source, no .py); '
               'project = jedi.Project(dir, load_unsafe_extensions=True); every step of `prog` is '
               'jedi.Script(src, project=project, environment=env).<method>() on one Environment (the '
               'environment executable is harness/helper_wrapper/python, which only logs here: "starts" is empty); '
               'module `bad` does `on_import` while the helper imports it; ./check C14 --replay <this file>')
    steps = steps_of(case)
    if res['env_error'] is not None:
        # the very first helper start failing is an unusable environment, not a crash of a working helper
        ctx.count('oracle', ('env', json.dumps(case['starts'])), nontrivial=False, bucket='first-start-fails')
        return
    deaths = 0
    raises = 0
    failures = []
    msgs = []
    excused = 0
    seen_faults = []
    for qn, q in enumerate(res['queries']):
        for f in q['faults']:
            if f['phase'] in DEATHS:
                deaths += 1
            else:
                raises += 1
        cul, phase = culprit_of(q, seen_faults)
        seen_faults += q['faults']
        case_d = dict(base, query_index=qn, culprit=cul, phase=phase)
        qi = q.get('q', steps[qn].get('q', steps[qn].get('ref')))
        api = steps[qn].get('method') or (SCEN[qi][0] if isinstance(qi, int) else '?')
        if q.get('stale_states'):
            ctx.fail('oracle', 'the helper still holds the inference state of a Script that was discarded before '
                               'this step, although it has served a further stateful request (the deletion '
                               'queue is flushed before every such request): helper-side state not released',
                     dict(case_d, symptom='stale-state', step=steps[qn]),
                     expected='helper-side states subset of the Scripts alive at the start of the step or '
                              'created during it',
                     observed={'stale': q['stale_states'], 'helper_states/alive_scripts/request_index':
                               q.get('states_seen'), 'outcome': 'ok' if q['ok'] else q['cls']}, how=how)
        if q.get('dead_pipes'):
            ctx.fail('oracle', 'pipes to a dead helper are still open in the parent after its finalizer '
                               '(_cleanup_process) ran: leaked descriptors',
                     dict(case_d, symptom='pipes'),
                     expected='0 open descriptors per dead helper',
                     observed={'leaked': sum(len(d['open']) for d in q['dead_pipes']),
                               'dead_helpers': q['dead_pipes'],
                               'outcome': 'ok' if q['ok'] else q['cls']}, how=how)
        if q['ok']:
            if q['answer'] is not None and expected.get(qi) is not None and q['answer'] != expected[qi]:
                ctx.fail('oracle', 'a Script after a helper crash answers differently from the undisturbed run',
                         dict(case_d, symptom='answer'), expected=expected[qi], observed=q['answer'], how=how)
            continue
        failures.append(q['cls'])
        msgs.append(q['msg'][:200])
        # "the helper raises" an Exception (CPython's hierarchy, not jedi's except clause, says which classes
        # these are): the helper reports it and lives, jedi re-raises the remote exception by design.  Any other
        # BaseException ends the helper: that is a death, and only InternalError may come out of the query.
        injected = 'verif: injected' in q['msg'] and any(
            f['phase'] == 'raises' and (f.get('exc') or 'RuntimeError') == q['cls']
            and is_exception_subclass(q['cls']) for f in q['faults'])
        if q['cls'] == 'HANG':
            ctx.fail('oracle', 'query hangs after a helper fault', dict(case_d, symptom='hang'),
                     observed=q, how=how)
        elif injected:
            pass     # the helper raised, it did not die: the remote exception is what jedi documents
        elif q['cls'] != 'InternalError':
            fatal_exc = [f.get('exc') or 'KeyboardInterrupt' for f in q['faults'] if f['phase'] == 'raises_fatal']
            ctx.fail('oracle', 'a helper death surfaces as something else than InternalError'
                     + (': the %s raised inside the helper while it served a request comes out of Script.%s() '
                        'in the user\'s process' % (q['cls'], api) if q['cls'] in fatal_exc else ''),
                     dict(case_d, symptom='class'),
                     expected='InternalError', observed={'cls': q['cls'], 'msg': q['msg'],
                                                         'raised_in_helper': fatal_exc}, how=how)
        if q['cls'] == 'InternalError' and q['zombies_after']:
            ctx.fail('oracle', 'dead helper not reaped after the failing query (zombie)',
                     dict(case_d, symptom='zombie'),
                     observed={'zombies': q['zombies_after']}, how=how)
        if len(failures) > deaths + raises + excused:
            excused += 1          # report every surplus failure once
            ctx.fail('oracle', 'one helper death makes more than one query fail',
                     dict(case_d, symptom='count'),
                     expected='failing queries <= helper deaths',
                     observed={'failures': failures, 'deaths': deaths, 'helper_exceptions': raises,
                               'msgs': msgs}, how=how)
    if res['zombies_end'] or res['children_end']:
        ctx.fail('oracle', 'helper processes left behind after the environment was dropped', base,
                 observed={'zombies': res['zombies_end'], 'children': res['children_end']}, how=how)
    if res['fds'][1] > res['fds'][0]:
        ctx.fail('oracle', 'file descriptors leaked after the environment was dropped', base,
                 observed={'before': res['fds'][0], 'after': res['fds'][1]}, how=how)
    bucket = '+'.join(sorted(f['phase'] + (':' + f['exc'] if f.get('exc') else '') + ('@0' if f['k'] == 0 else '')
                             for q in res['queries'] for f in q['faults'])) or 'no-fault-hit'
    if case.get('kills'):
        bucket += '/sigkill=%d' % sum(1 for q in res['queries'] for f in q['faults'] if f.get('by'))
    n_nat = sum(1 for q in res['queries'] if q.get('raised_in_helper'))
    if case.get('mods'):
        bucket = 'import of a sourceless module: %s/hit=%d' % (case.get('on_import'), deaths + raises)
    elif case.get('prog'):
        bucket += '/prog:raised-in-helper=%d' % n_nat
    ctx.count('oracle', json.dumps([case['queries'], case['starts'], case.get('kills', []), case.get('prog'),
                                    case.get('on_import')]),
              nontrivial=deaths + raises + n_nat > 0,
              bucket=bucket, sample={'queries': base['queries'], 'starts': case['starts'],
                                     'kills': base['kills'], 'prog': base.get('prog'),
                                     'on_import': case.get('on_import'),
                                     'outcomes': [q['answer'] if q['ok'] else q['cls'] for q in res['queries']]})


# ----------------------------------------------------------------- case generation

def gen_cases(ctx, nreqs):
    """nreqs[qi] = requests an undisturbed run of scenario qi makes on a warm environment"""
    rng = ctx.subrng('cases')
    cases = []
    n = ctx.size(20, 0)
    allq = list(range(len(SCEN)))
    if ctx.quick:
        for i in range(n):
            qs = [rng.choice(allq) for _ in range(4)]
            total = 2 + sum(nreqs[q] for q in qs[:2])
            k0 = rng.randint(0, max(1, total - 1))
            ph = PHASES[i % len(PHASES)]
            if ph == 'before_send' and k0 == 0:
                k0 = 1
            starts = [with_exc(rng, {'k': k0, 'phase': ph, 'n': rng.choice([1, 2, 3, 4, 11, 12, 20, 40])})]
            r = rng.random()
            if r < 0.45:
                m = 1 if r < 0.25 else 2
                for _ in range(m):
                    ph2 = rng.choice(PHASES)
                    k2 = rng.randint(1 if ph2 == 'before_send' else 0, 6)
                    starts.append(with_exc(rng, {'k': k2, 'phase': ph2, 'n': rng.choice([1, 2, 4, 11, 30])}))
            cases.append({'id': 'g%d' % i, 'queries': qs, 'starts': starts})
    else:
        i = 0
        for t in allq:
            f1, f2 = rng.choice(allq), rng.choice(allq)
            for k in range(0, 2 + nreqs[t] + 1):
                for ph in PHASES:
                    if ph == 'before_send' and k == 0:
                        continue
                    ns = [1, 2, 4, 11, 12, 40] if ph == 'trunc' else [4]
                    starts = [with_exc(rng, {'k': k, 'phase': ph, 'n': rng.choice(ns)})]
                    for _ in range(rng.choice([0, 0, 1, 2])):
                        ph2 = rng.choice(PHASES)
                        starts.append(with_exc(rng, {'k': rng.randint(1 if ph2 == 'before_send' else 0, 6),
                                                     'phase': ph2, 'n': rng.choice([1, 2, 4, 11, 30])}))
                    cases.append({'id': 't%d' % i, 'queries': [t, f1, f2, t], 'starts': starts})
                    i += 1
    # "the helper raises", every class of exception: one case per BaseException class that is no Exception
    # (random request index within the first two queries, random queries, sometimes up to 3 consecutive
    # ones: the replacement helpers raise as well) and - thorough: every request index of every scenario
    fatal = list(EXC_FATAL)
    soft = list(EXC_SOFT)
    rng.shuffle(soft)
    def exc_plan(k, name, arg=None):
        pl = {'k': k, 'phase': 'raises' if is_exception_subclass(name) else 'raises_fatal', 'exc': name}
        if arg is not None:
            pl['arg'] = arg
        return pl
    if ctx.quick:
        for i, (name, arg) in enumerate(fatal):
            qs = [rng.choice(allq) for _ in range(3)]
            total = 2 + sum(nreqs[q] for q in qs[:2])
            starts = [exc_plan(rng.randint(1, max(1, total - 1)), name, arg)]
            for _ in range(rng.choice([0, 0, 1, 2])):
                n2, a2 = rng.choice(fatal)
                starts.append(exc_plan(rng.randint(0, 5), n2, a2))
            cases.append({'id': 'x%d' % i, 'queries': qs, 'starts': starts})
        for i, name in enumerate(soft[:4]):
            qs = [rng.choice(allq) for _ in range(3)]
            total = 2 + sum(nreqs[q] for q in qs[:2])
            cases.append({'id': 'xs%d' % i, 'queries': qs,
                          'starts': [exc_plan(rng.randint(1, max(1, total - 1)), name)]})
    else:
        i = 0
        for t in allq:
            for k in range(0, 2 + nreqs[t] + 1):
                name, arg = fatal[i % len(fatal)]
                n2, a2 = fatal[(i // len(fatal) + 3 * i + 1) % len(fatal)]
                cases.append({'id': 'x%d' % i, 'queries': [t, rng.choice(allq), t],
                              'starts': [exc_plan(k, name, arg)] + ([exc_plan(rng.randint(0, 4), n2, a2)]
                                                                    if i % 3 == 0 else [])})
                cases.append({'id': 'xs%d' % i, 'queries': [t, rng.choice(allq), t],
                              'starts': [exc_plan(k, soft[i % len(soft)])]})
                i += 1
    # fixed regression cases (DESIGN section 6, F13, and the handshake case)
    cases.append({'id': 'three', 'queries': [0, 1, 2, 3, 4],
                  'starts': [{'k': 4, 'phase': 'after_send'}, {'k': 2, 'phase': 'before_send'},
                             {'k': 3, 'phase': 'raises_fatal'}]})
    # "dead before the request is written", deterministic: the harness SIGKILLs the helper between two
    # queries (three consecutive crashes; the very first query; mixed with wrapper faults)
    cases.append({'id': 'kill3', 'queries': [0, 1, 2, 3, 4], 'starts': [], 'kills': [1, 2, 3]})
    cases.append({'id': 'kill-first', 'queries': [3, 0, 5], 'starts': [], 'kills': [0]})
    cases.append({'id': 'kill-mixed', 'queries': [0, 5, 1, 6, 0],
                  'starts': [{'k': 3, 'phase': 'after_send'}, None, {'k': 2, 'phase': 'trunc', 'n': 4}],
                  'kills': [2, 4]})
    # Scripts alive at the same time (distinct ids), requests that raise inside the surviving helper -
    # the first / only stateful request of a Script - then dropped; the helper's states are observed
    # with the next served request.  No helper deaths here: a Script bound to a dead helper keeps failing.
    def P(do, slot=None, q=None):
        st = {'do': do}
        if slot is not None:
            st['slot'] = slot
        if q is not None:
            st['q'] = q
        return st
    progs = [
        ('prog-raise-first', [], [P('new', 0, 0), P('new', 1, 3), P('new', 2, 5), P('raise', 0), P('raise', 1),
                                  P('run', 2), P('drop', 0), P('drop', 1), P('run', 2), P('drop', 2),
                                  P('query', q=0), P('query', q=3)]),
        ('prog-injected-first', [{'k': 2, 'phase': 'raises'}],
         [P('new', 0, 0), P('new', 1, 3), P('run', 0), P('drop', 0), P('run', 1), P('drop', 1), P('query', q=0)]),
        ('prog-many', [], [P('new', j, 0) for j in range(6)] + [P('raise', j) for j in range(6)]
         + [P('run', 5)] + [P('drop', j) for j in range(5)] + [P('query', q=0), P('run', 5), P('drop', 5),
                                                                P('query', q=1)]),
    ]
    for i in range(ctx.size(4, 60)):
        steps, live, fresh = [], [], set()
        for _ in range(rng.randint(9, 14)):
            acts = ['query']
            if len(live) < 4:
                acts += ['new', 'new']
            if live:
                acts += ['run', 'raise', 'raise', 'drop']
            a = rng.choice(acts)
            if a == 'query':
                steps.append(P('query', q=rng.choice(allq)))
            elif a == 'new':
                slot = min(set(range(5)) - set(live))
                live.append(slot)
                steps.append(P('new', slot, rng.choice(allq)))
            else:
                slot = rng.choice(live)
                steps.append(P(a, slot))
                if a == 'drop':
                    live.remove(slot)
        for slot in list(live):
            steps.append(P('drop', slot))
        steps += [P('query', q=rng.choice(allq)), P('query', q=rng.choice(allq))]
        starts = []
        if rng.random() < 0.5:
            starts = [with_exc(rng, {'k': rng.randint(2, 12), 'phase': 'raises'})]
        progs.append(('p%d' % i, starts, steps))
    for pid_, starts, steps in progs:
        cases.append({'id': pid_, 'queries': [st['q'] for st in steps if 'q' in st], 'starts': starts,
                      'prog': steps})
    # through the public API: sourceless modules of a project, one of which does something fatal (or not)
    # while the helper imports it; 1..3 consecutive queries that import it, fine queries around them
    def MQ(pair, ref=None):
        st = {'do': 'mq', 'method': pair[0], 'src': pair[1]}
        if ref is not None:
            st['ref'] = ref
        return st
    def fine_q():
        j = rng.randrange(len(MQ_FINE))
        return MQ(MQ_FINE[j], 'm%d' % j)
    actions = [a for a in MOD_ACTIONS if a != 'benign']
    fatal_actions = [a for a in actions if MOD_ACTIONS[a][0] == 'raises_fatal']
    other = [a for a in actions if a not in fatal_actions]
    rng.shuffle(other)
    todo = (fatal_actions + other[:ctx.size(3, len(other))]) * ctx.size(1, 6)
    for i, act in enumerate(todo):
        steps = [fine_q() for _ in range(rng.choice([0, 1, 1]))]
        for _ in range(rng.choice([1, 1, 2, 3])):
            steps.append(MQ(rng.choice(MQ_BAD)))
            if rng.random() < 0.3:
                steps.append(fine_q())
        steps += [fine_q() for _ in range(rng.choice([1, 2]))]
        cases.append({'id': 'n%d' % i, 'queries': [], 'starts': [], 'prog': steps, 'on_import': act,
                      'mods': {'fine': MOD_FINE, 'bad': MOD_HEAD + MOD_ACTIONS[act][2]}})
    for i in range(ctx.size(3, 40)):
        nq = rng.randint(3, 6)
        qs = [rng.choice(allq) for _ in range(nq)]
        kills = sorted(rng.sample(range(nq), rng.randint(1, min(3, nq))))
        starts = []
        for _ in range(rng.choice([0, 0, 1, 2])):
            ph2 = rng.choice(PHASES)
            starts.append(with_exc(rng, {'k': rng.randint(1 if ph2 == 'before_send' else 0, 8), 'phase': ph2,
                                         'n': rng.choice([1, 2, 4, 11, 30])}))
        cases.append({'id': 'k%d' % i, 'queries': qs, 'starts': starts, 'kills': kills})
    return cases


def _worker(case):
    try:
        return run_case(case)
    except BaseException as e:     # infrastructure problem inside the worker
        import traceback
        return {'id': case['id'], 'infra': traceback.format_exc()[-1500:] + repr(e)}


def run_cases(cases, jobs=12):
    import multiprocessing as mp
    ctxm = mp.get_context('fork')
    with ctxm.Pool(min(jobs, max(1, len(cases))), maxtasksperchild=8) as pool:
        return pool.map(_worker, cases, chunksize=1)


def baseline(ctx):
    """undisturbed answers and request counts of every scenario (through the wrapper, no plan)"""
    case = {'id': 'base', 'queries': list(range(len(SCEN))) + list(range(len(SCEN))), 'starts': []}
    mcase = {'id': 'base-mods', 'queries': [], 'starts': [], 'on_import': 'benign',
             'mods': {'fine': MOD_FINE, 'bad': MOD_HEAD},
             'prog': [{'do': 'mq', 'method': m, 'src': src, 'ref': 'm%d' % j}
                      for _ in range(2) for j, (m, src) in enumerate(MQ_FINE)]}
    res, mres = run_cases([case, mcase], 2)
    if 'infra' in res:
        raise common.InfraError('baseline run failed: ' + res['infra'])
    if 'infra' in mres:
        raise common.InfraError('baseline run (sourceless modules) failed: ' + mres['infra'])
    if res['env_error']:
        raise common.InfraError('cannot start the wrapped helper: %r' % (res['env_error'],))
    n = len(SCEN)
    expected, nreqs = {}, {}
    for qi in range(n):
        a, b = res['queries'][qi], res['queries'][n + qi]
        if not a['ok'] or not b['ok']:
            # totality of the undisturbed query is C01's business; drop the scenario
            expected[qi] = None
            continue
        if a['answer'] != b['answer']:
            expected[qi] = None      # not repeatable undisturbed (C16's business): unusable as reference
            continue
        expected[qi] = b['answer']
        nreqs[qi] = sum(1 for o in res['ops'][b['ops'][0]:b['ops'][1]] if o['op'] == 'call') + 2
    # the queries on module `fine` of the project with sourceless modules
    m = len(MQ_FINE)
    for j in range(m):
        qs = mres['queries']
        ok = not mres['env_error'] and len(qs) == 2 * m and qs[j]['ok'] and qs[m + j]['ok'] \
            and qs[j]['answer'] == qs[m + j]['answer']
        expected['m%d' % j] = qs[j]['answer'] if ok else None
    return expected, nreqs, res


def churn_case(n, seed):
    import random
    import jedi
    from jedi.api.environment import Environment
    Rec.install()
    rng = random.Random('churn-%s' % seed)
    os.makedirs(SCRATCH, exist_ok=True)
    log_file = os.path.join(SCRATCH, 'log-churn-%d.jsonl' % os.getpid())
    open(log_file, 'w').close()
    rec = Rec()
    rec.log = log_file
    Rec.cur = rec
    out = []
    try:
        env = Environment(WRAPPER, env_vars=dict(os.environ, DAVIDHALTER_JEDI_VERIF='1',
                                                 JEDI_VERIF_LOG=log_file))
        kept = []
        for i in range(n):
            method, src = SCEN[rng.randrange(len(SCEN))]
            s = jedi.Script(src, environment=env, path=os.path.join(SCRATCH, 'churn%d.py' % i))
            try:
                getattr(s, method)()
                ok = True
            except Exception:
                ok = False
            iss = s._inference_state.compiled_subprocess
            me = id(iss)
            # InferenceStateSubprocess objects alive in the parent when the last request of this query
            # was served (kept Scripts, or jedi's own time caches holding on to an InferenceState):
            # their helper-side state must stay, everything else must be gone
            live = {pid_ for pid_, ref in rec.live.items() if ref() is not None} | {me}
            if rng.random() < 0.2:
                kept.append(s)
            if kept and rng.random() < 0.3:
                kept.pop(rng.randrange(len(kept)))
            s = iss = None
            gc.collect()
            rec.read_log()
            st = None
            for e in reversed(rec.events):
                if 'states' in e:
                    st = e['states']
                    break
            out.append({'i': i, 'ok': ok, 'states': st, 'live': sorted(live), 'kept': len(kept),
                        'queue': len(env._subprocess._inference_state_deletion_queue)})
        # eventual release: drop everything, expire jedi's time caches, one more query
        kept = None
        from jedi import cache as jcache
        jcache.clear_time_caches(delete_all=True)
        gc.collect()
        s = jedi.Script(SCEN[0][1], environment=env)
        getattr(s, SCEN[0][0])()
        me = id(s._inference_state.compiled_subprocess)
        rec.read_log()
        st = None
        for e in reversed(rec.events):
            if 'states' in e:
                st = e['states']
                break
        out.append({'i': n, 'ok': True, 'states': st, 'live': [me], 'kept': 0, 'queue': 0, 'final': True})
        s = None
        env = None
        gc.collect()
    finally:
        Rec.cur = None
        try:
            os.unlink(log_file)
        except OSError:
            pass
    return {'steps': out, 'ops': rec.ops}


def _churn_worker(a):
    try:
        return churn_case(*a)
    except BaseException as e:
        import traceback
        return {'infra': traceback.format_exc()[-1500:] + repr(e)}


def run(ctx):
    import multiprocessing as mp
    load_own_findings(ctx, 'C14')
    expected, nreqs, base = baseline(ctx)
    usable = [qi for qi in range(len(SCEN)) if expected.get(qi) is not None]
    m_usable = [j for j in range(len(MQ_FINE)) if expected.get('m%d' % j) is not None]
    ctx.notes.append('sourceless-module queries with a usable undisturbed answer: %r' % [MQ_FINE[j] for j in m_usable])
    if len(m_usable) < 2:
        raise common.InfraError('fewer than 2 usable queries on the sourceless module: %r'
                                % {k: v for k, v in expected.items() if isinstance(k, str)})
    if len(usable) < 6:
        raise common.InfraError('fewer than 6 usable scenarios: %r' % (expected,))
    for qi in range(len(SCEN)):
        if qi not in usable:
            ctx.count('raised', ('scenario', qi), nontrivial=False, bucket='scenario-unusable-undisturbed')
    cases = gen_cases(ctx, {qi: nreqs.get(qi, 5) for qi in range(len(SCEN))})
    for c in cases:
        c['queries'] = [q if q in usable else usable[q % len(usable)] for q in c['queries']]
        for st in c.get('prog') or []:
            if 'q' in st and st['q'] not in usable:
                st['q'] = usable[st['q'] % len(usable)]
    # corpus first
    cdir = os.path.join(common.CORPUS_DIR, 'C14')
    if os.path.isdir(cdir):
        for fn in sorted(os.listdir(cdir)):
            if fn.endswith('.json'):
                with open(os.path.join(cdir, fn)) as f:
                    c = json.load(f)
                c['id'] = 'corpus-' + fn[:-5]
                c.pop('note', None)
                cases.insert(0, c)
    t0 = time.time()
    pool_ctx = mp.get_context('fork')
    with pool_ctx.Pool(1) as p1:
        churn_async = p1.apply_async(_churn_worker, ((ctx.size(40, 200), ctx.seed),))
        results = run_cases(cases, jobs=ctx.size(12, 16))
        # "no query hangs" is judged on an otherwise idle harness: a case that ran into the alarm while
        # 12 workers (and whatever else the machine is doing) compete for the CPUs is run again, alone
        hung = [i for i, r in enumerate(results)
                if 'infra' not in r and any(q.get('cls') == 'HANG' for q in r['queries'])]
        if hung:
            ctx.notes.append('cases %s hit the %d s alarm in the parallel run; re-run (3 at a time) with %d s'
                             % ([cases[i]['id'] for i in hung], HANG_AFTER, RETRY_HANG_AFTER))
            again = run_cases([dict(cases[i], timeout=RETRY_HANG_AFTER) for i in hung], 3)
            for i, r in zip(hung, again):
                results[i] = r
        churn = churn_async.get(timeout=600)
    ctx.notes.append('C14: %d cases on the real code in %.1f s' % (len(cases), time.time() - t0))
    reqs = []
    for c, r in zip(cases, results):
        if 'infra' in r:
            raise common.InfraError('case %s: %s' % (c['id'], r['infra']))
        oracle_case(ctx, c, r, expected)
        reqs.append(model_request(r))
    # churn oracle: helper-side states are a subset of the live Scripts' ids after every request
    if 'infra' in churn:
        raise common.InfraError('churn: ' + churn['infra'])
    worst = 0
    for st in churn['steps']:
        if st['states'] is None:
            continue
        extra = [x for x in st['states'] if x not in st['live']]
        worst = max(worst, len(st['states']))
        ctx.count('churn', ('churn', st['i']), nontrivial=st['kept'] > 0, bucket='kept=%d' % min(st['kept'], 5))
        if extra:
            ctx.fail('churn', 'helper keeps inference states of discarded Scripts', {'step': st['i']},
                     expected=st['live'], observed=st['states'],
                     how='create/drop Scripts on one Environment, gc.collect(), look at Listener._inference_states')
    ctx.notes.append('churn: %d Scripts, max helper-side states %d' % (len(churn['steps']), worst))
    reqs.append({'op': 'trace', 'plan': [], 'ops': [{'op': o['op'], 's': o['s']} for o in churn['ops']] + [{'op': 'dropenv'}]})
    # CPython's class hierarchy as the model has it (mro) vs the real one, and what the except clause of
    # Listener.listen read from the source does with each class, vs what the real helper did in this run
    names = sorted(set(EXC_SOFT) | {n for n, _ in EXC_FATAL} | {'InternalError', 'UnpicklingError'})
    n_trace = len(reqs)
    for nm in names:
        reqs.append({'op': 'caught', 'cls': nm, 'clause': ['Exception']})
        reqs.append({'op': 'listen', 'cls': nm})
    survived = {}      # class raised inside the helper -> did the helper survive it (observed)
    for r in results:
        for q in r.get('queries', []):
            for f in q['faults']:
                if f['phase'] in ('raises', 'raises_fatal') and f.get('exc'):
                    later = any(e.get('pid') == f['pid'] and e.get('ev') == 'req' and e.get('k', -1) > f['k']
                                for e in r['events'])
                    # decisive observations only: the helper served a later request or the class came
                    # back re-raised (survived); the query ended in InternalError (it died).  A query
                    # that swallowed the re-raised exception and was the helper's last one says nothing
                    # (seen with `Exception` itself, which jedi's own `except Exception` clauses absorb).
                    if later or (not q['ok'] and q['cls'] == f['exc']):
                        survived.setdefault(f['exc'], set()).add(True)
                    elif not q['ok'] and q['cls'] == 'InternalError':
                        survived.setdefault(f['exc'], set()).add(False)
    if ctx.model_ok:
        answers = common.run_driver_parallel('C14', reqs)
        for j, nm in enumerate(names):
            a_caught, a_listen = answers[n_trace + 2 * j], answers[n_trace + 2 * j + 1]
            real = is_exception_subclass(nm)
            if real is None:
                real = True          # jedi's / pickle's own Exception subclasses
            ctx.count('corr', ('hierarchy', nm), nontrivial=True, bucket='class hierarchy / except clause of listen')
            if a_caught != real:
                ctx.tie_broken('correspondence:hierarchy', 'model: `except Exception` catches %s = %r, CPython: %r'
                               % (nm, a_caught, real))
            obs = survived.get(nm)
            if obs and obs != {a_listen == 'reported'}:
                ctx.tie_broken('correspondence:listen', 'class %s raised inside the helper: model says %s, the real '
                               'helper survived = %r' % (nm, a_listen, sorted(obs)))
        for c, r, ans in zip(cases, results, answers[:len(cases)]):
            if isinstance(ans, dict):
                raise common.InfraError('driver error: %r' % ans)
            diffs = compare_case(ctx, c, r, ans)
            hit = sorted({f['phase'] for q in r['queries'] for f in q['faults']})
            ctx.count('corr', json.dumps([c['queries'], c['starts'], c.get('kills', []), c.get('prog')]),
                      nontrivial=bool(hit) or bool(c.get('prog')),
                      bucket='ops=%d0s/faults=%s' % (len(r['ops']) // 10, ','.join(hit) or '-'),
                      sample={'starts': c['starts'], 'n_ops': len(r['ops']),
                              'outcomes': [o['out'] for o in r['ops'] if o['out'] != 'ok']})
            if diffs:
                ctx.tie_broken('correspondence:corr', short({'case': c, 'diffs': diffs[:4]}, 1500))
                # failing-input search = the oracle already ran on this very case (oracle_case above)
        # churn trace
        ans = answers[len(cases)]
        for i, o in enumerate(churn['ops']):
            m = ans[i]
            ok = m['out'] == o['out'] and all(
                a[k] == b[k] for a, b in zip(o['snap'], m['env']['procs']) if not a.get('gone')
                for k in ('crashed', 'queue', 'cleanups'))
            if not ok:
                ctx.tie_broken('correspondence:churn', short({'op': i, 'impl': o, 'model': m}, 1200))
                break
        ctx.count('corr', 'churn', nontrivial=True, bucket='churn-trace ops=%d' % len(churn['ops']))
    else:
        ctx.notes.append('model did not build: correspondence skipped, oracle only')
    ctx.obligations['assumptions'] = [
        'the channel is a parameter: which fault hits which request is taken from the wrapper log, which '
        'exception class the Unpickler raises on a truncated reply is measured per case in the harness process',
        'weakref.finalize runs its callback at most once (CPython); GC happens where the harness calls gc.collect()',
        'helper-side functions raising an exception (the helper survives) are channel events like the faults: '
        'which request raised which class is taken from the wrapper log; a deletion request has no function',
        'ids of live InferenceStateSubprocess objects are distinct (CPython id()); the model drops the first '
        'object found for an id',
        'no-hang, zombie and fd statements are observed (30 s alarm, re-run alone with 180 s before a hang is '
        'reported; /proc child table; /proc/self/fd pipe census after every query), not proved',
        'a stream.close() that raises still releases its descriptor (CPython buffered close); a request whose '
        'write failed with EPIPE stays in the BufferedWriter of stdin, so stdin.close() raises BrokenPipeError '
        '(requests are smaller than the 8 KiB buffer); stdout/stderr close() never raise in the executable '
        'model (the theorem cleanup_closes_all_streams covers every subset)',
        'a helper that dies while the environment is created for the first time is an invalid environment, '
        'not a crash of a working helper (counted, not judged)',
    ]


def replay(ctx, payload):
    inp = payload['input']
    qs = []
    for m, src in inp['queries']:
        qs.append(SCEN.index((m, src)) if (m, src) in SCEN else 0)
    case = {'id': 'replay', 'queries': qs, 'starts': inp['starts'], 'kills': inp.get('kills', [])}
    if inp.get('prog'):
        case['prog'] = []
        for st in inp['prog']:
            st = dict(st)
            src = st.pop('src', None) if st.get('do') != 'mq' else None
            if src is not None:
                st['q'] = SCEN.index(tuple(src)) if tuple(src) in SCEN else 0
            case['prog'].append(st)
    if inp.get('mods'):
        case['mods'] = inp['mods']
        case['on_import'] = inp.get('on_import')
    res = run_cases([case], 1)[0]
    if 'infra' in res:
        print(res['infra'])
        return 2
    for q, st in zip(res.get('queries', []), steps_of(case)):
        what = (st['do'], st.get('slot'), SCEN[st['q']] if 'q' in st else (st.get('method'), st.get('src'))) \
            if case.get('prog') else SCEN[st['q']]
        print(what, '->', q['answer'] if q['ok'] else 'EXC %s: %s' % (q['cls'], q['msg'][:160]),
              'faults:', [(f['phase'], f['k'], f.get('by', 'wrapper')) for f in q['faults']],
              'pipes of dead helpers still open:', q.get('dead_pipes'),
              'helper states of Scripts discarded earlier:', q.get('stale_states'),
              '[helper states, alive Scripts, request index]:', q.get('states_seen'))
    print('zombies at end:', res.get('zombies_end'), 'fds before/after:', res.get('fds'))
    print('expected:', payload.get('expected'), 'observed at record time:', short(payload.get('observed')))
    # the verdict of the oracle on this run (undisturbed reference answers are computed first)
    load_own_findings(ctx, 'C14')
    expected, _nreqs, _base = baseline(ctx)
    oracle_case(ctx, case, res, expected)
    bad = [v for v in ctx.violations if v is not None]
    for v in bad:
        print('REPRODUCED:', v['what'], '| query', v['input'].get('query_index'), '| observed:',
              short(v['observed'], 400))
    if not bad:
        print('not reproduced: the property holds on this input (known findings: %s)' % sorted(ctx.known_hits))
    return 1 if bad else 0

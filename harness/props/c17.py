"""C17 - every reported position is faithful to the text.

Streams
  leaves   (A) parso's own leaves (type, prefix, value, start_pos) of generated and corpus files
           (CRLF / CR / mixed line ends, tabs, form feeds, unicode identifiers, continuation lines,
           no final newline, BOM) -> Model.ParsoPos.parsoPositions recomputes every position from
           prefix and value alone; must equal parso's start_pos; the tree must be CRLFSafe (the
           hypothesis of leaf_at_position); oracle: the raw text at start_pos begins with the value.
  linecode Model.Names.getLineCode vs BaseName.get_line_code(before, after)
  names    (C-model) Script.get_names(flags) vs Model.Names.scriptNames fed with the parser's
           used-names index
  nameshist (C-model over histories) 8-12 get_names calls with repeated flags on ONE Script vs
           Model.Names.namesHistory (the memo of the callee `Script._names` iterates over, as the
           translator found it)
  results  (B) every Name / Completion / Signature returned by the query methods on generated
           programs: text at (line, column) == name, definition range encloses it, get_line_code()
           is that very line  (direct oracle on the real API)
  tokens   (C) get_names(all_scopes, definitions, references) vs Python's tokenize (every
           identifier token exactly once) and is_definition() vs ast binding contexts
  history  (B + C over histories, props/c17_hist.py) sequences of queries with repetition on ONE
           Script object (get_names with all 8 flag combinations, search, complete_search, goto, infer,
           help, get_references, get_context, get_signatures, complete, get_syntax_errors, and methods of
           the returned Names): after every call the position clauses for every returned object and
           the tokenize / ast oracle for every get_names answer
  files    (B + C over histories of ONE project file, props/c17_files.py) the file is written with new / equal /
           older modification times (mv of a backup, cp -p, two writes in one tick), removed, analysed from disk
           (Script(path=p): jedi reads it) and as an unsaved editor buffer (Script(code, path=p)), the process is
           restarted: every analysis is judged against the text it analyses (read from disk by the oracle itself)
           with the tokenize / ast oracle and the position clauses
  scriptparse (model) Model.ScriptParse.run (Script.__init__'s parse call with the cache policy the translator read,
           over a transcription of parso's Grammar.parse / load_module / try_to_save_module) vs the real
           jedi.Script(...) and grammar.parse(code=, path=, cache=, diff_cache=) on histories of one path with explicit
           time stamps: which version's tree is returned, which text is kept as _code
"""
import ast
import io
import json
import keyword
import os
import re
import tokenize

import common
from common import short
from gen import api_walk, texts
from props.c01 import raw_lines, load_local_known, exc_key

MODELS = ['Names', 'ParsoPos', 'ScriptParse']
MODEL_TARGETS = ['JediModel.Lemmas.Tree', 'JediModel.Model.Names', 'JediModel.Lemmas.Names', 'JediModel.Model.ParsoPos',
                 'JediModel.Model.ScriptParse', 'JediModel.Lemmas.ScriptParse']
MANIFEST = dict(
    text='Theorems over Model.Text/Model.Tree: join(splitLines s) = s, splitLines s is never empty, the shape of '
         'every line (only \\n, \\r\\n and a lone \\r terminate a line), leaf_at_position (for every CRLF-safe tree '
         'and every leaf the buffer text at the position computed from prefixes and values alone is the leaf value '
         'followed by the rest of the file), positions count lines and code points, which characters start a new '
         'line, get_line_code() is the line the leaf stands on and the value stands at the reported column, '
         'get_names enumerates every indexed name once, sorted by position, definitions and references partition '
         'it. Histories on ONE Script (Model.Names.namesHistory: the memo of the callee Script._names iterates over): '
         'names_history_faithful - every enumeration of every history (any flags, repetitions, order) answers like the '
         'first one of a fresh Script unless a one-shot iterator is remembered; names_history_faithful_source / '
         'names_history_every_token_once for the source as the translator finds it (callee, its decorators, does it '
         'return filter/map/a generator - followed through jedi/); kernel-checked counter-witnesses for a memoised '
         'filter object (second call empty for every program, other flags undisturbed); api_memo_values_replayable / '
         'api_attributes_replayable: no memo decorator and no attribute in jedi/api/ keeps a one-shot iterator '
         '(translator tables over jedi/api/**/*.py). '
         'Histories of ONE project file (Model.ScriptParse: Script.__init__\'s parse call over a transcription of parso\'s '
         'Grammar.parse / load_module / try_to_save_module; state = in-memory parser cache + pickle + the file with its '
         'mtime): script_tree_is_code - if the parse call never asks load_module (cache=False, script_parse_policy reads '
         'it from the source) every Script of every history (writes with any time stamps, removals, restarts, buffer and '
         'disk analyses in any order, interleaved cached parses of the path) works on the tree of exactly the text it '
         'keeps as _code, which is the buffer or the file content at that moment; script_tree_is_code_source; '
         'first_analysis_faithful (any policy: one analysis per file never shows it); kernel-checked counter-witnesses '
         'for cache=<code is None> (buffer then disk; backup moved back with an older / equal mtime; via the pickle '
         'after a restart). '
         'parso-level statement is partial (byte order mark, kernel-checked counter-witness, known finding). '
         'Tie: translator (position source, line lookup, sort key, def/ref filter, name source, memo tables) + '
         'correspondence on parso trees, on enumeration histories and on file histories (stream scriptparse: real '
         'Script(...) / grammar.parse(...) with explicit time stamps vs Model.ScriptParse.run); direct oracle over file '
         'histories in fresh interpreters (stream files).',
    note='Modelled not verified: parso tokenizer (enters as the dumped leaves; its position law and CRLF-safety '
         'are re-checked on every dumped tree), which names parso indexes (checked against tokenize/ast by stream '
         'tokens - a test).',
    technique='Lean 4 proof over hand-written model + translator-generated constants + differential correspondence',
    design='5.C17')
LEAN_TARGETS = ['JediModel.Props.C17', 'JediModel.Drivers.C17']


# ------------------------------------------------------------------ helpers

def text_at(text, line, col, n):
    """raw text starting at (line, col), computed without parso"""
    ls = raw_lines(text)
    if not (1 <= line <= len(ls)):
        return None
    off = sum(len(c) + len(t) for c, t in ls[:line - 1]) + col
    if col > len(ls[line - 1][0]) + len(ls[line - 1][1]):
        return None
    return text[off:off + n]


def raw_line(text, line):
    ls = raw_lines(text)
    if not (1 <= line <= len(ls)):
        return None
    return ls[line - 1][0] + ls[line - 1][1]


def dump_leaves(module):
    """[(type, prefix, value, start_pos)], zero-width error leaves (INDENT / ERROR_DEDENT markers:
    empty prefix and value) listed separately with the start of the following leaf"""
    out, zero = [], []
    leaf = module.get_first_leaf()
    pending = []
    while leaf is not None:
        if leaf.type == 'error_leaf' and leaf.value == '' and leaf.prefix == '':
            pending.append(leaf.start_pos)
        else:
            for p in pending:
                zero.append((p, leaf.start_pos))
            pending = []
            out.append((leaf.type, leaf.prefix, leaf.value, leaf.start_pos))
        leaf = leaf.get_next_leaf()
    return out, zero


LAYOUT_CORPUS = [
    'a = 1\r\nb = 2\r\n', 'a = 1\rb = 2\r', 'a\r\n\rb\n\r\nc', '\fa = 1\n\f\fb', 'x = \\\n    1\n', 'x = \\\r\n  1\r\n',
    'x = \\\r  1', 'if a:\n\tb\n        c\n', 'd\u00e9f = "\u00e9\u00e9"; \u00fc = d\u00e9f\n', '\u4e2d\u6587 = 1\n\u4e2d\u6587',
    's = """a\r\nb\rc\n"""\nt', "s = '''\\\n'''\nx", 'a = 1  # c\u00f6mment\r\nb', '(\n a,\r b,\r\n c)\n', 'a\x0bb = 1\n',
    'a\x1cb\n', 'x\u2028y\n', 'a\x85b', 'def f(\n    a,\n    b=1,\n):\n    pass', '\n\n\na', '', '\n', '\r', '\r\n', 'a',
    'class A:\r\n    def f(self):\r\n        return 1\r\n', 'if x:\n  a\n b\n', 'if x:\n\f  a\n', "f'{a}\\\n{b}'\nc",
    "'abc\r\ndef", '"unterminated\\\r\nx', 'x = 1 \\', '\\\n', 'a;b;c\rd', 'lambda: (yield)\r',
]
BOM_CORPUS = ['\ufeffabc = 1\nabc', '\ufeff', '\ufeff\nx', '\ufeff  a']


def repo_snippets(ctx):
    rng = ctx.subrng('corpus')
    out = []
    base = os.path.join(common.REPO, 'jedi')
    files = sorted(os.path.join(dp, f) for dp, _, fs in os.walk(base) for f in fs
                   if f.endswith('.py') and 'third_party' not in dp)
    for path in rng.sample(files, min(len(files), ctx.size(6, 60))):
        try:
            with open(path, encoding='utf-8') as f:
                lines = f.read().split('\n')
        except (OSError, UnicodeDecodeError):
            continue
        start = rng.randint(0, max(0, len(lines) - 40))
        chunk = lines[start:start + rng.randint(10, 40)]
        term = rng.choice(['\n', '\r\n', '\r'])
        out.append(term.join(chunk))
    return out


# ------------------------------------------------------------------ stream A: leaves

def stream_leaves(ctx, reqs):
    import parso
    rng = ctx.subrng('leaves')
    cases = []
    pool = [('corpus', t) for t in LAYOUT_CORPUS] + [('bom', t) for t in BOM_CORPUS]
    pool += [('repo', t) for t in repo_snippets(ctx)]
    cdir = os.path.join(common.CORPUS_DIR, 'C17')
    if os.path.isdir(cdir):
        for f in sorted(os.listdir(cdir)):
            with open(os.path.join(cdir, f), encoding='utf-8') as fh:
                d = json.load(fh)
            if 'text' in d:
                pool.insert(0, ('regression', d['text']))
    for _ in range(ctx.size(250, 3000)):
        base = texts.valid_text(rng, fancy=True)
        pool.append(('valid', base))
        r = rng.random()
        if r < 0.4:
            pool.append(('mutant', texts.mutant(rng, base)))
        elif r < 0.7:
            pool.append(('soup', texts.soup(rng)))
        elif r < 0.8:
            pf = texts.prefixes(base)
            pool.append(('prefix', rng.choice(pf)))
    chars = ['a', '\n', '\r', '\f', '\u00e9', ' ', '\\', '#', "'", '"', '(', ')', '\t', ':', '1', '.', '=',
             '\x0b', 'f"', '{', '}', 'def ', 'if ', '\x1c', '\u2028', '\x85']
    for _ in range(ctx.size(600, 20000)):
        pool.append(('chars', ''.join(rng.choice(chars) for _ in range(rng.randint(0, 9)))))
    for family, text in pool:
        module = parso.parse(text)
        leaves, zero = dump_leaves(module)
        code = module.get_code()
        reqs.append({'op': 'layout', 'leaves': [[t, p, v] for (t, p, v, _) in leaves]})
        cases.append((('leaves', family, text), {'leaves': leaves, 'zero': zero, 'code': code}))
    return cases


def check_leaves(ctx, key, impl, ans):
    _, family, text = key
    leaves = impl['leaves']
    has_nl = any(ch in text for ch in '\r\f') or any(ord(ch) > 127 for ch in text)
    ctx.count('leaves', key, nontrivial=len(leaves) > 1, bucket=family + ('/layout' if has_nl else ''),
              sample={'text': text, 'leaves': [[t, p, v, list(sp)] for (t, p, v, sp) in leaves[:6]]})
    how = 'parso.parse(text): walk get_first_leaf()/get_next_leaf(), compare leaf.start_pos'
    if impl['code'] != text:
        ctx.tie_broken('correspondence:leaves/code', short({'text': text, 'code': impl['code']}))
        ctx.fail('leaves', 'get_code() of the parsed module is not the text', {'text': text},
                 expected=text, observed=impl['code'], how=how)
    model = [tuple(p) for p in ans['pos']]
    real = [tuple(sp) for (_, _, _, sp) in leaves]
    if not ans['safe']:
        ctx.tie_broken('assumption:CRLFSafe', short({'text': text}))
    if model != real:
        ctx.tie_broken('correspondence:leaves', short({'text': text, 'impl': real[:12], 'model': model[:12]}, 900))
    for (zp, nxt) in impl['zero']:
        if zp != nxt:
            ctx.tie_broken('assumption:zero-width error leaf sits at the start of the next leaf',
                           short({'text': text, 'zero': zp, 'next': nxt}))
    # direct oracle, independent of model and of parso.split_lines: the text at start_pos is the value
    for (typ, pfx, val, sp) in leaves:
        got = text_at(text, sp[0], sp[1], len(val))
        if got != val:
            ctx.fail('leaves', 'text at leaf.start_pos is not the leaf value',
                     {'text': text, 'bom': text.startswith('\ufeff'), 'family': family},
                     expected=val, observed={'type': typ, 'start_pos': list(sp), 'text_there': got}, how=how)
            break


# ------------------------------------------------------------------ stream: defrange
# get_definition_start_position / get_definition_end_position of real names against Model/DefRange on the leaves
# of the definition node parso picks (type, prefix, value; laid out from the start of the first leaf's prefix)

def stream_defrange(ctx, reqs):
    import jedi
    rng = ctx.subrng('defrange')
    cases = []
    for i in range(ctx.size(50, 1200)):
        text = texts.valid_text(rng, fancy=True) if i % 4 else texts.mutant(rng, texts.valid_text(rng, fancy=True))
        if text.startswith('\ufeff') or '\x0c' in text:
            continue                 # BOM / form feed columns: findings C17-bom-*, C17-formfeed-* (model: ParsoPos)
        try:
            names = jedi.Script(text).get_names(all_scopes=True, definitions=True, references=True)
        except Exception:   # noqa: totality is C01's statement
            continue
        for n in rng.sample(names, min(len(names), 8)):
            try:
                tn = n._name.tree_name
                if tn is None:
                    continue
                d = tn.get_definition()
                real = [n.get_definition_start_position(), n.get_definition_end_position()]
                typ = n.type
            except Exception:   # noqa
                continue
            node = d if d is not None else tn
            first, last = node.get_first_leaf(), node.get_last_leaf()
            leaves, idx, leaf = [], None, first
            while True:
                if leaf is tn:
                    idx = len(leaves)
                leaves.append([leaf.type, leaf.prefix, leaf.value])
                if leaf is last:
                    break
                leaf = leaf.get_next_leaf()
                if leaf is None:
                    break
            if idx is None:
                continue
            prev = first.get_previous_leaf()
            before = None if prev is None else [prev.type, prev.start_pos[0], prev.start_pos[1],
                                                prev.end_pos[0], prev.end_pos[1]]
            p0 = list(first.get_start_pos_of_prefix())
            reqs.append({'op': 'defrange', 'leaves': leaves, 'p': p0, 'name': idx, 'type': typ,
                         'hasdef': d is not None, 'before': before})
            cases.append((('defrange', text, n.line, n.column, n.name, typ, d.type if d is not None else None),
                          {'range': [list(real[0]), list(real[1])], 'name': [list(tn.start_pos), list(tn.end_pos)]}))
    return cases


# ------------------------------------------------------------------ stream B: results of queries

def check_result_object(ctx, script_path, text, method, n, stats):
    """the property on one returned object"""
    try:
        line, col, name = n.line, n.column, n.name
        mp = n.module_path
        ds, de = n.get_definition_start_position(), n.get_definition_end_position()
        code = n.get_line_code()
        kwarg = type(n).__name__ == 'Completion' and name.endswith('=') and n.type == 'param'
    except Exception as e:
        stats['raised'] = stats.get('raised', 0) + 1     # totality is C01's statement
        return
    if kwarg:
        # a keyword-argument completion (`foo(ba` -> `bar=`, jedi/api/completion.py:ParamNameWithEquals):
        # `.name` is the text that is inserted - the parameter's identifier plus the `=` decoration (upstream's
        # own tests expect `abc=`); the object points at the parameter, whose name is the identifier
        name = name[:-1]
        stats['kwarg_completion'] = stats.get('kwarg_completion', 0) + 1
    if line is None or col is None:
        stats['nopos'] = stats.get('nopos', 0) + 1
        return
    if ds is None:
        # no tree name: a module (reported as (1, 0): the file itself) - denotes no token
        stats['module'] = stats.get('module', 0) + 1
        return
    if mp is None or str(mp) == script_path:
        src, where = text, 'buffer'
    else:
        try:
            with open(mp, 'rb') as f:
                import parso
                src = parso.python_bytes_to_unicode(f.read(), errors='replace')
            where = 'file'
        except OSError:
            return
    case = {'source': text, 'method': method, 'name': name, 'where': where, 'bom': src.startswith('\ufeff')}
    if where == 'file':
        case['file'] = str(mp)
    obs = {'line': line, 'column': col, 'name': name, 'def_start': ds, 'def_end': de}
    how = 'jedi.Script(source, path=...).%s -> .line/.column/.name/.get_definition_*_position()/.get_line_code()' % method
    there = text_at(src, line, col, len(name))
    ctx.count('results', (text, method, line, col, name), nontrivial=True, bucket='%s/%s' % (where, type(n).__name__),
              sample={'source': text, 'method': method, 'name': name, 'line': line, 'column': col})
    if there != name:
        obs['text_there'] = there
        ctx.fail('results', 'text at (line, column) is not the name', case, expected=name, observed=obs, how=how)
        return
    if not (tuple(ds) <= (line, col) < tuple(de)):
        ctx.fail('results', 'definition range does not enclose the name', case,
                 expected='start <= (line, column) < end', observed=obs, how=how)
    want = raw_line(src, line)
    if code != want:
        obs['get_line_code'] = code
        ctx.fail('results', 'get_line_code() is not the line of the name', case, expected=want, observed=obs, how=how)


def stream_results(ctx):
    import jedi
    import time
    rng = ctx.subrng('results')
    stats = {}
    t0 = time.time()
    budget = ctx.size(14.0, 400.0)
    path = os.path.join(common.VERIF, 'replays', '_c17_buffer.py')   # need not exist
    n = 0
    pool = list(LAYOUT_CORPUS[:14])
    while time.time() - t0 < budget:
        text = pool.pop() if pool else texts.valid_text(rng, fancy=True)
        if rng.random() < 0.25:
            text = texts.mutant(rng, text)
        n += 1
        try:
            script = jedi.Script(text, path=path)
        except Exception:
            continue

        def visit(method, obj):
            if type(obj).__name__ != 'SyntaxError':
                check_result_object(ctx, path, text, method, obj, stats)

        def err(method, attr, e):
            stats['raised'] = stats.get('raised', 0) + 1
        ls = raw_lines(text)
        poss = [(li, c) for li, (content, _) in enumerate(ls, 1) for c in range(len(content) + 1)
                if c > 0 and (content[c - 1].isalnum() or content[c - 1] in '.(_')]
        for (line, col) in rng.sample(poss, min(len(poss), 3)):
            api_walk.walk(script, line, col, visit, err, queries=api_walk.position_queries(fuzzy=False),
                          max_results=4, depth=0)
        api_walk.walk(script, None, None, visit, err,
                      queries=[('get_names', {'all_scopes': True, 'definitions': True, 'references': True}),
                               ('search', {'string': 'a', 'all_scopes': True})], max_results=40, depth=0)
    ctx.notes.append('results stream: %d texts, %s' % (n, stats))


# ------------------------------------------------------------------ linecode + names (model)

def stream_linecode_names(ctx, reqs):
    import jedi
    from jedi.parser_utils import get_parent_scope
    rng = ctx.subrng('names')
    cases = []
    for i in range(ctx.size(60, 1500)):
        text = texts.valid_text(rng, fancy=True) if i % 3 else texts.mutant(rng, texts.valid_text(rng, fancy=True))
        try:
            script = jedi.Script(text)
            module = script._module_node
            used = [n for ns in module.get_used_names().values() for n in ns]
            occs = []
            for nm in used:
                ps = get_parent_scope(nm)
                if ps is not None and ps.type == 'async_stmt':
                    ps = ps.parent
                occs.append([nm.start_pos[0], nm.start_pos[1], nm.value, bool(nm.is_definition()),
                             ps is module or ps is None])
            for flags in ((True, True, True), (False, True, False), (True, False, True), (False, True, True),
                          (True, True, False)):
                a, d, r = flags
                names = script.get_names(all_scopes=a, definitions=d, references=r)
                impl = [[n.line, n.column, n.name, n.is_definition()] for n in names]
                reqs.append({'op': 'names', 'occs': occs, 'all': a, 'defs': d, 'refs': r})
                cases.append((('names', text, flags), impl))
            names = script.get_names(all_scopes=True, definitions=True, references=True)
            for n in rng.sample(names, min(len(names), 4)):
                b, af = rng.randint(0, 3), rng.randint(0, 3)
                impl = n.get_line_code(before=b, after=af)
                reqs.append({'op': 'linecode', 'text': text, 'line': n.line, 'before': b, 'after': af})
                cases.append((('linecode', text, n.line, b, af), impl))
            # a history of enumerations on this ONE Script (it has answered 6 of them already, so the model
            # is asked for the whole history): Model.Names.namesHistory with the translator's name source
            asked = [(True, True, True), (False, True, False), (True, False, True), (False, True, True),
                     (True, True, False), (True, True, True)]
            more = [rng.choice(asked + [(False, False, True), (True, False, False), (False, False, False)])
                    for _ in range(rng.randint(2, 6))]
            impl = []
            for (a, d, r) in more:
                impl.append([[n.line, n.column, n.name, n.is_definition()]
                             for n in script.get_names(all_scopes=a, definitions=d, references=r)])
            reqs.append({'op': 'nameshist', 'occs': occs, 'flags': [list(f) for f in asked + more]})
            cases.append((('nameshist', text, tuple(asked), tuple(more)), impl))
        except Exception as e:
            ctx.count('raised', (text,), nontrivial=False, bucket='%s@%s' % exc_key(e))
    return cases


# ------------------------------------------------------------------ stream C: tokens

def byte_to_char(line_text, byte_col):
    return len(line_text.encode('utf-8')[:byte_col].decode('utf-8', 'replace'))


def binding_tokens(text):
    """{(line, col)} of identifier tokens that bind (ast Store / Del contexts, def / class names,
    parameters, import aliases); None when the oracle cannot place a binder"""
    tree = ast.parse(text)
    lines = text.split('\n')
    toks = [t for t in tokenize.generate_tokens(io.StringIO(text).readline) if t.type == tokenize.NAME]
    by_pos = {t.start: t for t in toks}
    binds = set()

    def cc(lineno, bcol):
        return (lineno, byte_to_char(lines[lineno - 1], bcol))
    for node in ast.walk(tree):
        if isinstance(node, ast.Name) and isinstance(node.ctx, (ast.Store, ast.Del)):
            binds.add(cc(node.lineno, node.col_offset))
        elif isinstance(node, ast.Attribute) and isinstance(node.ctx, (ast.Store, ast.Del)):
            end = cc(node.end_lineno, node.end_col_offset)
            binds.add((end[0], end[1] - len(node.attr)))
        elif isinstance(node, (ast.FunctionDef, ast.AsyncFunctionDef, ast.ClassDef)):
            start = cc(node.lineno, node.col_offset)
            after = sorted(p for p in by_pos if p > start and by_pos[p].string == node.name)
            if not after:
                return None
            binds.add(after[0])
        elif isinstance(node, ast.arg):
            binds.add(cc(node.lineno, node.col_offset))
        elif isinstance(node, ast.alias):
            if node.name == '*':
                continue
            if node.asname:
                end = cc(node.end_lineno, node.end_col_offset)
                binds.add((end[0], end[1] - len(node.asname)))
            else:
                binds.add(cc(node.lineno, node.col_offset))
        elif isinstance(node, (ast.ExceptHandler, ast.MatchAs, ast.MatchStar, ast.MatchMapping, ast.TypeAlias)
                        if hasattr(ast, 'TypeAlias') else (ast.ExceptHandler,)):
            return None
    return binds


from gen.c17_histories import EXTRA_STMTS, token_program   # noqa: E402 (shared with stream `history`)


def stream_tokens(ctx):
    import jedi
    rng = ctx.subrng('tokens')
    how = 'jedi.Script(source).get_names(all_scopes=True, definitions=True, references=True)'
    done = 0
    for _ in range(ctx.size(700, 10000)):
        text = token_program(rng)
        try:
            toks = [t for t in tokenize.generate_tokens(io.StringIO(text).readline)
                    if t.type == tokenize.NAME and not keyword.iskeyword(t.string)]
            binds = binding_tokens(text)
        except (SyntaxError, tokenize.TokenError, IndentationError):
            continue
        try:
            names = jedi.Script(text).get_names(all_scopes=True, definitions=True, references=True)
            got = sorted((n.line, n.column, n.name) for n in names)
            defs = {(n.line, n.column) for n in names if n.is_definition()}
        except Exception as e:
            ctx.count('raised', (text,), nontrivial=False, bucket='%s@%s' % exc_key(e))
            continue
        want = sorted((t.start[0], t.start[1], t.string) for t in toks)
        done += 1
        ctx.count('tokens', (text,), nontrivial=len(want) > 0, bucket='names=%d' % min(len(want) // 5 * 5, 30),
                  sample={'source': text, 'identifiers': len(want)})
        if got != want:
            missing = [x for x in want if x not in got]
            extra = [x for x in got if x not in want]
            dup = [x for x in set(got) if got.count(x) > 1]
            ctx.fail('tokens', 'get_names does not report every identifier token exactly once', {'source': text},
                     expected=want, observed={'missing': missing[:5], 'extra': extra[:5], 'duplicates': dup[:5]}, how=how)
            continue
        if binds is None:
            continue
        positions = {(l, c) for (l, c, _) in got}
        binds &= positions
        if defs != binds:
            ctx.fail('tokens', 'is_definition() differs from the binding tokens',
                     {'source': text, 'kind': 'is_definition'}, expected=sorted(binds),
                     observed={'definition_but_not_binding': sorted(defs - binds)[:6],
                               'binding_but_not_definition': sorted(binds - defs)[:6]}, how=how)


def stream_known(ctx):
    """byte order mark: the known finding's input, through the API"""
    import jedi
    src = '\ufeffabc = 1\nabc'
    path = os.path.join(common.VERIF, 'replays', '_c17_buffer.py')
    stats = {}
    for n in jedi.Script(src, path=path).get_names(all_scopes=True, definitions=True, references=True):
        check_result_object(ctx, path, src, 'get_names', n, stats)
    # keyword-argument completions (`a=`, `bar=`): judged by the identifier they point at, in every tier
    for src, line, col in (('def baz(bar, a, **kw):\n    return bar\nbaz(a=\n', 3, 5),
                           ('def baz(bar, a, **kw):\r\n    return bar\r\nbaz(ba', 3, 6),
                           ('class C:\n    def m(self, \u00e9t\u00e9, *, key=1):\n        pass\nC().m(', 4, 6)):
        try:
            comps = jedi.Script(src, path=path).complete(line, col)
        except Exception:
            comps = []
        for c in comps:
            if c.name.endswith('='):
                check_result_object(ctx, path, src, 'complete', c, stats)
    ctx.notes.append('keyword-argument completions probed: %d' % stats.get('kwarg_completion', 0))


# ------------------------------------------------------------------ compare

def compare(ctx, cases, answers):
    for (key, impl), ans in zip(cases, answers):
        if isinstance(ans, dict) and 'error' in ans:
            raise common.InfraError('driver error: %r' % ans)
        stream = key[0]
        if stream == 'leaves':
            check_leaves(ctx, key, impl, ans)
        elif stream == 'scriptparse':
            from props import c17_files
            c17_files.compare_scriptparse(ctx, key, impl, ans)
        elif stream == 'defrange':
            _, text, line, col, name, typ, dtype = key
            ctx.count('defrange', key, nontrivial=dtype is not None, bucket='%s/%s' % (typ, dtype))
            model = {'range': [ans.get('start'), ans.get('end')], 'name': ans.get('name')}
            if model != impl:
                ctx.tie_broken('correspondence:defrange', short({'source': text, 'name': [line, col, name], 'type': typ,
                                                                 'definition': dtype, 'impl': impl, 'model': model}, 900))
                # failing-input search: the property's own clause on this very name
                (s0, e0), (ns, ne) = impl['range'], impl['name']
                if not (tuple(s0) <= tuple(ns) and tuple(ne) <= tuple(e0)):
                    ctx.fail('results', 'definition range does not enclose the name',
                             {'source': text, 'method': 'get_names', 'name': name, 'where': 'buffer', 'bom': False},
                             expected='start <= name start and name end <= end',
                             observed={'line': line, 'column': col, 'def_start': s0, 'def_end': e0, 'name_end': ne},
                             how='jedi.Script(source).get_names(all_scopes=True, definitions=True, references=True) -> '
                                 '.get_definition_start_position() / .get_definition_end_position()')
        elif stream == 'linecode':
            _, text, line, b, af = key
            ctx.count('linecode', key, nontrivial=True, bucket='b=%d,a=%d' % (b, af))
            if ans != impl:
                ctx.tie_broken('correspondence:linecode', short({'case': key, 'impl': impl, 'model': ans}))
                want = ''.join(c + t for c, t in raw_lines(text)[max(line - 1 - b, 0):line + af])
                if impl != want:
                    ctx.fail('linecode', 'get_line_code(before, after) is not the requested lines',
                             {'source': text, 'line': line, 'before': b, 'after': af}, expected=want, observed=impl)
        elif stream == 'nameshist':
            _, text, asked, more = key
            ctx.count('nameshist', key, nontrivial=any(impl), bucket='len=%d' % (len(asked) + len(more)))
            model = [[list(x) for x in a] for a in ans][len(asked):]
            if model != impl:
                ctx.tie_broken('correspondence:nameshist', short({'source': text, 'flags': asked + more,
                                                                  'impl': impl[:3], 'model': model[:3]}, 900))
                from props import c17_hist
                ops = [{'op': 'get_names', 'all_scopes': a, 'definitions': d, 'references': r} for (a, d, r) in asked + more]
                r_ = c17_hist.run_history(text, ops, 'nameshist')
                for f in r_['fails'][:1]:
                    c17_hist.judge_record(ctx, {'text': text, 'family': 'nameshist', 'labels': [], 'results': [],
                                                'raised': {}, 'fails': [dict(f, history=ops[:f['step'] + 1])]})
        elif stream == 'names':
            _, text, flags = key
            ctx.count('names', key, nontrivial=len(impl) > 0, bucket='flags=%s' % (flags,))
            model = [list(x) for x in ans]
            if model != impl:
                # equal start positions cannot occur for distinct tokens, so order is determined
                ctx.tie_broken('correspondence:names', short({'source': text, 'flags': flags, 'impl': impl[:8], 'model': model[:8]}, 900))
                if sorted(map(tuple, impl)) != sorted(set(map(tuple, impl))):
                    ctx.fail('names', 'get_names reports a name twice', {'source': text, 'flags': list(flags)}, observed=impl)
                elif impl != sorted(impl, key=lambda x: (x[0], x[1])):
                    ctx.fail('names', 'get_names is not in position order', {'source': text, 'flags': list(flags)}, observed=impl)
                else:
                    a, d, r = flags
                    bad = [x for x in impl if (x[3] and not d) or (not x[3] and not r)]
                    if bad:
                        ctx.fail('names', 'get_names(definitions=%s, references=%s) returns a name of the other kind' % (d, r),
                                 {'source': text, 'flags': list(flags)}, observed=bad[:5])


def run_driver_chunks(pid, reqs, jobs=6):
    """layout requests are quadratic in the file size: spread them over a few driver processes"""
    from concurrent.futures import ThreadPoolExecutor
    if len(reqs) < 50:
        return common.run_driver(pid, reqs)
    idx = sorted(range(len(reqs)), key=lambda i: -len(json.dumps(reqs[i])))
    buckets = [idx[k::jobs] for k in range(jobs)]
    with ThreadPoolExecutor(jobs) as ex:
        parts = list(ex.map(lambda b: common.run_driver(pid, [reqs[i] for i in b]), buckets))
    out = [None] * len(reqs)
    for b, part in zip(buckets, parts):
        for i, a in zip(b, part):
            out[i] = a
    return out


def run(ctx):
    load_local_known(ctx, 'C17')
    from props import c17_hist
    hist_job = c17_hist.Job(ctx)          # fresh-interpreter workers, concurrent with the streams below
    c17_hist.corpus_cases(ctx)
    from props import c17_files
    c17_files.corpus_cases(ctx)
    reqs = []
    cases = []
    import time
    t = [time.time()]

    def lap(name):
        t.append(time.time())
        ctx.notes.append('%s: %.1fs' % (name, t[-1] - t[-2]))
    cases += stream_leaves(ctx, reqs)
    lap('leaves')
    cases += stream_linecode_names(ctx, reqs)
    lap('linecode+names')
    cases += c17_files.stream_scriptparse(ctx, reqs)
    lap('scriptparse')
    cases += stream_defrange(ctx, reqs)
    lap('defrange')
    stream_known(ctx)
    stream_tokens(ctx)
    lap('tokens')
    stream_results(ctx)
    lap('results')
    hist_job.finish(ctx)
    lap('history (waiting for the workers)')
    if ctx.model_ok:
        answers = run_driver_chunks('C17', reqs)
        lap('driver')
        compare(ctx, cases, answers)
        lap('compare')
    else:
        ctx.notes.append('model did not build: correspondence skipped, direct oracles only')
        for (key, impl) in cases:
            if key[0] == 'leaves':
                check_leaves(ctx, key, impl, {'pos': [list(sp) for (_, _, _, sp) in impl['leaves']], 'safe': True})
    ctx.obligations['assumptions'] = [
        'parso tokenizer: enters the model as the dumped (type, prefix, value) leaves; its start_pos law, '
        'get_code() == text and CRLF-safety (no piece boundary inside \\r\\n) are re-checked on every dumped tree',
        'zero-width INDENT / ERROR_DEDENT error leaves carry no text and sit at the start of the next leaf (checked)',
        'a Name without tree name (a module: reported as (1, 0), the file itself) denotes no token and is not judged',
        'which identifiers parso indexes (get_used_names) is compared with tokenize / ast on generated valid programs - a test',
        'lone surrogates are outside the model and the generators',
        'the state of a Script between two queries is modelled for the name enumeration only (the memo of the callee '
        '_names iterates over); whether a remembered value is a one-shot iterator is decided syntactically by the '
        'translator (generator function, returned generator expression / map / filter / zip / chain, followed through '
        'the jedi functions it returns and through local names); state kept by other means is seen by stream '
        '`history` only - a test',
        'Model.ScriptParse: a tree is identified with the text it was parsed from (the from-scratch parser and the diff '
        'parser return the tree of the lines they are given: get_code() is compared by streams leaves / scriptparse); one '
        'path; the garbage collection of parso\'s in-memory cache (600 entries) and the monthly clean-up of the cache '
        'directory are not modelled; a restart is played by emptying parso\'s in-memory cache; parso itself is the '
        'installed dependency (its two time-stamp comparisons are read by the translator)',
        'stream history: get_names with all_scopes=False is judged by sound bounds (nothing from inside a def / class / '
        'lambda body, at least the names of the top-level statements), exactly for all_scopes=True',
    ]


def replay(ctx, payload):
    import jedi
    inp = payload['input']
    print('input:', json.dumps(inp, ensure_ascii=True))
    if 'file_history' in inp:
        from props import c17_files
        return c17_files.replay(ctx, inp, payload)
    if 'history' in inp:
        from props import c17_hist
        return c17_hist.replay(ctx, inp, payload)
    if 'text' in inp:
        import parso
        leaves, zero = dump_leaves(parso.parse(inp['text']))
        for l in leaves:
            print(l, repr(text_at(inp['text'], l[3][0], l[3][1], len(l[2]))))
    elif 'source' in inp:
        for n in jedi.Script(inp['source']).get_names(all_scopes=True, definitions=True, references=True):
            print(n.line, n.column, n.name, n.is_definition(), n.get_definition_start_position(),
                  n.get_definition_end_position(), repr(n.get_line_code()))
    print('expected:', payload.get('expected'), 'observed at record time:', payload.get('observed'))
    return 0

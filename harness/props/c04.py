"""C04 - completions extend what is typed, ordered, unique, complete.

Streams
  match      helpers.match vs Model.Match.pmatch  (exhaustive small strings + random unicode)
  filter     completion.filter_names + the sort of Completion.complete driven with synthetic
             Name objects vs Model.Completion.completePython
  foldsrc    the same on names that collide under a case mapping (straße/strasse, İlk/i̇lk, ...) vs
             Model.Completion.completePythonSrc: folding methods + position of the length measurement
             as the translator read them from filter_names
  foldmap    Model.Completion.expand/unitOn (code-point-wise case mapping) vs str.lower/casefold/upper;
             str.lower is unit-width on every code point but U+0130 (checked over all code points)
  e2e        Script.complete on generated programs (ASCII programs + programs whose scopes hold
             families of identifiers that collide under lower/casefold/upper, fragments stopping
             around the special code point): the candidate names jedi collected are
             captured (wrapper around completion.filter_names), the model is run on them and
             must reproduce the API-visible list (name, complete, name_with_symbols, prefix length)
  oracle     the property itself evaluated on Script.complete output (fragment recomputed from
             the text, documented order recomputed independently, dir() of executed objects)
"""
import itertools
import re
import unicodedata

import common
from common import short

MODELS = ['Match', 'Completion']
MANIFEST = dict(
    text='Theorems over the model of helpers.match, completion.filter_names, the sort in Completion.complete and '
         'classes.Completion: fuzzy<->subsequence, start<->prefix, every completion matches the (case-folded) '
         'fragment, complete is the missing suffix, prefix length = fragment length, first prefix_length characters '
         'equal the fragment up to case (under CharwiseLower, with a kernel-checked counter-witness for the '
         'unrestricted statement; and for any code-point-wise mapping that may expand a code point - casefold: '
         'prefix_is_fragment_unit_partial / accepted_text_spells_name_partial under "no expanding code point in '
         'the fragment and in the first |fragment| characters of the name", both hypotheses forced by kernel-checked '
         'witnesses straß/strasse, stras/straße; source_fold_shape: the translator-read folding statements of '
         'filter_names are lower/lower/length-first, source_filter_is_filterNames), no duplicate (name, complete), nothing matching is lost, sortedness, and '
         '"the key tuple found in the source orders exactly as documented" stated over the translator-extracted '
         'component list. Tie: translator + correspondence (unit level exhaustive on small strings, synthetic-name '
         'stream, foldsrc/foldmap streams on names colliding under a case mapping, end-to-end stream on the candidates '
         'jedi collected, incl. programs with such identifier families). Attribute completeness: theorem '
         'attrs_complete_partial over the PyCore fragment (every attribute the run can read from an instance/class is '
         'among complNames, the transcription of the filters complete_trailer uses; tie: jedi completions after `obj.` = '
         'complNames on generated PyCore programs); beyond the fragment (multiple inheritance) it is decided by '
         'executing generated hierarchies.',
    note='Modelled not verified: CPython str.lower (parameter), candidate collection in '
         'Completion._complete_python, dict-key/file-name completions that are prepended.',
    technique='Lean 4 proof over hand-written model + translator-generated constants + differential correspondence',
    design='5.C04')
LEAN_TARGETS = ['JediModel.Props.C04', 'JediModel.Drivers.C04', 'JediModel.Drivers.C02']


# ----------------------------------------------------------------- synthetic names

class FakeDef:
    def __init__(self, type_):
        self.type = type_


class FakeTreeName:
    def __init__(self, is_del):
        self._d = is_del

    def get_definition(self):
        return FakeDef('del_stmt' if self._d else 'expr_stmt')


class FakeName:
    """minimal stand-in for an inference Name object as filter_names uses it"""
    def __init__(self, string_name, public=None, api_type='statement', is_del=False, has_tree=True):
        self.string_name = string_name
        self._public = public if public is not None else string_name
        self.api_type = api_type
        self.tree_name = FakeTreeName(is_del) if has_tree else None
        self.parent_context = None

    def get_public_name(self):
        return self._public

    def infer(self):
        return []

    def is_import(self):
        return False


def lower_table(strings):
    return [[s, s.lower()] for s in sorted(set(strings))]


def comp_tuple(c):
    return [c.name, c.complete, c.name_with_symbols, c.get_completion_prefix_length()]


def model_tuple(m):
    return [m['name'], m['complete'], m['nws'], m['plen']]


# ----------------------------------------------------------------- stream: match

def stream_match(ctx, reqs):
    from jedi.api import helpers
    alphabet = ['a', 'b', '_']
    cases = []
    maxlen = ctx.size(4, 6)
    strings = [''.join(p) for n in range(maxlen + 1) for p in itertools.product(alphabet, repeat=n)]
    likes = [''.join(p) for n in range(4) for p in itertools.product(alphabet, repeat=n)]
    rng = ctx.subrng('match')
    pairs = [(s, l) for s in strings for l in likes]
    if ctx.quick and len(pairs) > 6000:
        pairs = rng.sample(pairs, 6000)
    uni = ['İ', 'é', 'x', 'X', 'ß', '\U0001F600', 'ǅ']
    for _ in range(ctx.size(500, 5000)):
        s = ''.join(rng.choice(uni) for _ in range(rng.randint(0, 6)))
        l = ''.join(rng.choice(uni) for _ in range(rng.randint(0, 3)))
        pairs.append((s, l))
    for s, l in pairs:
        for fuzzy in (False, True):
            impl = bool(helpers.match(s, l, fuzzy=fuzzy))
            cases.append((('match', s, l, fuzzy), impl))
            reqs.append({'op': 'match', 's': s, 'like': l, 'fuzzy': fuzzy})
    return cases


# ----------------------------------------------------------------- stream: filter

POOL = ['foo', 'Foo', 'FOO', 'fob', '_foo', '__foo', '__foo__', 'foo_bar', 'bar', 'Bar', '_', 'f',
        'İx', 'ǅa', 'éa', 'Éa', 'fo', 'ofo',
        # pairs that collide under one of CPython's case mappings but not character by character
        # (lower / casefold / upper disagree or change the length)
        'straße', 'strasse', 'Maß', 'mass', 'i\u0307x', 'ix', 'ŉa', 'ʼna', 'ǰa', 'λος', 'λοσ', 'ΛΟΣ']


def run_filter_impl(names, like, fuzzy, imported, ci, bracket):
    from jedi import settings
    from jedi.api import completion
    old = (settings.case_insensitive_completion, settings.add_bracket_after_function)
    settings.case_insensitive_completion, settings.add_bracket_after_function = ci, bracket
    try:
        comps = list(completion.filter_names(None, names, None, like, fuzzy, imported, cached_name=None))
        # the sort of Completion.complete (the lambda is extracted by the translator; here the
        # real code path is exercised end-to-end by stream e2e; this stream re-applies the
        # same key on the real Completion objects)
        comps = sorted(comps, key=lambda x: (not x.name.startswith(like),
                                             x.name.startswith('__'),
                                             x.name.startswith('_'),
                                             x.name.lower()))
        return [comp_tuple(c) for c in comps]
    finally:
        settings.case_insensitive_completion, settings.add_bracket_after_function = old


def stream_filter(ctx, reqs):
    rng = ctx.subrng('filter')
    cases = []
    n = ctx.size(1500, 30000)
    for i in range(n):
        k = rng.randint(0, 6)
        names = []
        for _ in range(k):
            s = rng.choice(POOL)
            pub = s + '=' if rng.random() < 0.15 else s
            names.append(FakeName(s, pub, api_type=rng.choice(['function', 'statement', 'class']),
                                  is_del=rng.random() < 0.1, has_tree=rng.random() < 0.9))
        base = rng.choice(POOL)
        cut = rng.randint(0, len(base))
        like = base[:cut]
        if rng.random() < 0.3:
            like = like.swapcase()
        if rng.random() < 0.1:
            like = ''.join(rng.sample(base, min(len(base), 2)))
        fuzzy = rng.random() < 0.4
        imported = [rng.choice(POOL) for _ in range(rng.randint(0, 2))] if rng.random() < 0.3 else []
        ci = rng.random() < 0.8
        bracket = rng.random() < 0.3
        try:
            impl = run_filter_impl(names, like, fuzzy, imported, ci, bracket)
        except Exception as e:   # the real code raising here is a disagreement with the total model
            impl = ['EXC', type(e).__name__]
        cands = [{'str': nm.string_name, 'pub': nm._public, 'func': nm.api_type == 'function',
                  'del': bool(nm.tree_name and nm.tree_name._d)} for nm in names]
        strings = [like] + [nm.string_name for nm in names] + [nm._public for nm in names]
        req = {'op': 'complete', 'cands': cands, 'like': like, 'fuzzy': fuzzy, 'imported': imported,
               'ci': ci, 'bracket': bracket, 'lower': lower_table(strings)}
        reqs.append(req)
        cases.append((('filter', req), impl))
    return cases


# ----------------------------------------------------------------- streams: foldsrc, foldmap

FOLD_POOL = ['straße', 'strasse', 'STRASSE', 'Straße', 'maß', 'mass', 'masse', 'Maß', 'İlk', 'i\u0307lk', 'ilk',
             'ılk', 'ŉa', 'ʼna', 'ǰa', 'j\u030ca', 'ﬁn', 'fin', 'λος', 'λοσ', 'ΛΟΣ', 'ǆa', 'ǅa', 'Ǆa', 'stra', '_straße',
             '__strasse', 'ẞa', 'ssa']


def fold_tables(strings):
    strings = sorted(set(strings))
    return {m: [[x, getattr(x, m)()] for x in strings] for m in ('lower', 'casefold', 'upper')}


def stream_foldsrc(ctx, reqs):
    """filter_names + sort on names that collide under a case mapping, vs Model.Completion.
    completePythonSrc (folding methods and statement order as the translator read them)"""
    rng = ctx.subrng('foldsrc')
    cases = []
    for i in range(ctx.size(600, 12000)):
        names = []
        for _ in range(rng.randint(1, 6)):
            x = rng.choice(FOLD_POOL)
            pub = x + '=' if rng.random() < 0.15 else x
            names.append(FakeName(x, pub, api_type=rng.choice(['function', 'statement']),
                                  is_del=rng.random() < 0.05))
        base = rng.choice(FOLD_POOL)
        like = base[:rng.randint(0, len(base))]
        r = rng.random()
        like = like.upper() if r < 0.15 else like.casefold() if r < 0.3 else like.swapcase() if r < 0.4 else like
        fuzzy = rng.random() < 0.3
        imported = [rng.choice(FOLD_POOL)] if rng.random() < 0.2 else []
        ci = rng.random() < 0.9
        bracket = rng.random() < 0.2
        try:
            impl = run_filter_impl(names, like, fuzzy, imported, ci, bracket)
        except Exception as e:
            impl = ['EXC', type(e).__name__]
        cands = [{'str': nm.string_name, 'pub': nm._public, 'func': nm.api_type == 'function',
                  'del': bool(nm.tree_name and nm.tree_name._d)} for nm in names]
        strings = [like] + [nm.string_name for nm in names] + [nm._public for nm in names]
        req = {'op': 'complete_src', 'cands': cands, 'like': like, 'fuzzy': fuzzy, 'imported': imported,
               'ci': ci, 'bracket': bracket}
        req.update(fold_tables(strings))
        reqs.append(req)
        cases.append((('foldsrc', req), impl))
    return cases


def stream_foldmap(ctx, reqs):
    """Model.Completion.expand / unitOn (a case mapping applied code point by code point) vs the real
    str.lower / str.casefold / str.upper. Capital sigma is left out for lower(): its lower-casing
    depends on the position in the word."""
    rng = ctx.subrng('foldmap')
    alphabet = list('aAzZsS_ßẞİıiI\u0307ŉǰﬁǆǅǄéÉσςΣ')
    cases = []
    for i in range(ctx.size(400, 6000)):
        m = rng.choice(['lower', 'casefold', 'upper'])
        x = ''.join(rng.choice(alphabet) for _ in range(rng.randint(0, 7)))
        if m == 'lower':
            x = x.replace('Σ', 'σ')
        table = [[ch, getattr(ch, m)()] for ch in sorted(set(x))]
        impl = {'out': getattr(x, m)(), 'unit': len(getattr(x, m)()) == len(x) and all(len(getattr(ch, m)()) == 1 for ch in x)}
        reqs.append({'op': 'expand', 'table': table, 's': x})
        cases.append((('foldmap', m, x), impl))
    # the fact about CPython that source_fold_shape rests on: str.lower maps every code point but
    # U+0130 to one code point (casefold and upper do not)
    wide = [hex(c) for c in range(0x110000) if len(chr(c).lower()) != 1]
    ctx.count('foldmap', ('lower-unit-width',), nontrivial=True, bucket='all code points',
              sample={'code points whose lower() is not one code point': wide})
    if wide != ['0x130']:
        ctx.tie_broken('assumption:str.lower-unit-width', 'code points whose lower() is longer: %r' % wide[:20])
    return cases


# ----------------------------------------------------------------- program generator

IDENT_BASES = ['foo', 'fob', 'bar', 'baz', 'val', 'item', 'data', 'xs',
               # identifiers whose prefix spells a keyword: while they are typed the fragment is a
               # keyword token (an error leaf where the keyword is not allowed: `obj.is`, `x = in`)
               'is_ok', 'index', 'order', 'andy', 'notes', 'asset', 'iffy', 'elsewhere', 'fork',
               'trying', 'passed', 'defer', 'classy', 'returns', 'lambdas', 'withal', 'fromage']
KEYWORD_PREFIXES = ['is', 'in', 'or', 'and', 'not', 'as', 'if', 'else', 'for', 'try', 'pass', 'def',
                    'class', 'return', 'lambda', 'with', 'from']


def variants(rng, base):
    v = rng.random()
    if v < 0.45:
        return base
    if v < 0.6:
        return base.capitalize()
    if v < 0.7:
        return base.upper()
    if v < 0.8:
        return '_' + base
    if v < 0.88:
        return '__' + base
    if v < 0.94:
        return base + '_' + rng.choice(IDENT_BASES)
    return '__' + base + '__'


def gen_program(rng):
    """returns (source, probes) ; probes = list of (line, col, kind, meta)"""
    lines = []
    mod_names = []
    classes = {}
    funcs = {}
    for _ in range(rng.randint(2, 6)):
        kind = rng.random()
        name = variants(rng, rng.choice(IDENT_BASES))
        if kind < 0.4:
            lines.append('%s = %d' % (name, rng.randint(0, 9)))
            mod_names.append(name)
        elif kind < 0.6:
            params = [variants(rng, rng.choice(IDENT_BASES)) for _ in range(rng.randint(0, 3))]
            params = list(dict.fromkeys(params))
            lines.append('def %s(%s):' % (name, ', '.join(params)))
            lines.append('    return 1')
            funcs[name] = params
            mod_names.append(name)
        else:
            bases = [c for c in classes if rng.random() < 0.45][:2]
            if name in classes:
                continue        # keep class names unique so base lists stay meaningful
            lines.append('class %s%s:' % (name, '(%s)' % ', '.join(bases) if bases else ''))
            attrs = []
            for _ in range(rng.randint(0, 3)):
                a = variants(rng, rng.choice(IDENT_BASES))
                lines.append('    %s = %d' % (a, rng.randint(0, 9)))
                attrs.append(a)
            selfattrs = []
            if rng.random() < 0.7:
                lines.append('    def __init__(self):')
                for _ in range(rng.randint(1, 3)):
                    a = variants(rng, rng.choice(IDENT_BASES))
                    lines.append('        self.%s = %d' % (a, rng.randint(0, 9)))
                    selfattrs.append(a)
            for _ in range(rng.randint(0, 2)):
                a = variants(rng, rng.choice(IDENT_BASES))
                lines.append('    def %s(self):' % a)
                lines.append('        return 2')
                attrs.append(a)
            if not attrs and not selfattrs:
                lines.append('    pass')
            classes[name] = (bases, attrs, selfattrs)
            mod_names.append(name)
    insts = {}
    for c in list(classes):
        if rng.random() < 0.8:
            v = variants(rng, rng.choice(IDENT_BASES)) + '_i'
            lines.append('%s = %s()' % (v, c))
            insts[v] = c
            mod_names.append(v)
    probes = []
    ndefs = len(lines)

    def fragment_of(name):
        cut = rng.randint(0, len(name))
        kws = [k for k in KEYWORD_PREFIXES if name.lower().lstrip('_').startswith(k)]
        if kws and rng.random() < 0.5:
            # stop typing exactly where the fragment spells a keyword
            cut = len(name) - len(name.lstrip('_')) + len(rng.choice(kws))
        frag = name[:cut]
        r = rng.random()
        if r < 0.3:
            frag = frag.swapcase()
        return frag

    # global name probes
    for _ in range(rng.randint(1, 3)):
        target = rng.choice(mod_names)
        frag = fragment_of(target)
        if rng.random() < 0.2 and len(target) > 2:
            idx = sorted(rng.sample(range(len(target)), 2))
            frag = ''.join(target[i] for i in idx)
        lines.append(frag)
        probes.append((len(lines), len(frag), 'global', frag))
    # attribute probes
    for recv in list(insts) + list(classes):
        if rng.random() < 0.7:
            c = insts.get(recv, recv)
            allattrs = []
            seen = set()
            todo = [c]
            while todo:
                cc = todo.pop(0)
                if cc in seen:
                    continue
                seen.add(cc)
                b, at, sa = classes[cc]
                allattrs += at + (sa if recv in insts else [])
                todo += list(b)
            frag = fragment_of(rng.choice(allattrs)) if allattrs and rng.random() < 0.6 else ''
            lines.append('%s.%s' % (recv, frag))
            probes.append((len(lines), len(recv) + 1 + len(frag), 'attr', (recv, frag)))
    # call-paren probes
    for f, params in funcs.items():
        if params and rng.random() < 0.7:
            frag = fragment_of(rng.choice(params))
            lines.append('%s(%s' % (f, frag))
            probes.append((len(lines), len(f) + 1 + len(frag), 'call', frag))
    if rng.random() < 0.15:
        frag = rng.choice(['o', 'js', 'sy', 're', ''])
        lines.append('import ' + frag)
        probes.append((len(lines), 7 + len(frag), 'import', frag))
    src = '\n'.join(lines)
    if rng.random() < 0.5:
        src += '\n'
    return src, probes, '\n'.join(lines[:ndefs]) + '\n'


# identifiers that collide under one of CPython's case mappings although they are different
# identifiers character by character: (members of one scope, positions worth stopping at are found
# from the characters whose lower()/casefold()/upper() is not one code point or disagree).
# All members are valid identifiers and NFKC-stable (the compiler normalises identifiers, jedi does
# not: not this property's business), so the program can be executed.
FOLD_FAMILIES = [
    ['straße', 'strasse', 'strassen', 'stadt'],
    ['maß', 'mass', 'masse', 'Maß'],
    ['größe', 'grösse', 'groß', 'gross', 'grosse'],
    ['fuß', 'fuss', 'FUSS', 'fussel'],
    ['İlk', 'i\u0307lke', 'ilk', 'ılk'],
    ['λόγος', 'ΛΌΓΟΣ', 'λόγοσ', 'λόγοσα'],
    ['ǰazz', 'jazz', 'ǰa'],
    ['weiß', 'weiss', 'Weiss', 'weisse'],
]


def special_positions(name):
    return [i for i, ch in enumerate(name)
            if len({ch.lower(), ch.casefold(), ch.upper().lower()}) > 1
            or any(len(f(ch)) != 1 for f in FOLDS)]


def fold_fragments(rng, family):
    """fragments a user may have typed for a member: stop just before / at / after a character
    with a non-trivial case mapping, in the spelling of any member, in any case"""
    out = []
    for _ in range(4):
        m = rng.choice(family)
        pos = special_positions(m)
        if pos and rng.random() < 0.8:
            cut = min(len(m), max(0, rng.choice(pos) + rng.choice([0, 1, 1, 2, 2, 3])))
        else:
            cut = rng.randint(0, len(m))
        if cut == 0 and rng.random() < 0.85:
            cut = rng.randint(1, len(m))
        frag = m[:cut]
        r = rng.random()
        if r < 0.12:
            frag = frag.upper()
        elif r < 0.24:
            frag = frag.lower()
        elif r < 0.3:
            frag = frag.casefold()
        elif r < 0.36:
            frag = frag.swapcase()
        if frag and not (frag.isidentifier() and frag == unicodedata.normalize('NFKC', frag)):
            frag = m[:cut]
        out.append(frag)
    return out


def gen_fold_program(rng):
    """same contract as gen_program; every scope that is completed in (module, instance, class,
    parameters) holds a whole family"""
    fam = list(rng.choice(FOLD_FAMILIES))
    rng.shuffle(fam)
    lines = []
    cls = rng.choice(['Adresse', 'Klass', 'Thing'])
    split = rng.randint(0, len(fam))
    lines.append('class %s:' % cls)
    lines.append('    land = 1')
    lines.append('    def __init__(self, ort):')
    for a in fam[:split] or ['ort']:
        lines.append('        self.%s = ort' % a)
    for a in fam[split:]:
        if rng.random() < 0.5:
            lines.append('    def %s(self):' % a)
            lines.append('        return 2')
        else:
            lines.append('    %s = %d' % (a, rng.randint(0, 9)))
    inst = rng.choice(['adresse', 'obj', 'ding'])
    lines.append('%s = %s(3)' % (inst, cls))
    mods = [m for m in fam if rng.random() < 0.8]
    for m in mods:
        lines.append('%s = %d' % (m, rng.randint(0, 9)))
    params = [m for m in fam if rng.random() < 0.7]
    if params:
        lines.append('def func(%s):' % ', '.join(params))
        lines.append('    return 1')
    ndefs = len(lines)
    probes = []
    for frag in fold_fragments(rng, fam):
        lines.append('%s.%s' % (inst, frag))
        probes.append((len(lines), len(inst) + 1 + len(frag), 'fold-attr', (inst, frag)))
    if rng.random() < 0.5:
        lines.append('%s.' % inst)
        probes.append((len(lines), len(inst) + 1, 'attr', (inst, '')))
    if mods:
        for frag in fold_fragments(rng, mods)[:2]:
            if frag:
                lines.append(frag)
                probes.append((len(lines), len(frag), 'fold-global', frag))
    if params:
        for frag in fold_fragments(rng, params)[:1]:
            lines.append('func(%s' % frag)
            probes.append((len(lines), 5 + len(frag), 'fold-call', frag))
    src = '\n'.join(lines)
    return src, probes, '\n'.join(lines[:ndefs]) + '\n'


class Capture:
    """records the arguments of completion.filter_names during Script.complete"""
    def __init__(self):
        self.calls = []

    def __enter__(self):
        from jedi.api import completion
        self.mod = completion
        self.orig = completion.filter_names
        cap = self

        def wrapper(inference_state, completion_names, stack, like_name, fuzzy,
                    imported_names, cached_name):
            names = list(completion_names)
            cap.calls.append((names, like_name, fuzzy, list(imported_names)))
            return cap.orig(inference_state, names, stack, like_name, fuzzy, imported_names,
                            cached_name)
        completion.filter_names = wrapper
        return self

    def __exit__(self, *a):
        self.mod.filter_names = self.orig


def doc_key(name, like):
    """documented order, recomputed independently of the source's lambda:
    matching case first, then public, _private, __dunder__, alphabetical"""
    rank = 2 if name.startswith('__') else 1 if name.startswith('_') else 0
    return (0 if name.startswith(like) else 1, rank, name.lower())


def is_subseq(frag, s):
    it = iter(s)
    return all(ch in it for ch in frag)


FOLDS = (str.lower, str.upper, str.casefold)


def caseless_eq(a, b):
    """`a` and `b` are the same text up to case: equal under one of the case mappings Python has,
    as whole strings or character by character (the property does not say which one)"""
    if a == b or any(f(a) == f(b) for f in FOLDS):
        return True
    return len(a) == len(b) and all(x == y or any(f(x) == f(y) for f in FOLDS) for x, y in zip(a, b))


def caseless_subseq(frag, name):
    if any(is_subseq(f(frag), f(name)) for f in FOLDS):
        return True
    it = iter(name)
    return all(any(caseless_eq(ch, x) for x in it) for ch in frag)


def changes_length(s):
    """a character of `s` lower-cases to more than one code point (U+0130 is the only one)"""
    return any(len(ch.lower()) != 1 for ch in s)


def oracle_check(ctx, src, line, col, fuzzy, frag, comps, how):
    """the property itself on the API-visible result. comps: list of Completion"""
    case = {'source': src, 'line': line, 'column': col, 'fuzzy': fuzzy}
    seen = set()
    prev = None
    base_case = case
    for c in comps:
        name, complete, nws, plen = comp_tuple(c)
        obs = {'name': name, 'complete': complete, 'name_with_symbols': nws, 'prefix_length': plen,
               'fragment': frag}
        case = base_case
        if c.type == 'param' and frag.startswith('_') and \
                (is_subseq(frag.lower(), ('__' + name).lower()) if fuzzy
                 else ('__' + name).lower().startswith(frag.lower())):
            # root cause: a parameter spelled `__x` is shown under its public name `x` (typeshed's
            # positional-only convention, BaseTreeParamName.get_public_name) although the typed
            # fragment is a prefix of the real spelling
            case = dict(base_case, shape='dunder-parameter-shown-under-public-name')
        elif changes_length(frag) or changes_length(name):
            # root cause: filter_names matches on str.lower() of both sides, Completion._complete cuts
            # name[len(fragment):]; `İ`.lower() has two code points, so a match of the lowered strings
            # does not mean the first len(fragment) characters of the name are the fragment
            case = dict(base_case, shape='lowercase-of-U+0130-has-two-code-points')
        if fuzzy:
            if not caseless_subseq(frag, name):
                ctx.fail('oracle', 'fuzzy completion is not a supersequence of the fragment', case,
                         observed=obs, how=how)
            if complete is not None:
                ctx.fail('oracle', 'fuzzy completion has complete != None', case, observed=obs, how=how)
        else:
            if not caseless_eq(name[:len(frag)], frag):
                ctx.fail('oracle', 'completion name does not start with the fragment', case,
                         observed=obs, how=how)
            if complete is None or not caseless_eq(nws[:len(frag)], frag) or nws[len(frag):] != complete:
                ctx.fail('oracle', 'complete is not the missing suffix of name_with_symbols', case,
                         observed=obs, how=how)
        if plen != len(frag):
            ctx.fail('oracle', 'prefix length differs from fragment length', case, observed=obs, how=how)
        if (name, complete) in seen:
            ctx.fail('oracle', 'duplicate (name, complete) pair', case, observed=obs, how=how)
        seen.add((name, complete))
        k = doc_key(name, frag)
        if prev is not None and prev[0] > k:
            ctx.fail('oracle', 'completions not in documented order', case,
                     observed={'before': prev[1], 'after': name, 'fragment': frag}, how=how)
        prev = (k, name)


def runtime_attrs(src_body, expr):
    """attributes of the run-time object `expr` that are defined in the source"""
    g = {'__name__': '__main__'}
    exec(compile(src_body, '<c04>', 'exec'), g)
    obj = eval(expr, g)
    names = set()
    if isinstance(obj, type):
        for k in obj.__mro__:
            if k is not object:
                names |= {n for n in vars(k) if not (n.startswith('__') and n.endswith('__'))}
    else:
        names |= set(vars(obj))
        for k in type(obj).__mro__:
            if k is not object:
                names |= {n for n in vars(k) if not (n.startswith('__') and n.endswith('__'))}
    return names, obj


def demangle(cls_chain_names, n):
    return n


def gen_hierarchy(rng):
    """class hierarchies for the attribute-completeness clause: 3-7 classes, 0-2 bases each
    (nested multiple inheritance, mixins, diamonds), class attributes, methods, `self.x = ...`
    in __init__; every class is instantiated and completed after `obj.`"""
    names = ['Ka', 'Kb', 'Kc', 'Kd', 'Ke', 'Kf', 'Kg']
    n = rng.randint(3, 7)
    lines = []
    nb = {}
    anc = {}
    for i in range(n):
        k = rng.choice([0, 1, 2, 2, 2, 3]) if i else 0
        # prefer bases that have several bases themselves (nested multiple inheritance)
        pool = names[:i]
        weights = [1 + 2 * nb.get(b, 0) for b in pool]
        bases = []
        while pool and len(bases) < min(k, i):
            b = rng.choices(pool, weights)[0]
            j = pool.index(b)
            pool = pool[:j] + pool[j + 1:]
            weights = weights[:j] + weights[j + 1:]
            bases.append(b)
        # a valid C3 linearisation needs descendants before their ancestors in the base list
        bases.sort(key=lambda b: -len(anc[b]))
        bases = [b for j, b in enumerate(bases) if not any(b in anc[o] for o in bases[:j])] or bases[:1] if bases else []
        anc[names[i]] = set(bases).union(*[anc[b] for b in bases]) if bases else set()
        nb[names[i]] = len(bases)
        lines.append('class %s%s:' % (names[i], '(%s)' % ', '.join(bases) if bases else ''))
        body = 0
        for _ in range(rng.randint(0, 2)):
            lines.append('    %s_%s = %d' % (rng.choice(['c', 'attr', '_p']), names[i].lower(), rng.randint(0, 9)))
            body += 1
        if rng.random() < 0.5:
            lines.append('    def __init__(self):')
            for _ in range(rng.randint(1, 2)):
                lines.append('        self.%s_%s = %d' % (rng.choice(['s', 'inst']), names[i].lower(), rng.randint(0, 9)))
            body += 1
        for _ in range(rng.randint(0, 2)):
            lines.append('    def %s_%s(self):' % (rng.choice(['m', 'meth']), names[i].lower()))
            lines.append('        return 1')
            body += 1
        if not body:
            lines.append('    pass')
    defs = '\n'.join(lines) + '\n'
    probes = []
    for i in range(n):
        probes.append(('o%d = %s()\no%d.' % (i, names[i], i), 'o%d' % i))
    return defs, probes


def analyse_hierarchy(seed):
    import random
    import jedi
    rng = random.Random(seed)
    out = []
    for _ in range(4):
        defs, probes = gen_hierarchy(rng)
        try:
            compile(defs, '<h>', 'exec')
            exec(compile(defs, '<h>', 'exec'), {'__name__': '__h__'})
        except Exception:
            continue            # inconsistent MRO etc.: not an executable program
        for tail, var in probes:
            src = defs + tail
            try:
                expected, _obj = runtime_attrs(defs + tail.split('\n')[0] + '\n', var)
            except Exception:
                continue
            line = src.count('\n') + 1
            col = len(src.split('\n')[-1])
            rec = {'source': src, 'line': line, 'column': col, 'expected': sorted(expected)}
            try:
                comps = jedi.Script(src).complete(line, col)
                rec['offered'] = sorted({c.name for c in comps})
            except Exception as e:
                rec['raised'] = '%s@%s' % common.exc_site(e)
            out.append(rec)
    return out


def stream_hierarchy(ctx):
    seeds = ['%s-hier-%d' % (ctx.seed, i) for i in range(ctx.size(30, 600))]
    how = 'jedi.Script(source).complete(line, column) vs dir() of the executed object'
    for recs in common.parallel_map('props.c04', 'analyse_hierarchy', seeds):
        for rec in recs:
            if 'raised' in rec:
                ctx.count('raised', (rec['source'],), nontrivial=False, bucket=rec['raised'])
                continue
            exp = rec['expected']
            ctx.count('attrs', (rec['source'],), nontrivial=bool(exp), bucket='hierarchy attrs=%d' % min(len(exp), 8),
                      sample={'source': rec['source'], 'expected': exp})
            missing = [n for n in exp if n not in rec['offered']]
            if missing:
                ctx.fail('attrs', 'run-time attribute defined in source is not offered',
                         {'source': rec['source'], 'line': rec['line'], 'column': rec['column']},
                         expected=exp, observed={'missing': missing}, how=how)


def analyse_pycore(seed):
    """PyCore programs (see C02): for every probe whose run-time value is an instance, complete after
    `_pN.`; returns what jedi offers, what the live object has (source-defined), and the program for
    the model (Model.PyCore.complNames, theorem attrs_complete_partial)"""
    import random
    import jedi
    from gen import pycore as P
    from props import c02
    rng = random.Random(seed)
    out = []
    for _ in range(3):
        gen = P.Gen(rng, rng.choice([8, 12]), 2)
        prog = gen.program()
        # probe every variable that holds an instance
        for x, guess in list(gen.vars.items()):
            if isinstance(guess, tuple) and guess[0] == 'inst':
                prog.append(['probe', ['name', x]])
        text, probes, _dl = P.source(prog)
        g = {'__name__': '__pycore__'}
        body = text.replace('import _verif_unknown_module\n_OPQ_T = _verif_unknown_module.t\n_OPQ_F = _verif_unknown_module.f\n',
                            '_OPQ_T = True\n_OPQ_F = False\n\n', 1)
        try:
            exec(compile(body, '<pc>', 'exec'), g)
        except Exception:
            continue
        enc, nm = c02.encode(prog)
        rec = {'prog': enc, 'names': {v: k for k, v in nm.ids.items()}, 'src': text, 'probes': []}
        for (n, line, col) in probes:
            obj = g.get('_p%d' % n)
            if obj is None or isinstance(obj, (int, str, tuple, type)) or callable(obj):
                continue
            if type(obj).__module__ != '__pycore__':
                continue
            expected = set(vars(obj))
            for k in type(obj).__mro__:
                if k is not object:
                    expected |= {x for x in vars(k) if not (x.startswith('__') and x.endswith('__'))}
            src = text + '_p%d.' % n
            ln = src.count('\n') + 1
            cl = len(src.split('\n')[-1])
            pr = {'n': n, 'expected': sorted(expected), 'source': src, 'line': ln, 'column': cl}
            try:
                comps = jedi.Script(src).complete(ln, cl)
                pr['offered'] = sorted({c.name for c in comps if not (c.name.startswith('__') and c.name.endswith('__'))})
            except Exception as e:
                pr['raised'] = '%s@%s' % common.exc_site(e)
            rec['probes'].append(pr)
        if rec['probes']:
            out.append(rec)
    return out


def stream_pycore(ctx):
    seeds = ['%s-pycore-%d' % (ctx.seed, i) for i in range(ctx.size(20, 500))]
    recs = [r for rs in common.parallel_map('props.c04', 'analyse_pycore', seeds) for r in rs]
    answers = common.run_driver_parallel('C02', [{'op': 'run', 'prog': r['prog'], 'fuel': 60} for r in recs]) \
        if ctx.model_ok else [None] * len(recs)
    how = 'jedi.Script(source).complete(line, column) vs the attributes of the executed object'
    for rec, ans in zip(recs, answers):
        names = {int(k): v for k, v in rec['names'].items()}
        for pr in rec['probes']:
            if 'raised' in pr:
                ctx.count('raised', (pr['source'],), nontrivial=False, bucket=pr['raised'])
                continue
            case = {'source': pr['source'], 'line': pr['line'], 'column': pr['column']}
            ctx.count('attrs', (pr['source'],), nontrivial=bool(pr['expected']),
                      bucket='pycore attrs=%d' % min(len(pr['expected']), 6))
            missing = [x for x in pr['expected'] if x not in pr['offered']]
            if missing:
                ctx.fail('attrs', 'run-time attribute defined in source is not offered', case,
                         expected=pr['expected'], observed={'missing': missing}, how=how)
            if ans is None:
                continue
            m = ans['probes'][pr['n']]
            if m['compl'] is None:
                continue
            model = sorted({names[i][1:] if names[i].startswith('.') else names[i] for i in m['compl']})
            ctx.count('complnames', (pr['source'],), nontrivial=bool(model))
            if model != pr['offered']:
                ctx.tie_broken('correspondence:complnames',
                               short({'source': pr['source'], 'jedi': pr['offered'], 'model': model}, 1200))


def stream_e2e(ctx, reqs):
    import jedi
    from jedi import settings
    rng = ctx.subrng('e2e')
    cases = []
    nprog = ctx.size(40, 600)
    nfold = ctx.size(14, 200)
    frng = ctx.subrng('e2e-fold')
    for pi in range(nprog + nfold):
        src, probes, defs_src = gen_program(rng) if pi < nprog else gen_fold_program(frng)
        bracket = rng.random() < 0.2
        for (line, col, kind, meta) in probes:
            for fuzzy in ((False, True) if rng.random() < 0.5 else (False,)):
                old = settings.add_bracket_after_function
                settings.add_bracket_after_function = bracket
                try:
                    with Capture() as cap:
                        try:
                            comps = jedi.Script(src).complete(line, col, fuzzy=fuzzy)
                            err = None
                        except Exception as e:
                            comps, err = [], e
                    if err is not None:
                        # totality is C01's statement, not C04's: counted, not judged here
                        cls, site = common.exc_site(err)
                        ctx.count('raised', (src, line, col), nontrivial=False, bucket='%s@%s' % (cls, site))
                        continue
                    impl = [comp_tuple(c) for c in comps]
                    frag = meta if isinstance(meta, str) else meta[1]
                    how = 'jedi.Script(source).complete(line, column, fuzzy=fuzzy)'
                    oracle_check(ctx, src, line, col, fuzzy, frag, comps, how)
                    ctx.count('oracle', (src, line, col, fuzzy), nontrivial=len(comps) > 0,
                              bucket=kind + ('/fuzzy' if fuzzy else ''),
                              sample={'source': src, 'line': line, 'column': col, 'fuzzy': fuzzy,
                                      'n_completions': len(comps)})
                    # attribute completeness (non-fuzzy, empty fragment, executable program)
                    if kind == 'attr' and not fuzzy and meta[1] == '':
                        try:
                            expected, obj = runtime_attrs(defs_src, meta[0])
                        except Exception:
                            expected = None
                        if expected is not None:
                            offered = {c.name for c in comps}
                            # name-mangled attributes (__x inside class bodies) are stored as
                            # _Cls__x at run time; the source spelling is what jedi offers.
                            missing = sorted(n for n in expected
                                             if n not in offered and not re.match(r'_\w+?__\w+', n))
                            ctx.count('attrs', (src, line), nontrivial=bool(expected),
                                      bucket='attrs=%d' % min(len(expected), 6))
                            if missing:
                                ctx.fail('attrs', 'run-time attribute defined in source is not offered',
                                         {'source': src, 'line': line, 'column': col},
                                         expected=sorted(expected), observed={'missing': missing}, how=how)
                    if len(cap.calls) != 1:
                        # string / dict branches do not go through filter_names: outside the model
                        continue
                    names, like, fz, imported = cap.calls[0]
                    from jedi.api import classes
                    cands = []
                    strings = [like]
                    for nm in names:
                        s = nm.string_name
                        pub = nm.get_public_name()
                        is_func = False
                        if bracket:
                            is_func = classes.Completion(None, nm, None, 0, False).type == 'function'
                        tn = nm.tree_name
                        is_del = False
                        if tn is not None:
                            d = tn.get_definition()
                            is_del = d is not None and d.type == 'del_stmt'
                        cands.append({'str': s, 'pub': pub, 'func': is_func, 'del': is_del})
                        strings += [s, pub]
                    req = {'op': 'complete', 'cands': cands, 'like': like, 'fuzzy': fz,
                           'imported': imported, 'ci': settings.case_insensitive_completion,
                           'bracket': bracket, 'lower': lower_table(strings)}
                    reqs.append(req)
                    cases.append((('e2e', {'source': src, 'line': line, 'column': col,
                                           'fuzzy': fuzzy, 'bracket': bracket}, req), impl))
                finally:
                    settings.add_bracket_after_function = old
    return cases


# ----------------------------------------------------------------- known-finding probes

def stream_known(ctx):
    """inputs from DESIGN section 6 kept alive so fixed defects are re-reported if they return"""
    import jedi
    probes = [
        ('İxyz = 1\nİx', 2, 2, 'İx'),
        ('İİab = 1\nİİ', 2, 2, 'İİ'),
    ]
    # a parameter spelled `__x` completes under the name `x` (known finding; kept alive here)
    probes.append(('def fn(__baz, xs):\n    __ba', 2, 8, '__ba'))
    for src, line, col, frag in probes:
        comps = jedi.Script(src).complete(line, col)
        oracle_check(ctx, src, line, col, False, frag, comps,
                     'jedi.Script(source).complete(line, column)')
        ctx.count('oracle', (src, line, col), bucket='unicode-lower', nontrivial=True)
    # dict-key completions that are prepended (F2)
    src = "import os\nd = {'ab': 1} if os else {'ab': 2}\nd['"
    comps = jedi.Script(src).complete(3, 3)
    seen = set()
    for c in comps:
        k = (c.name, c.complete)
        if k in seen:
            ctx.fail('oracle', 'duplicate (name, complete) pair',
                     {'source': src, 'line': 3, 'column': 3, 'fuzzy': False},
                     observed={'name': c.name, 'complete': c.complete})
        seen.add(k)
    ctx.count('oracle', (src, 3, 3), bucket='dict-key', nontrivial=True)


# ----------------------------------------------------------------- driver

def compare(ctx, cases, answers):
    for (key, impl), ans in zip(cases, answers):
        stream = key[0]
        if stream == 'match':
            model = ans
            ctx.count('match', key, nontrivial=len(key[2]) > 0, bucket='fuzzy' if key[3] else 'start',
                      sample={'s': key[1], 'like': key[2], 'fuzzy': key[3], 'result': impl})
            if model != impl:
                ctx.tie_broken('correspondence:match', short({'case': key, 'impl': impl, 'model': model}))
                # failing-input search: does the real predicate break the property on this input?
                s, like, fuzzy = key[1], key[2], key[3]
                truth = is_subseq(like, s) if fuzzy else s.startswith(like)
                if impl != truth:
                    ctx.fail('match', 'helpers.match disagrees with prefix/subsequence semantics',
                             {'string': s, 'like_name': like, 'fuzzy': fuzzy}, expected=truth,
                             observed=impl, how='jedi.api.helpers.match(string, like_name, fuzzy=fuzzy)')
        elif stream == 'foldmap':
            ctx.count('foldmap', key, nontrivial=len(key[2]) > 0, bucket=key[1] + ('' if impl['unit'] else '/expanding'),
                      sample={'method': key[1], 's': key[2], 'result': impl})
            if ans != impl:
                ctx.tie_broken('correspondence:foldmap', short({'case': key, 'impl': impl, 'model': ans}))
        else:
            req = key[-1]
            if isinstance(ans, dict):
                raise common.InfraError('driver error: %r' % ans)
            model = [model_tuple(m) for m in ans]
            if stream == 'foldsrc':
                ctx.count('foldsrc', req, nontrivial=len(model) > 0,
                          bucket='n=%d%s' % (min(len(model), 4), '/fuzzy' if req['fuzzy'] else ''),
                          sample={'cands': req['cands'], 'like': req['like'], 'fuzzy': req['fuzzy'],
                                  'result': impl})
                visible = impl
            elif stream == 'filter':
                ctx.count('filter', req, nontrivial=len(model) > 0,
                          bucket='n=%d%s' % (min(len(model), 4), '/fuzzy' if req['fuzzy'] else ''),
                          sample={'cands': req['cands'], 'like': req['like'], 'fuzzy': req['fuzzy'],
                                  'result': impl})
                visible = impl
            else:
                ctx.count('e2e', key[1], nontrivial=len(model) > 0,
                          bucket='cands=%s' % ('0' if not req['cands'] else '1-20' if len(req['cands']) <= 20 else '>20'))
                # prefixed (dict-key / keyword) completions come first and are outside the model
                visible = impl[len(impl) - len(model):] if len(model) <= len(impl) else impl
            if model != visible:
                ctx.tie_broken('correspondence:' + stream,
                               short({'case': key[1], 'impl': visible[:6], 'model': model[:6]}, 1200))
                if stream in ('filter', 'foldsrc'):
                    # search: evaluate the property predicates directly on the real output
                    like, fuzzy = req['like'], req['fuzzy']
                    seen = set()
                    for t in impl:
                        if t[0] == 'EXC' or not isinstance(t, list):
                            ctx.fail(stream, 'filter_names raised', req, observed=impl)
                            break
                        name, complete, nws, plen = t
                        bad = None
                        if (name, complete) in seen:
                            bad = 'duplicate (name, complete) pair'
                        seen.add((name, complete))
                        base = name[:-1] if name.endswith('=') else name
                        if req['ci']:
                            ok = caseless_subseq(like, base) if fuzzy else caseless_eq(base[:len(like)], like)
                        else:
                            ok = is_subseq(like, base) if fuzzy else base.startswith(like)
                        if not ok:
                            bad = 'completion does not match the fragment'
                        if not fuzzy and (complete is None or not nws.endswith(complete)):
                            bad = 'complete is not a suffix of name_with_symbols'
                        if fuzzy and complete is not None:
                            bad = 'fuzzy completion has complete != None'
                        if bad:
                            ctx.fail(stream, bad, req, observed=t,
                                     how='completion.filter_names(None, names, None, like, fuzzy, imported, cached_name=None)')
                    keys = [doc_key(t[0], like) for t in impl if isinstance(t, list) and len(t) == 4]
                    if keys != sorted(keys):
                        ctx.fail(stream, 'completions not in documented order', req, observed=impl)


def run(ctx):
    reqs = []
    cases = []
    cases += stream_match(ctx, reqs)
    cases += stream_filter(ctx, reqs)
    cases += stream_foldsrc(ctx, reqs)
    cases += stream_foldmap(ctx, reqs)
    cases += stream_e2e(ctx, reqs)
    stream_known(ctx)
    stream_hierarchy(ctx)
    stream_pycore(ctx)
    if ctx.model_ok:
        answers = common.run_driver_parallel('C04', reqs)
        compare(ctx, cases, answers)
    else:
        ctx.notes.append('model did not build: correspondence skipped, oracle only')
    ctx.obligations['assumptions'] = [
        "CPython str.lower / casefold / upper enter the model as parameters (lookup tables sent with each request); "
        "that str.lower maps every code point except U+0130 to one code point is checked over all code points (stream foldmap), not proved",
        'candidate collection (Completion._complete_python: which names are visible at the cursor) is not '
        'modelled; the model is run on the candidates jedi collected. Attribute completeness is checked by '
        'executing generated programs (stream attrs) - a test, not a theorem.',
    ]


def replay(ctx, payload):
    import jedi
    inp = payload['input']
    if 'source' in inp:
        comps = jedi.Script(inp['source']).complete(inp['line'], inp['column'], fuzzy=inp.get('fuzzy', False))
        for c in comps:
            print(comp_tuple(c))
    else:
        print('input:', inp)
    print('expected:', payload.get('expected'), 'observed at record time:', payload.get('observed'))
    return 0

"""C19 - Project search finds every definition and honours ignore rules.

Streams (model vs real code)
  sync       FolderIO.walk's two-pointer loop vs Model.Walk.sync (consumer leaves sublists, but also
             reordered lists / foreign objects / duplicates)
  gitignore  references.gitignored_paths + expand_relative_ignore_paths vs the model, random contents
  suffix     pathlib's PurePath.suffix vs Model.Walk.suffix (parameter of the walk)
  walk       recurse_find_python_folders_and_files on generated trees materialised under
             /tmp/scratch-c19 (os.walk's own listing order, and sorted / reversed / shuffled
             orders forced through a shim for `os` inside jedi.file_io) vs Model.Walk.walkRoot:
             the ordered list of (is_file, path) events
  split      helpers.split_search_string vs Model.Search.splitSearchString
  prefilter  the filter step of search_in_file_ios / _check_fs (does a file with these bytes reach the parser?)
             vs Model.Prefilter.passes with the pattern, step order and flags the translator transcribed;
             the word characters of python's re are a table in the request
  script     Script.search / complete_search vs Model.Search.searchFilter over Script.get_names
  search     Project.search / complete_search (x all_scopes x type prefix x patched limits) vs
             Model.Search.projectSearch fed with what the generator knows about every file
  clash      the same two calls on trees of gen/c19_clash.py, in which FILE NAMES and IDENTIFIERS
             collide (foo.py defining foo / foo_x / class foo, packages foo/__init__.py defining foo,
             stubs foo.pyi, foo-stubs/), queries = a file name, a prefix of one, a prefix shared by
             file names and identifiers, type-qualified and dotted strings; the .py-only trees also
             go through Model.Search.projectSearch (stream search)
  unicode    the same two calls on trees of gen/c19_clash.gen_unicode_tree: identifiers with letters outside
             ASCII at the start / end / in the middle (étoile, café, naïve, 变量, straße, İstanbul, µ_val,
             cafe+U+0301, की), files written in UTF-8 with / without BOM, latin-1 / cp1252 / koi8-r / gbk /
             euc_jp with a coding declaration, LF / CRLF / CR; ast oracle on source spelling (unicode-oracle)
Direct oracles (the property itself, independent of the model)
  search-complete  every definition the generator wrote with that spelling, in a file that is not
                   in an ignored place, is reported (within the limits); every module / package so named
  clash-oracle     completeness decided without jedi AND without generator book-keeping: python's `ast`
                   lists every definition (module level; nested for all_scopes) of every generated
                   .py / .pyi file; each expected (path, line, column, name, TYPE) must be among the
                   results (the module hit for foo.py sits on line 1 like a definition on line 1: the
                   type tells them apart); failures are reported under search-complete / search-negative
  search-negative  nothing under venv/.venv/.tox/.mypy_cache/__pycache__ or a .gitignore entry
  script-oracle    Script.search == get_names filtered by spelling and type
"""
import hashlib
import os
import re
import shutil
from pathlib import Path

import common
from common import short
from gen import c19_clash as CL

MODELS = ['Walk', 'Search', 'Prefilter']
MANIFEST = dict(
    text='Theorems over the model of FolderIO.walk (two-pointer sync = exactly the pruning the consumer chose), '
         'recurse_find_python_folders_and_files on an ordered directory tree with the listing order as a parameter '
         '(nothing is yielded under a folder named in _IGNORE_FOLDERS - stated over the translator-extracted tuple, '
         'which must contain the five names of the property - or under a folder matched by an already-read '
         '.gitignore folder entry; every .py/.pyi file whose ancestors are not pruned is yielded), gitignored_paths / '
         'expand_relative_ignore_paths, the open/parse limits of search_in_file_ios (exact prefix characterisation), '
         'split_search_string, the final filter of search_in_module and _try_to_skip_duplicates. Since the fix '
         '"gitignore-file-entries-and-prefix" the .gitignore statements hold at full strength and are theorems for all '
         'trees, listing orders and .gitignore contents: absolute and relative entries of the .gitignore of the root or '
         'of any directory on the way exclude the folders and the files they name, wherever .gitignore stands in its '
         'listing; conversely a python file that no .gitignore at or above its directory names (and no ignore folder / '
         'except path covers) is yielded, whatever other .gitignore files the tree holds (separator-aware test = '
         'ancestor-or-self on name chains); every tree position is yielded at most once. Project._search_func: the '
         'translator transcribes the file branch of the step-1 loop statement by statement (where file_ios.append '
         'stands), the model executes the transcription, and over it: search_scans_every_file (every file the walk '
         'yields is handed to step 2, named like the search word or not), search_complete (within the parse limit every '
         'definition with the requested spelling and type in every yielded file is among the results), '
         'search_modules_complete (every module / package so named), with a kernel-checked witness that the append in '
         'the else-branch of the file-name test loses the definitions of a same-named file. Tie: translator (accepts only '
         'the fixed source shape) + correspondence on generated project trees on disk + direct completeness / negative '
         'oracles from generator knowledge; the three former defects stay in the run as fixed probes. Stream clash: '
         'project trees in which file names and identifiers collide (foo.py defining foo / foo_x / class foo, packages, '
         'stubs), judged by an oracle that reads every definition (path, line, column, name, type) off the files with '
         "python's ast. Regex pre-filter of step 2 (Model.Prefilter): regex.search for the pattern family \\b name "
         '(\\b unless complete) over any alphabet and word predicate, and the step order of _check_fs; the translator '
         'transcribes the pattern parts, str / bytes pattern, the flags and the statements of _check_fs; '
         'prefilter_src_shape (str pattern, no re.ASCII, regex.search sees the decoded text) and prefilter_complete '
         '(a file whose decoded text spells the name as a whole word is never filtered out, for every encoding) are '
         'stated over these constants, with kernel-checked witnesses that matching on the raw bytes / with re.ASCII '
         'filters out `def étoile()` / `Café = 1`. Stream unicode: identifiers with letters outside ASCII at the '
         'start / end / middle, CJK, Cyrillic, Greek, case mappings that change length, names not in NFKC normal form, '
         'combining marks and vowel signs, in files written as UTF-8 with and without BOM, with declared 8-bit and '
         'multi-byte codecs, with LF / CRLF / CR newlines; judged by the ast oracle on SOURCE spelling and code point '
         'columns. Stream prefilter: Model.Prefilter.passes against the real filter step (search_in_file_ios with '
         'load_module_from_path replaced by a recorder) on small texts around such identifiers in all those encodings.',
    note='Modelled not verified: os.walk / os.scandir (listing order is a parameter, the shim and the real order are '
         'both exercised), pathlib suffix (checked stream), the regex pre-filter inside projectSearch (parameter `mentions`, '
         "computed by the harness with python's re on the decoded text; Model.Prefilter models the matching itself with "
         '`\\w` as a parameter), python_bytes_to_unicode (the decoded text is an input of the model), '
         'get_module_names (the generator supplies the definitions it wrote), str.lower (parameter), step 3 of '
         'Project._search_func beyond the project directory, dotted search strings (inference; only the negative '
         'clause is judged on them), stub-to-python conversion of module hits (trees with .pyi files are judged by the '
         'direct oracle only).',
    technique='Lean 4 proof over hand-written model + translator-generated constants + differential correspondence',
    design='5.C19')
LEAN_TARGETS = ['JediModel.Props.C19', 'JediModel.Drivers.C19']

SCRATCH = '/tmp/scratch-c19'
# the names the *property* lists (the oracle does not read them from the source)
PROPERTY_IGNORED = ('venv', '.venv', '.tox', '.mypy_cache', '__pycache__')


def _load_own_known(ctx):
    """known_findings.d/C19.json is the authoritative list for this property: entries of the merged
    known_findings.json that are no longer listed there (moved to `fixed`) must not mask a
    violation that comes back."""
    import json
    p = os.path.join(common.VERIF, 'known_findings.d', 'C19.json')
    try:
        with open(p, encoding='utf-8') as f:
            own = json.load(f).get('findings', [])
    except FileNotFoundError:
        return
    ids = {k['id'] for k in own}
    ctx.known[:] = [k for k in ctx.known if k.get('property') != ctx.pid or k['id'] in ids]
    have = {k['id'] for k in ctx.known}
    ctx.known += [k for k in own if k['id'] not in have and k['property'] == ctx.pid]


# ----------------------------------------------------------------- the pre-filter pattern

_pattern_shape = []


def prefilter_regex(word, complete):
    """the pattern of search_in_file_ios on the DECODED text, in the shape the translator transcribed
    (Gen.C19.prefilterPattern): `\\b` name (`\\b` unless complete), or - after the proposed fix
    c19-prefilter-non-word-edge - each `\\b` only next to a `\\w` character of the name.  It feeds the
    parameter `mentions` of the model and decides which files count against the parse limit."""
    if not _pattern_shape:
        guarded = False
        try:
            with open(os.path.join(common.LEAN_DIR, 'JediModel', 'Gen', 'C19.lean'), encoding='utf-8') as f:
                m = re.search(r'def prefilterPattern : List String := (.*)', f.read())
            guarded = bool(m) and 'if name starts with' in m.group(1)
        except OSError:
            pass
        _pattern_shape.append(guarded)
    lead = r'\b' if not _pattern_shape[0] or re.match(r'\w', word) else ''
    trail = '' if complete else (r'\b' if not _pattern_shape[0] or re.search(r'\w$', word) else '')
    return re.compile(lead + re.escape(word) + trail)


# ----------------------------------------------------------------- listing order

def order_names(mode, top, names):
    if mode == 'sorted':
        return sorted(names)
    if mode == 'reversed':
        return sorted(names, reverse=True)
    if mode.startswith('shuffle'):
        return sorted(names, key=lambda n: hashlib.blake2b(
            ('%s|%s|%s' % (mode, top, n)).encode(), digest_size=8).digest())
    raise ValueError(mode)


def list_dir(mode, top):
    """(dirs, files) of `top` in the order the walk will see them"""
    if mode == 'real':
        with os.scandir(top) as it:
            ents = [(e.name, e.is_dir()) for e in it]
    else:
        names = order_names(mode, top, os.listdir(top))
        ents = [(n, os.path.isdir(os.path.join(top, n))) for n in names]
    return [n for n, d in ents if d], [n for n, d in ents if not d]


class OsShim:
    """stands in for the module `os` inside jedi.file_io: walk() with a prescribed listing order"""

    def __init__(self, mode, single=None):
        self.mode = mode
        self.single = single
        self.after = None

    def __getattr__(self, k):
        return getattr(os, k)

    def walk(self, top):
        if self.single is not None:           # one synthetic step (stream sync)
            dirs = list(self.single)
            yield top, dirs, []
            self.after = list(dirs)
            return
        dirs, files = list_dir(self.mode, top)
        yield top, dirs, files
        for d in dirs:
            yield from self.walk(os.path.join(top, d))


class shim_os:
    def __init__(self, shim):
        self.shim = shim

    def __enter__(self):
        import jedi.file_io
        self.old = jedi.file_io.os
        if self.shim is not None:
            jedi.file_io.os = self.shim

    def __exit__(self, *a):
        import jedi.file_io
        jedi.file_io.os = self.old


def ordered_tree(mode, top):
    """the tree as the walk sees it (model input): contents only of .gitignore files"""
    dirs, files = list_dir(mode, top)
    fl = []
    for f in files:
        content = ''
        if f == '.gitignore':
            with open(os.path.join(top, f), 'rb') as fh:
                content = fh.read().decode('utf-8', 'ignore')    # as gitignored_paths decodes its lines
        fl.append({'name': f, 'content': content})
    return {'files': fl, 'dirs': [dict(ordered_tree(mode, os.path.join(top, d)), name=d) for d in dirs]}


# ----------------------------------------------------------------- tree generator

IDENTS = ['zeta_a', 'zeta_b', 'zeta_ab', 'omega_x', 'Omega_X', 'zetaa', 'omega_long_name']
MODNAMES = ['zmod_a', 'zmod_b', 'zpkg_a', 'zpkg_b']
DIRNAMES = ['a', 'ab', 'b', 'pkg', 'sub', 'foo', 'src', 'a.b', 'build', 'venv', '.venv', '.tox',
            '__pycache__', '.mypy_cache', 'venv2', 'my_venv', 'foo.py']
PLAIN_FILES = ['m.py', 'n.py', 'k.py', 'ign_rel.py', 'ign_abs.py', 'x.txt', 'README', 'stub.pyi', '.py',
               'a.py.', 'setup.cfg', 'UP.PY', 'two.dots.py', 'nosuffix', '.hidden.py']


class Def:
    __slots__ = ('name', 'type', 'line', 'col', 'top')

    def __init__(self, name, type_, line, col, top):
        self.name, self.type, self.line, self.col, self.top = name, type_, line, col, top

    def key(self):
        return (self.name, self.type, self.line, self.col)


def gen_code(rng, idents=IDENTS, nblocks=None):
    """python source + the definitions in it (what get_module_names(definitions=True) must list)"""
    lines = []
    defs = []
    n = rng.randint(0, 4) if nblocks is None else nblocks
    for _ in range(n):
        kind = rng.choice(['assign', 'assign', 'func', 'class', 'comment', 'use', 'async', 'for'])
        name = rng.choice(idents)
        ln = len(lines) + 1
        if kind == 'assign':
            lines.append('%s = %d' % (name, rng.randint(0, 9)))
            defs.append(Def(name, 'statement', ln, 0, True))
        elif kind == 'func':
            par = rng.choice(idents + ['p1'])
            inner = rng.choice(idents)
            lines.append('def %s(%s):' % (name, par))
            defs.append(Def(name, 'function', ln, 4, True))
            defs.append(Def(par, 'param', ln, 4 + len(name) + 1, False))
            lines.append('    %s = 1' % inner)
            defs.append(Def(inner, 'statement', ln + 1, 4, False))
            lines.append('    return %s' % inner)
        elif kind == 'async':
            lines.append('async def %s():' % name)
            defs.append(Def(name, 'function', ln, 10, True))
            lines.append('    pass')
        elif kind == 'class':
            attr = rng.choice(idents)
            meth = rng.choice(idents)
            lines.append('class %s:' % name)
            defs.append(Def(name, 'class', ln, 6, True))
            lines.append('    %s = 2' % attr)
            defs.append(Def(attr, 'statement', ln + 1, 4, False))
            lines.append('    def %s(self):' % meth)
            defs.append(Def(meth, 'function', ln + 2, 8, False))
            defs.append(Def('self', 'param', ln + 2, 8 + len(meth) + 1, False))
            lines.append('        pass')
        elif kind == 'for':
            lines.append('for %s in []:' % name)
            defs.append(Def(name, 'statement', ln, 4, True))
            lines.append('    pass')
        elif kind == 'comment':
            lines.append('# %s is only mentioned here' % name)
        else:
            lines.append('print(%s)' % name)
    return '\n'.join(lines) + ('\n' if lines else ''), defs


def gen_tree(rng, for_search, max_files=30):
    """abstract project tree; every python file carries its definitions (key '_defs', not
    materialised).  .gitignore files are added afterwards by add_gitignores."""
    budget = [rng.randint(4, max_files)]

    def mk_files(depth):
        files = []
        k = rng.randint(0, 4)
        pool = ['m.py', 'n.py', 'k.py', 'ign_rel.py', 'ign_abs.py', 'x.txt'] if for_search else PLAIN_FILES
        names = rng.sample(pool, min(k, len(pool)))
        if for_search and rng.random() < 0.35:
            names.append(rng.choice(MODNAMES[:2]) + '.py')
        if rng.random() < 0.4:
            names.append('__init__.py')
        for n in dict.fromkeys(names):
            if budget[0] <= 0:
                break
            budget[0] -= 1
            if n.endswith('.py') or n.endswith('.pyi'):
                code, defs = gen_code(rng)
                files.append({'name': n, 'content': code, '_defs': defs})
            else:
                files.append({'name': n, 'content': 'zeta_a omega_x\n'})
        return files

    def mk_dir(name, depth):
        d = {'name': name, 'files': mk_files(depth), 'dirs': []}
        if name in MODNAMES and not any(f['name'] == '__init__.py' for f in d['files']):
            code, defs = gen_code(rng)
            d['files'].append({'name': '__init__.py', 'content': code, '_defs': defs})
        if depth < 3:
            pool = list(DIRNAMES) + (MODNAMES[2:] if for_search else [])
            if for_search:
                pool = [x for x in pool if x != 'foo.py']
            for n in rng.sample(pool, rng.randint(0, 3 if depth else 4)):
                if budget[0] <= 0:
                    break
                d['dirs'].append(mk_dir(n, depth + 1))
        return d

    t = mk_dir('', 0)
    # sibling-prefix shape (a/ and ab/ with a common child name) and ignored folders with content
    if rng.random() < 0.5:
        names = {d['name'] for d in t['dirs']}
        for n in ('a', 'ab'):
            if n not in names:
                code, defs = gen_code(rng, nblocks=2)
                t['dirs'].append({'name': n, 'files': [], 'dirs': [
                    {'name': 'foo', 'files': [{'name': 'm.py', 'content': code, '_defs': defs}], 'dirs': []}]})
    if for_search:
        # the project root must not look like a package, and no top-level module shadows a package
        t['files'] = [f for f in t['files'] if f['name'] != '__init__.py']
        top_dirs = {d['name'] for d in t['dirs']}
        t['files'] = [f for f in t['files'] if f['name'][:-3] not in top_dirs]
    return t


def all_dirs(t, rel=''):
    """(relpath, node) of every directory, root first ('' = root)"""
    yield rel, t
    for d in t['dirs']:
        yield from all_dirs(d, (rel + '/' if rel else '') + d['name'])


def add_gitignores(rng, t, density=0.45):
    dirs = list(all_dirs(t))
    for rel, node in dirs:
        if rng.random() > density and rel != '':
            continue
        if rel == '' and rng.random() < 0.25:
            continue
        # entries naming things that exist below this folder (and some that do not)
        below_dirs = [(r, n) for r, n in dirs if r != rel and (rel == '' or r.startswith(rel + '/'))]
        below_files = []
        for r, n in [(rel, node)] + below_dirs:
            for f in n['files']:
                below_files.append(((r + '/' if r else '') + f['name']))
        lines = []
        for _ in range(rng.randint(1, 4)):
            c = rng.random()
            if c < 0.35 and below_dirs:
                r, n = rng.choice(below_dirs)
                sub = r[len(rel) + 1:] if rel else r
                form = rng.choice(['name', 'name/', '/path', '/path/', 'path/' if '/' in sub else '/path'])
                lines.append({'name': n['name'], 'name/': n['name'] + '/', '/path': '/' + sub,
                              '/path/': '/' + sub + '/', 'path/': sub + '/'}[form])
            elif c < 0.6 and below_files:
                p = rng.choice(below_files)
                sub = p[len(rel) + 1:] if rel else p
                base = sub.rsplit('/', 1)[-1]
                if base in ('.gitignore',):
                    continue
                lines.append(rng.choice([base, '/' + sub, sub if '/' in sub else '/' + sub]))
            elif c < 0.75:
                lines.append(rng.choice(['# a comment', '!keepme_never_exists', '*.pyc', '*.log', '', 'no_such_name',
                                         '/no/such/path', 'foo', 'build/', '/build']))
            else:
                lines.append(rng.choice(['foo', 'build', 'sub', 'm.py', 'ign_rel.py', '/ign_abs.py', 'src/', 'b']))
        sep = rng.choice(['\n', '\n', '\n', '\r\n', '\r'])
        content = sep.join(lines) + (sep if rng.random() < 0.8 else '')
        node['files'] = [f for f in node['files'] if f['name'] != '.gitignore']
        node['files'].insert(rng.randint(0, len(node['files'])), {'name': '.gitignore', 'content': content})


_run_counter = [0]


def materialise(t):
    _run_counter[0] += 1
    root = os.path.join(SCRATCH, 'run-%d-%d' % (os.getpid(), _run_counter[0]), 'proj')
    shutil.rmtree(os.path.dirname(root), ignore_errors=True)

    def rec(node, path):
        os.makedirs(path, exist_ok=True)
        for f in node['files']:
            with open(os.path.join(path, f['name']), 'wb') as fh:
                # 'enc': the codec the text of a source file is written with (gen/c19_clash.encode_file)
                fh.write(f['content'].encode(f.get('enc') or 'latin-1'))
        for d in node['dirs']:
            rec(d, os.path.join(path, d['name']))
    rec(t, root)
    return root


def cleanup(root):
    shutil.rmtree(os.path.dirname(root), ignore_errors=True)


def strip_tree(t):
    """JSON-able copy without the Def objects"""
    return {'name': t.get('name', ''),
            'files': [dict({'name': f['name'], 'content': f['content']},
                           **({'enc': f['enc']} if f.get('enc') else {})) for f in t['files']],
            'dirs': [strip_tree(d) for d in t['dirs']]}


def tree_from_json(j):
    return {'name': j.get('name', ''), 'files': [dict(f) for f in j['files']],
            'dirs': [tree_from_json(d) for d in j['dirs']]}


# ----------------------------------------------------------------- the property's notion of "ignored place"

def gitignore_entries(content):
    """plain entries of a .gitignore (no glob, no negation, no comment): (text, dir_only)"""
    out = []
    for l in re.split(r'\r\n|\n|\r', content):
        if not l or l.startswith('#') or l.startswith('!') or '*' in l:
            continue
        out.append(l)
    return out


def ignored_reason(t, relpath):
    """why the property says `relpath` (file, relative to the project root, '/'-separated) lies in an
    ignored place: None or (cause, where).  git semantics for plain entries: an entry without an inner
    or leading slash names a file or directory at any depth below the .gitignore; otherwise it is a
    path relative to the folder of the .gitignore; a trailing slash restricts it to directories."""
    parts = relpath.split('/')
    for i, comp in enumerate(parts[:-1]):
        if comp in PROPERTY_IGNORED:
            return ('ignore-folder', '/'.join(parts[:i + 1]))
    node = t
    here = []
    for depth in range(len(parts)):
        # .gitignore in folder `here`
        for f in node['files']:
            if f['name'] != '.gitignore':
                continue
            for e in gitignore_entries(f['content']):
                dir_only = e.endswith('/')
                body = e.rstrip('/')
                if not body:
                    continue
                rest = parts[depth:]
                if '/' not in body:
                    for j, comp in enumerate(rest):
                        is_file = j == len(rest) - 1
                        if comp == body and not (is_file and dir_only):
                            return ('relative-file' if is_file else 'relative-folder',
                                    '/'.join(here + ['.gitignore']) + ': ' + e)
                else:
                    target = body.lstrip('/').split('/')
                    if rest[:len(target)] == target:
                        is_file = len(target) == len(rest)
                        if not (is_file and dir_only):
                            return ('absolute-file' if is_file else 'absolute-folder',
                                    '/'.join(here + ['.gitignore']) + ': ' + e)
        if depth < len(parts) - 1:
            nxt = [d for d in node['dirs'] if d['name'] == parts[depth]]
            if not nxt:
                return None
            node = nxt[0]
            here.append(parts[depth])
    return None


def sibling_prefix_cause(t, relpath):
    """is some ancestor directory P/n of the file (or the file itself) named by a slash-less entry `n` of a .gitignore
    whose folder G is a proper string prefix of P without being P or an ancestor of P?"""
    parts = relpath.split('/')
    gi = []
    for rel, node in all_dirs(t):
        for f in node['files']:
            if f['name'] == '.gitignore':
                for e in gitignore_entries(f['content']):
                    b = e.rstrip('/')
                    if b and '/' not in b:
                        gi.append((rel, b))
    for i in range(len(parts)):           # the ancestors and (file-level entries) the file itself
        parent = '/'.join(parts[:i])
        name = parts[i]
        for g, b in gi:
            if b == name and g and parent.startswith(g) and not (parent == g or parent.startswith(g + '/')):
                return True
    return False


def py_files(t, rel=''):
    for f in t['files']:
        if f['name'].endswith('.py') and len(f['name']) > 3 and '_defs' in f:
            yield (rel + '/' if rel else '') + f['name'], f
    for d in t['dirs']:
        yield from py_files(d, (rel + '/' if rel else '') + d['name'])


# ----------------------------------------------------------------- stream: sync

def stream_sync(ctx, reqs):
    from jedi.file_io import FolderIO
    rng = ctx.subrng('sync')
    cases = []
    for i in range(ctx.size(400, 5000)):
        n = rng.randint(0, 6)
        dirs = ['d%d' % k for k in range(n)]
        kind = rng.choice(['sub', 'sub', 'sub', 'any'])
        if kind == 'sub':
            mod = [k for k in range(n) if rng.random() < 0.6]
        else:
            mod = [rng.randint(0, n + 1) for _ in range(rng.randint(0, n + 1))]
        shim = OsShim('sorted', single=dirs)
        raised = None
        with shim_os(shim):
            gen = FolderIO('/nonexistent-root').walk()
            root_io, folder_ios, file_ios = next(gen)
            orig = list(folder_ios)
            folder_ios[:] = [orig[k] if k < n else FolderIO('/foreign-%d' % k) for k in mod]
            try:
                rest = list(gen)
            except Exception as e:   # noqa: FolderIO.walk raised on a legitimate in-place pruning
                raised = '%s at %s' % common.exc_site(e)
        impl = shim.after if raised is None else {'raised': raised}
        if raised is not None and kind == 'sub':
            # the caller only REMOVED folders from the list it was handed (what recurse_find_python_folders_and_files
            # does for ignored folders): the walk must go on with the kept ones
            ctx.fail('sync', 'FolderIO.walk raises after the caller pruned the folder list in place: the project walk '
                     '(and every search over it) dies there', {'dirs': dirs, 'modified': mod, 'kind': kind},
                     expected='the walk descends into exactly the kept folders', observed={'raised': raised},
                     how="gen = FolderIO(root).walk(); _, folder_ios, _ = next(gen); folder_ios[:] = kept; list(gen)  "
                         "(os.walk replaced by a shim listing the given directories)")
        reqs.append({'op': 'sync', 'dirs': dirs, 'modified': mod})
        cases.append((('sync', {'dirs': dirs, 'modified': mod, 'kind': kind}), impl))
    return cases


# ----------------------------------------------------------------- stream: gitignore / expand / suffix

class FakeFileIO:
    def __init__(self, data):
        self._d = data

    def read(self):
        return self._d


GI_ATOMS = ['foo', 'bar', 'a', 'ab', '/', '//', '#', '!', '*', '', ' ', 'x.py', '/foo', 'foo/', '/foo/', 'a/b',
            'a//b', '/a/b/', '..', '../x', '#c', '!n', '*.py', 'f*o', '\t', 'foo bar', '.', './foo']


def stream_gitignore(ctx, reqs):
    from jedi.inference import references
    from jedi.file_io import FolderIO
    rng = ctx.subrng('gitignore')
    cases = []
    for i in range(ctx.size(500, 8000)):
        lines = []
        for _ in range(rng.randint(0, 6)):
            if rng.random() < 0.7:
                lines.append(rng.choice(GI_ATOMS))
            else:
                lines.append(''.join(rng.choice('ab/#!* .') for _ in range(rng.randint(0, 5))))
        content = ''.join(l + rng.choice(['\n', '\n', '\r\n', '\r', '\n\n']) for l in lines)
        if rng.random() < 0.3:
            content = content.rstrip('\r\n')
        folder = rng.choice(['/r', '/r/a', '/r/ab', '/', '/r/', 'rel', ''])
        a, r = references.gitignored_paths(FolderIO(folder), FakeFileIO(content.encode('ascii')))
        impl = {'abs': sorted(a), 'rel': sorted([list(x) for x in r])}
        reqs.append({'op': 'gitignore', 'folder': folder, 'content': content})
        cases.append((('gitignore', {'folder': folder, 'content': content}), impl))
    for i in range(ctx.size(300, 4000)):
        rel = [[rng.choice(['/r', '/r/a', '/r/ab', '/r/a/b', '/', '', '/r/a/']), rng.choice(['foo', 'bar', '', 'a'])]
               for _ in range(rng.randint(0, 4))]
        curr = rng.choice(['/r', '/r/a', '/r/ab', '/r/a/b', '/r/b', '/', '/r/abc/d'])
        impl = sorted(references.expand_relative_ignore_paths(FolderIO(curr), {tuple(x) for x in rel}))
        reqs.append({'op': 'expand', 'curr': curr, 'rel': rel})
        cases.append((('expand', {'curr': curr, 'rel': rel}), impl))
    names = set(PLAIN_FILES) | {'', 'a', '.a', 'a.', 'a.b', '..', '...', 'a..b', '.a.b', 'a.b.c', '.py', 'x.pyi', '. ', 'a .py'}
    for _ in range(ctx.size(100, 1000)):
        names.add(''.join(rng.choice('ab.') for _ in range(rng.randint(1, 5))))
    for nm in sorted(names):
        if nm in ('', '.', '..'):
            continue
        impl = Path('/r/' + nm).suffix
        reqs.append({'op': 'suffix', 'name': nm})
        cases.append((('suffix', {'name': nm}), impl))
    return cases


# ----------------------------------------------------------------- stream: walk

def run_walk_impl(root, mode, except_paths):
    from jedi.inference.references import recurse_find_python_folders_and_files
    from jedi.file_io import FolderIO
    with shim_os(None if mode == 'real' else OsShim(mode)):
        out = []
        try:
            for folder_io, file_io in recurse_find_python_folders_and_files(FolderIO(root), except_paths):
                if file_io is None:
                    out.append([False, folder_io.path])
                else:
                    out.append([True, str(file_io.path)])
        except Exception as e:   # noqa: the walk itself raised - an outcome to judge, not a harness failure
            cls, site = common.exc_site(e)
            out.append(['RAISED', '%s at %s' % (cls, site)])
    return out


def walk_request(root, mode, except_paths):
    return {'op': 'walk', 'root': root, 'tree': ordered_tree(mode, root),
            'except_path': [str(p) for p in except_paths if isinstance(p, Path)],
            'except_str': [p for p in except_paths if isinstance(p, str)]}


def walk_oracle(ctx, t, root, mode, except_paths, impl, case):
    """negative / completeness at the walk level (direct, from the generator's tree)"""
    raised = [p for is_file, p in impl if is_file == 'RAISED']
    if raised:
        # a search over a project whose walk raises reports nothing of the files behind that point
        ctx.fail('walk-complete', 'the directory walk raises: no file behind that point is searched',
                 dict(case, cause='walk-raises'), expected='every python file outside ignored places is yielded',
                 observed={'raised': raised[0], 'yielded_before': len(impl) - 1},
                 how='recurse_find_python_folders_and_files(FolderIO(root)) on the materialised tree')
        return
    yielded = {p for is_file, p in impl if is_file is True}
    for rel, node in all_dirs(t):
        for f in node['files']:
            nm = f['name']
            relpath = (rel + '/' if rel else '') + nm
            full = os.path.join(root, relpath)
            is_py = Path(full).suffix in ('.py', '.pyi')
            if not is_py:
                continue
            why = ignored_reason(t, relpath)
            excepted = any((str(p) == full or full.startswith(str(p) + '/')) for p in except_paths)
            if full in yielded and why is not None:
                ctx.fail('walk-negative', 'file from an ignored place is yielded by the walk',
                         dict(case, cause=why[0], file=relpath, rule=why[1]), expected='not yielded',
                         observed={'yielded': relpath},
                         how='recurse_find_python_folders_and_files(FolderIO(root)) on the materialised tree')
            if full not in yielded and why is None and not excepted:
                cause = 'sibling-prefix' if sibling_prefix_cause(t, relpath) else 'unknown'
                ctx.fail('walk-complete', 'python file outside every ignored place is not yielded',
                         dict(case, cause=cause, file=relpath), expected='yielded',
                         observed={'missing': relpath},
                         how='recurse_find_python_folders_and_files(FolderIO(root)) on the materialised tree')


def stream_walk(ctx, reqs):
    rng = ctx.subrng('walk')
    cases = []
    roots = []
    for i in range(ctx.size(60, 1500)):
        t = gen_tree(rng, for_search=False)
        add_gitignores(rng, t)
        root = materialise(t)
        roots.append(root)
        modes = ['real', rng.choice(['sorted', 'reversed']), 'shuffle%d' % rng.randint(0, 9)]
        # except_paths variants: Path / str, file / folder
        files = [os.path.join(root, p) for p, _ in py_files(t)]
        dirs = [os.path.join(root, r) for r, _ in all_dirs(t) if r]
        variants = [()]
        ex = []
        for _ in range(rng.randint(0, 3)):
            pool = files + dirs
            if pool:
                p = rng.choice(pool)
                ex.append(Path(p) if rng.random() < 0.5 else p)
        if ex:
            variants.append(tuple(ex))
        for mode in modes:
            for ep in variants:
                impl = run_walk_impl(root, mode, ep)
                req = walk_request(root, mode, ep)
                reqs.append(req)
                case = {'tree': strip_tree(t), 'mode': mode,
                        'except_paths': [('Path:' if isinstance(p, Path) else 'str:') + os.path.relpath(str(p), root)
                                         for p in ep]}
                cases.append((('walk', case, root), impl))
                if not ep:
                    walk_oracle(ctx, t, root, mode, ep, impl, case)
    return cases, roots


# ----------------------------------------------------------------- stream: prefilter

class _BytesIO:
    def __init__(self, path, data):
        self.path, self._d = path, data

    def read(self):
        return self._d


def prefilter_impl(name, complete, data):
    """does the real search_in_file_ios / _check_fs hand a file with these bytes to the parser?
    load_module_from_path is replaced by a recorder (the module it returns `is_compiled`, so nothing else
    of jedi runs).  -> True / False / 'TypeError'"""
    from jedi.inference import references
    seen = []

    class _M:
        def is_compiled(self):
            return True

    def rec(inference_state, file_io, *a, **k):
        seen.append(file_io)
        return _M()
    old = references.load_module_from_path
    references.load_module_from_path = rec
    try:
        list(references.search_in_file_ios(None, [_BytesIO(Path('/nonexistent/m.py'), data)], name, complete=complete))
    except TypeError:
        return 'TypeError'
    finally:
        references.load_module_from_path = old
    return bool(seen)


PF_CONTEXT = [' ', '', '(', ')', '=', '.', ',', ':', '\n', '\r\n', '\t', '#', '"', 'x', '_', '1', 'é', 'ß', '变', '\u0301',
              '·', 'я', '²', '\u00a0', '\ufeff']


def stream_prefilter(ctx, reqs):
    """Model.Prefilter.passes (pattern, step order, flags of the source) vs the real filter step, on small
    texts around identifiers with letters outside ASCII, in several encodings"""
    from parso.utils import python_bytes_to_unicode
    rng = ctx.subrng('prefilter')
    names = sorted({i for s in CL.UNI_STEMS + CL.STEMS[:2] for i in CL.idents_of(s)})
    cases = []
    for i in range(ctx.size(400, 6000)):
        name = rng.choice(names)
        complete = rng.random() < 0.4
        if complete and rng.random() < 0.7:
            name = name[:rng.randint(1, len(name))]
        c = rng.random()
        if c < 0.7:
            inner = name
        elif c < 0.85:
            inner = name[:-1] or 'q'                 # the word itself does not occur
        else:
            inner = rng.choice(names)
        text = ''.join(rng.choice(PF_CONTEXT) for _ in range(rng.randint(0, 3))) + inner + \
            ''.join(rng.choice(PF_CONTEXT) for _ in range(rng.randint(0, 3)))
        if rng.random() < 0.2:
            text = text + rng.choice(PF_CONTEXT) + inner
        fits = []
        for enc, decl in CL.ENCODINGS:
            t = text if decl is None else decl + '\n' + text
            try:
                if t.encode(enc).decode(enc) == t:
                    fits.append((enc, t))
            except UnicodeError:
                pass
        enc, t = rng.choice(fits)
        data = t.encode(enc)
        if rng.random() < 0.05:
            data = data[:-1] + bytes([rng.choice([0xff, 0xe9, 0x80])])      # undecodable tail (errors='replace')
        text = python_bytes_to_unicode(data, errors='replace')
        impl = prefilter_impl(name, complete, data)
        chars_ = sorted(set(text + name))
        if any(ord(ch) > 0xffff for ch in chars_):
            continue
        reqs.append({'op': 'prefilter', 'name': name, 'complete': complete, 'text': text, 'data': list(data),
                     'words': ''.join(ch for ch in chars_ if re.match(r'\w', ch))})
        cases.append((('prefilter', {'name': name, 'complete': complete, 'text': text, 'enc': enc}), impl))
    return cases


# ----------------------------------------------------------------- stream: split

def stream_split(ctx, reqs):
    from jedi.api import helpers
    rng = ctx.subrng('split')
    cases = []
    fixed = ['', ' ', '.', 'foo', 'foo.bar', 'def foo', 'class foo.bar', 'def  foo', ' foo', 'foo ', 'def', 'def ',
             'function x', 'a b c', '..', 'a..b', 'def a.b.c', 'DEF x', 'def\tx', 'x. y']
    for _ in range(ctx.size(300, 4000)):
        fixed.append(''.join(rng.choice(['a', 'b', '.', ' ', 'def', 'class', 'x']) for _ in range(rng.randint(0, 6))))
    for s in fixed:
        t, names = helpers.split_search_string(s)
        reqs.append({'op': 'split', 's': s})
        cases.append((('split', {'s': s}), [t, list(names)]))
    return cases


# ----------------------------------------------------------------- stream: script

def lower_table(strings):
    return [[s, s.lower()] for s in sorted(set(strings))]


def is_subseq(a, b):
    it = iter(b)
    return all(c in it for c in a)


def queries_for(rng, idents, k):
    qs = []
    for _ in range(k):
        name = rng.choice(idents)
        c = rng.random()
        if c < 0.45:
            q = name
        elif c < 0.7:
            q = name[:rng.randint(0, len(name))]
        elif c < 0.8:
            q = name.upper() if rng.random() < 0.5 else name.lower()
        else:
            q = rng.choice(['def ', 'class ', 'function ', 'statement ', 'param ', 'module ']) + name
        qs.append(q)
    return qs


def stream_script(ctx, reqs):
    import jedi
    rng = ctx.subrng('script')
    cases = []
    for i in range(ctx.size(60, 1200)):
        code, defs = gen_code(rng, nblocks=rng.randint(1, 7))
        script = jedi.Script(code)
        for q in queries_for(rng, IDENTS, 4):
            for all_scopes in (False, True):
                for complete, fuzzy in ((False, False), (True, False), (True, True)):
                    case = {'source': code, 'string': q, 'all_scopes': all_scopes, 'complete': complete, 'fuzzy': fuzzy}
                    try:
                        if complete:
                            res = script.complete_search(q, all_scopes=all_scopes, fuzzy=fuzzy)
                        else:
                            res = script.search(q, all_scopes=all_scopes)
                        impl = [[n.name, n.type, n.line, n.column] for n in res]
                        names = script.get_names(all_scopes=all_scopes, definitions=True, references=False)
                    except Exception as e:      # totality is C01's business
                        ctx.count('script', None, nontrivial=False, bucket='exception:%s' % type(e).__name__)
                        continue
                    gn = [[n.name, n.type, n.line, n.column] for n in names]
                    script_oracle(ctx, case, q, gn, impl)
                    if '.' in q:
                        continue
                    wt, wn = (q.rpartition(' ')[0], q.rpartition(' ')[2])
                    wt = 'function' if wt == 'def' else wt
                    req = {'op': 'filter', 'type': wt, 'last': wn, 'complete': complete, 'fuzzy': fuzzy,
                           'names': [{'str': n[0], 'type': n[1], 'id': k, 'mod': None, 'line': n[2]}
                                     for k, n in enumerate(gn)],
                           'lower': lower_table([n[0] for n in gn] + [wn])}
                    reqs.append(req)
                    cases.append((('script', case, gn), impl))
    return cases


def script_oracle(ctx, case, q, gn, impl):
    """Script.search agrees with filtering get_names: every result is one of get_names' entries with
    the requested type whose spelling equals / extends the word up to case, and every entry spelled
    exactly so (same case) with the requested type is a result."""
    wt, _, word = q.rpartition(' ')
    wt = 'function' if wt == 'def' else wt
    if '.' in word:
        return
    complete, fuzzy = case['complete'], case['fuzzy']

    def spelled(name, exact_case):
        a, b = (name, word) if exact_case else (name.lower(), word.lower())
        if not complete:
            return a == b
        return is_subseq(b, a) if fuzzy else a.startswith(b)
    must = [n for n in gn if spelled(n[0], True) and (not wt or n[1] == wt)]
    may = [n for n in gn if spelled(n[0], False) and (not wt or n[1] == wt)]
    ctx.count('script-oracle', (case['source'], q, case['all_scopes'], complete, fuzzy),
              nontrivial=bool(may), bucket='hits=%d' % min(len(may), 3))
    how = "jedi.Script(source).search(string, all_scopes=..) / complete_search(string, all_scopes=.., fuzzy=..)"
    for n in must:
        if n not in impl:
            ctx.fail('script-oracle', 'definition listed by get_names is missing from Script search',
                     case, expected=n, observed=impl, how=how)
            return
    for n in impl:
        if n not in may:
            ctx.fail('script-oracle', 'Script search reports something get_names filtered by spelling/type does not',
                     case, expected=may, observed=n, how=how)
            return


# ----------------------------------------------------------------- stream: search (end to end)

def build_search_request(t, root, mode, q, complete, all_scopes, parse_limit, open_limit):
    wt, _, word = q.rpartition(' ')
    wt = 'function' if wt == 'def' else wt
    regex = prefilter_regex(word, complete)
    table = []
    strings = [word]
    tid = [0]

    def nm(name, type_, mod, line, with_id=True):
        tid[0] += 1
        strings.append(name)
        return {'str': name, 'type': type_, 'id': tid[0] if with_id else None, 'mod': mod, 'line': line}
    for rel, node in all_dirs(t):
        folder = os.path.join(root, rel) if rel else root
        if rel:
            init = os.path.join(folder, '__init__.py')
            has_init = any(f['name'] == '__init__.py' for f in node['files'])
            table.append({'path': folder,
                          'modname': nm(node['name'], 'module' if has_init else 'namespace',
                                        init if has_init else None, 1, with_id=False),
                          'mentions': False, 'names': []})
        for f in node['files']:
            if '_defs' not in f:
                continue
            path = os.path.join(folder, f['name'])
            modname = f['name'].rsplit('.', 1)[0]
            if modname == '__init__':
                modname = node['name']
            table.append({'path': path, 'modname': nm(modname, 'module', path, 1, with_id=False),
                          'mentions': bool(regex.search(f['content'])),
                          'names': [nm(d.name, d.type, path, d.line) for d in
                                    sorted(f['_defs'], key=lambda d: (d.line, d.col)) if all_scopes or d.top]})
    sys_names = []
    top_dirs = {d['name']: d for d in t['dirs']}
    top_files = {f['name']: f for f in t['files']}
    with os.scandir(root) as it:          # iter_module_names lists the root with os.scandir (not through FolderIO)
        entries = [e.name for e in it]
    for e in entries:
        if e in top_dirs:
            d = top_dirs[e]
            if e.isidentifier() and e != '__pycache__' and any(f['name'] == '__init__.py' for f in d['files']):
                sys_names.append(nm(e, 'module', os.path.join(root, e, '__init__.py'), 1, False))
        elif e in top_files:
            if e.endswith('.py') and '.' not in e[:-3] and e[:-3] and '_defs' in top_files[e]:
                sys_names.append(nm(e[:-3], 'module', os.path.join(root, e), 1, False))
    req = walk_request(root, mode, ())
    req.update({'op': 'search', 'table': table, 'sys_names': sys_names, 'parse_limit': parse_limit,
                'open_limit': open_limit, 'type': wt, 'name': word, 'complete': complete,
                'lower': lower_table(strings)})
    return req


def run_search_impl(project, root, q, complete, all_scopes):
    f = project.complete_search if complete else project.search
    out = []
    for n in f(q, all_scopes=all_scopes):
        mp = n.module_path
        if mp is None:
            continue
        mp = str(mp)
        if not (mp == root or mp.startswith(root + '/')):
            continue                      # step 3: modules elsewhere on sys.path
        out.append([mp, n.line, n.name, n.type])
    return out


def negative_check(ctx, t, case, got, how):
    """nothing from ignored places; got = {(relpath, line, name, type)}"""
    for rel, line, name, typ in sorted(got, key=repr):
        why = ignored_reason(t, rel)
        if why is not None:
            base = rel.rsplit('/', 1)[-1]
            is_init = base in ('__init__.py', '__init__.pyi')
            top_mod = typ == 'module' and (rel.count('/') == 0 or (rel.count('/') == 1 and is_init))
            # a package whose folder is not in an ignored place, only its __init__.py is named by an entry
            pkg_init = (typ == 'module' and is_init and not top_mod
                        and ignored_reason(t, rel[:-len(base)] + '\x00') is None)
            # a dotted string whose first word is a module / package directly in the project root
            # (step 3 finds it on sys.path), the hit is an attribute of that module
            first = case.get('string', '').rpartition(' ')[2].split('.')[0]
            top_file = rel.count('/') == 0 or (rel.count('/') == 1 and is_init)
            own_mod = rel.split('/')[0] if is_init else base[:base.rindex('.')] if '.' in base else base
            dotted_top = ('.' in case.get('string', '').rpartition(' ')[2] and top_file and own_mod == first)
            # X.py is in an ignored place, its stub X.pyi is not: the module hit for the stub is
            # converted to the python file
            stub_sib = False
            if typ == 'module' and base.endswith('.py'):
                stub_sib = any(r == rel + 'i' for r, _ in CL.src_files(t)) and ignored_reason(t, rel + 'i') is None
            ctx.fail('search-negative', 'result from an ignored place',
                     dict(case, cause=why[0], rule=why[1], file=rel, result_type=typ, top_level_module=top_mod,
                          package_with_ignored_init=pkg_init, dotted_via_top_level_module=dotted_top,
                          stub_sibling_not_ignored=stub_sib),
                     expected='nothing reported from %s (%s)' % (rel, why[1]),
                     observed={'path': rel, 'line': line, 'name': name, 'type': typ}, how=how)


def search_oracle(ctx, t, root, case, q, complete, all_scopes, parse_limit, impl):
    wt, _, word = q.rpartition(' ')
    wt = 'function' if wt == 'def' else wt
    if '.' in word or not word:
        return
    got = {(os.path.relpath(mp, root), line, name, typ) for mp, line, name, typ in impl}
    got_files = {g[0] for g in got}
    how = ("materialise input.tree; jedi.Project(root).%s(%r, all_scopes=%r)  (./check C19 --replay <file>)"
           % ('complete_search' if complete else 'search', q, all_scopes))
    negative_check(ctx, t, case, got, how)
    # ---- completeness
    regex = prefilter_regex(word, complete)
    mention_files = [rel for rel, f in py_files(t) if regex.search(f['content'])]
    nontrivial = False
    if len(mention_files) <= parse_limit:
        for rel, f in py_files(t):
            if ignored_reason(t, rel) is not None:
                continue
            for d in f['_defs']:
                if not (all_scopes or d.top):
                    continue
                if wt and d.type != wt:
                    continue
                if not (d.name.startswith(word) if complete else d.name == word):
                    continue
                nontrivial = True
                if (rel, d.line, d.name, d.type) not in got:
                    cause = 'sibling-prefix' if sibling_prefix_cause(t, rel) else 'unknown'
                    ctx.fail('search-complete', 'definition in a non-ignored file is not reported',
                             dict(case, cause=cause, file=rel), expected=[rel, d.line, d.name, d.type],
                             observed={'results_in_file': sorted(g for g in got if g[0] == rel)}, how=how)
    else:
        # within the limits: at most parse_limit files are parsed
        if len({g[0] for g in got if g[3] != 'module'}) > parse_limit:
            ctx.fail('search-complete', 'more files searched than the parse limit allows',
                     dict(case, cause='limit'), expected=parse_limit, observed=sorted(got_files), how=how)
    # modules / packages so named
    if not wt or wt == 'module':
        for rel, node in all_dirs(t):
            cands = []
            for f in node['files']:
                if f['name'].endswith('.py') and '_defs' in f and f['name'] != '__init__.py':
                    cands.append((f['name'][:-3], (rel + '/' if rel else '') + f['name'], rel == ''))
            if rel and any(f['name'] == '__init__.py' for f in node['files']):
                cands.append((node['name'], rel + '/__init__.py', '/' not in rel))
            for modname, path, top in cands:
                if not (modname.startswith(word) if complete else modname == word):
                    continue
                if ignored_reason(t, path) is not None:
                    continue
                nontrivial = True
                if (path, 1, modname, 'module') not in got and not any(g[0] == path and g[3] == 'module' for g in got):
                    if sibling_prefix_cause(t, path):
                        cause = 'sibling-prefix'
                    elif complete and modname != word and not top:
                        cause = 'nested-module-prefix'
                    else:
                        cause = 'unknown'
                    ctx.fail('search-complete', 'module / package so named is not reported',
                             dict(case, cause=cause, file=path), expected=[path, 1, modname, 'module'],
                             observed={'module_results': sorted(g for g in got if g[3] == 'module')}, how=how)
    ctx.count('search-oracle', (repr(case['tree']), q, complete, all_scopes), nontrivial=nontrivial,
              bucket=('complete' if complete else 'exact') + ('/all' if all_scopes else '/top'))


def search_queries(rng, t, k):
    present = sorted({d.name for _, f in py_files(t) for d in f['_defs']} - {'self', 'p1'})
    pool = present or IDENTS
    qs = queries_for(rng, pool, k)
    mods = sorted({f['name'][:-3] for _, n in all_dirs(t) for f in n['files']
                   if f['name'].endswith('.py') and f['name'][:-3] in MODNAMES}
                  | {n['name'] for _, n in all_dirs(t) if n.get('name') in MODNAMES})
    for m in mods[:2]:
        qs.append(m)
        qs.append(m[:rng.randint(2, len(m))])
    return qs


def run_search_case(ctx, t, q, complete, all_scopes, parse_limit, mode, reqs, cases, root=None):
    import jedi
    from jedi.inference import references
    own = root is None
    if own:
        root = materialise(t)
    case = {'tree': strip_tree(t), 'string': q, 'complete': complete, 'all_scopes': all_scopes,
            'parse_limit': parse_limit, 'mode': mode}
    old = references._PARSED_FILE_LIMIT
    references._PARSED_FILE_LIMIT = parse_limit
    try:
        with shim_os(None if mode == 'real' else OsShim(mode)):
            try:
                impl = run_search_impl(jedi.Project(root), root, q, complete, all_scopes)
            except Exception as e:            # totality is C01's business
                ctx.count('search', None, nontrivial=False, bucket='exception:%s' % type(e).__name__)
                return None
    finally:
        references._PARSED_FILE_LIMIT = old
    search_oracle(ctx, t, root, case, q, complete, all_scopes, parse_limit, impl)
    if '.' not in q.rpartition(' ')[2]:
        reqs.append(build_search_request(t, root, mode, q, complete, all_scopes, parse_limit, references._OPENED_FILE_LIMIT))
        cases.append((('search', case, root), impl))
    return impl


# ----- the end-to-end searches run in fresh worker processes (common.parallel_map): the main process
# generates trees and queries (all random choices), writes every tree to a wire file, the workers
# materialise it under their own scratch directory, run the real search and build the model request
# (both depend on the absolute root), the main process judges the answers.

def tree_to_wire(t):
    def f_(f):
        d = {'name': f['name'], 'content': f['content']}
        if f.get('enc'):
            d['enc'] = f['enc']
        if '_defs' in f:
            d['defs'] = [[x.name, x.type, x.line, x.col, x.top] for x in f['_defs']]
        return d
    return {'name': t.get('name', ''), 'files': [f_(f) for f in t['files']],
            'dirs': [tree_to_wire(d) for d in t['dirs']]}


def tree_from_wire(j):
    def f_(f):
        d = {'name': f['name'], 'content': f['content']}
        if f.get('enc'):
            d['enc'] = f['enc']
        if 'defs' in f:
            d['_defs'] = [Def(*x) for x in f['defs']]
        return d
    return {'name': j.get('name', ''), 'files': [f_(f) for f in j['files']],
            'dirs': [tree_from_wire(d) for d in j['dirs']]}


_wire_dir = [None]
_wire_n = [0]


def write_wire(t):
    import json
    if _wire_dir[0] is None:
        _wire_dir[0] = os.path.join(SCRATCH, 'wire-%d' % os.getpid())
        shutil.rmtree(_wire_dir[0], ignore_errors=True)
        os.makedirs(_wire_dir[0])
    _wire_n[0] += 1
    p = os.path.join(_wire_dir[0], '%d.json' % _wire_n[0])
    with open(p, 'w') as f:
        json.dump(tree_to_wire(t), f)
    return p


_wcache = {}


def _worker_tree(path):
    """worker side: the tree of a wire file, materialised once per process"""
    import atexit
    import json
    if path not in _wcache:
        if not _wcache:
            atexit.register(lambda: [cleanup(r) for _, r in _wcache.values()])
        for _, r in _wcache.values():          # items of one tree are consecutive
            cleanup(r)
        _wcache.clear()
        with open(path) as f:
            t = tree_from_wire(json.load(f))
        _wcache[path] = (t, materialise(t))
    return _wcache[path]


def search_worker(item):
    """one Project.search / complete_search on a materialised tree.  -> {'root', 'impl': [[abs module
    path, line, column, name, type]] | None, 'exc', 'req': the request for the Lean model | None}"""
    import jedi
    from jedi.inference import references
    t, root = item['tree'] if item.get('wire') is None else _worker_tree(item['wire'])
    q, complete, all_scopes = item['string'], item['complete'], item['all_scopes']
    parse_limit, mode = item['parse_limit'], item['mode']
    old = references._PARSED_FILE_LIMIT
    references._PARSED_FILE_LIMIT = parse_limit
    out = {'root': root, 'impl': None, 'exc': None, 'req': None}
    try:
        with shim_os(None if mode == 'real' else OsShim(mode)):
            try:
                project = jedi.Project(root)
                f = project.complete_search if complete else project.search
                impl = []
                for n in f(q, all_scopes=all_scopes):
                    mp = n.module_path
                    if mp is None:
                        continue
                    mp = str(mp)
                    if not (mp == root or mp.startswith(root + '/')):
                        continue                  # step 3: modules elsewhere on sys.path
                    impl.append([mp, n.line, n.column, n.name, n.type])
                out['impl'] = impl
            except Exception as e:                # totality is C01's business
                out['exc'] = type(e).__name__
                out['exc_site'] = '%s:%s' % common.exc_site(e)
    finally:
        references._PARSED_FILE_LIMIT = old
    if item.get('model') and out['impl'] is not None and '.' not in q.rpartition(' ')[2]:
        out['req'] = build_search_request(t, root, mode, q, complete, all_scopes, parse_limit,
                                          references._OPENED_FILE_LIMIT)
    return out


def plan_case(plan, t, wire, q, complete, all_scopes, parse_limit, mode, kind, model=True):
    plan.append({'t': t, 'kind': kind,
                 'item': {'wire': wire, 'string': q, 'complete': complete, 'all_scopes': all_scopes,
                          'parse_limit': parse_limit, 'mode': mode, 'model': model}})


def plan_search(ctx, plan):
    rng = ctx.subrng('search')
    for i in range(ctx.size(22, 600)):
        t = gen_tree(rng, for_search=True, max_files=rng.choice([8, 16, 30]))
        add_gitignores(rng, t, density=0.35)
        wire = write_wire(t)
        mode = rng.choice(['real', 'sorted', 'reversed', 'shuffle%d' % rng.randint(0, 9)])
        for q in search_queries(rng, t, 4):
            for complete in (False, True):
                all_scopes = rng.random() < 0.5
                parse_limit = rng.choice([30, 30, 30, 2, 1])
                plan_case(plan, t, wire, q, complete, all_scopes, parse_limit, mode, 'search')


def plan_clash(ctx, plan):
    rng = ctx.subrng('clash')
    for i in range(ctx.size(16, 500)):
        stubs = rng.random() < 0.5
        t, stems = CL.gen_clash_tree(rng, max_files=rng.choice([10, 20, 30]), stubs=stubs)
        if rng.random() < 0.6:
            add_gitignores(rng, t, density=0.25)
        has_stub = any(rel.endswith('.pyi') for rel, _ in CL.src_files(t))
        wire = write_wire(t)
        mode = rng.choice(['real', 'sorted', 'reversed', 'shuffle%d' % rng.randint(0, 9)])
        for q in CL.clash_queries(rng, t, stems, k=ctx.size(3, 8)):
            both = rng.random() < 0.15
            for complete in (False, True):
                for all_scopes in ((False, True) if both else (rng.random() < 0.5,)):
                    parse_limit = rng.choice([30, 30, 30, 30, 30, 2])
                    plan_case(plan, t, wire, q, complete, all_scopes, parse_limit, mode, 'clash',
                              model=not has_stub)


def plan_unicode(ctx, plan):
    """identifiers with letters outside ASCII at the start / end / in the middle, files in several
    encodings (UTF-8 with and without BOM, declared 8-bit and multi-byte codecs) and newline
    conventions: gen/c19_clash.gen_unicode_tree; judged by the ast oracle (clash_oracle)"""
    rng = ctx.subrng('unicode')
    for i in range(ctx.size(8, 300)):
        stubs = rng.random() < 0.25
        t, stems = CL.gen_unicode_tree(rng, max_files=rng.choice([6, 10, 16]), stubs=stubs)
        if rng.random() < 0.3:
            add_gitignores(rng, t, density=0.2)
            for _, d in all_dirs(t):
                for f in d['files']:
                    f.setdefault('enc', 'utf-8')       # .gitignore entries name non-ASCII folders / files
        has_stub = any(rel.endswith('.pyi') for rel, _ in CL.src_files(t))
        wire = write_wire(t)
        mode = rng.choice(['real', 'sorted', 'reversed', 'shuffle%d' % rng.randint(0, 9)])
        for q, complete in CL.unicode_queries(rng, t, stems, k=ctx.size(3, 6)):
            for all_scopes in ((False, True) if rng.random() < 0.2 else (rng.random() < 0.5,)):
                plan_case(plan, t, wire, q, complete, all_scopes, 30, mode, 'unicode', model=not has_stub)


def judge_plan(ctx, plan, results, reqs, cases):
    for p, r in zip(plan, results):
        it, t, root = p['item'], p['t'], r['root']
        q, complete, all_scopes = it['string'], it['complete'], it['all_scopes']
        if r['impl'] is None:
            dotted = '.' in q.rpartition(' ')[2]
            ctx.count({'search': 'search', 'unicode': 'unicode-oracle'}.get(p['kind'], 'clash-oracle'), None,
                      nontrivial=False,
                      bucket='exception:%s' % r['exc'] + ('/dotted' if dotted and p['kind'] != 'search' else ''))
            if not dotted and p['kind'] != 'search':
                ctx.notes.append('%s: %s at %s for %s' % (p['kind'], r['exc'], r.get('exc_site'), ascii(q)))
            continue
        case = {'tree': strip_tree(t), 'string': q, 'complete': complete, 'all_scopes': all_scopes,
                'parse_limit': it['parse_limit'], 'mode': it['mode']}
        impl4 = [[mp, line, name, typ] for mp, line, col, name, typ in r['impl']]
        if p['kind'] == 'search':
            search_oracle(ctx, t, root, case, q, complete, all_scopes, it['parse_limit'], impl4)
        else:
            case['generator'] = p['kind']
            clash_oracle(ctx, t, root, case, q, complete, all_scopes, it['parse_limit'], r['impl'],
                         stream='unicode-oracle' if p['kind'] == 'unicode' else 'clash-oracle')
        if r['req'] is not None:
            reqs.append(r['req'])
            cases.append((('search', case, root), impl4))


def stream_project_search(ctx, reqs):
    plan = []
    plan_search(ctx, plan)
    plan_clash(ctx, plan)
    plan_unicode(ctx, plan)
    try:
        results = common.parallel_map('props.c19', 'search_worker', [p['item'] for p in plan])
    finally:
        if _wire_dir[0] is not None:
            shutil.rmtree(_wire_dir[0], ignore_errors=True)
            _wire_dir[0] = None
    cases = []
    judge_plan(ctx, plan, results, reqs, cases)
    return cases, []


# ----------------------------------------------------------------- direct oracle on clash trees (ast)

def spelled(name, word, complete):
    return name.startswith(word) if complete else name == word


def clash_expected(t, q, complete, all_scopes):
    """what the property demands for this search, from python's ast and the file system layout only:
    (definitions [(relpath, line, col, name, type)], modules [(name, [relpaths], nested)])"""
    wt, _, word = q.rpartition(' ')
    wt = 'function' if wt == 'def' else wt
    defs = []
    for rel, f in CL.src_files(t):
        if ignored_reason(t, rel) is not None:
            continue
        for d in f['_defs']:
            if (all_scopes or d.top) and (not wt or d.type == wt) and spelled(d.name, word, complete):
                defs.append((rel, d.line, d.col, d.name, d.type))
    mods = []
    if not wt or wt == 'module':
        for modname, paths, nested in CL.module_names(t):
            if spelled(modname, word, complete) and all(ignored_reason(t, p) is None for p in paths):
                mods.append((modname, paths, nested))
    return defs, mods


def clash_oracle(ctx, t, root, case, q, complete, all_scopes, parse_limit, impl5, quiet=False,
                 stream='clash-oracle'):
    """returns the list of (what, expected) that are missing (after reporting them)"""
    wt, _, word = q.rpartition(' ')
    got = {(os.path.relpath(mp, root), line, col, name, typ) for mp, line, col, name, typ in impl5}
    how = ("materialise input.tree; jedi.Project(root).%s(%r, all_scopes=%r); expected = python ast of the files"
           "  (./check C19 --replay <file>)" % ('complete_search' if complete else 'search', q, all_scopes))
    negative_check(ctx, t, case, {(g[0], g[1], g[3], g[4]) for g in got}, how)
    bucket = ('complete' if complete else 'exact') + ('/all' if all_scopes else '/top')
    key = (repr(case['tree']), q, complete, all_scopes, parse_limit)
    if '.' in word or not word:
        # dotted strings go through inference: the property text quantifies over identifiers and
        # prefixes only - no completeness demand, the negative part above still applies
        ctx.count(stream, key, nontrivial=False, bucket='dotted')
        return []
    missing = []
    regex = prefilter_regex(word, complete)
    mention_files = [rel for rel, f in CL.src_files(t) if regex.search(f['content'])]
    defs, mods = clash_expected(t, q, complete, all_scopes)
    mod_names = {m for m, _, _ in CL.module_names(t)}
    if len(mention_files) <= parse_limit:
        for exp in defs:
            if exp in got:
                continue
            rel = exp[0]
            base = rel.rsplit('/', 1)[-1]
            own = base[:base.rindex('.')]
            if own == '__init__':
                own = rel.split('/')[-2] if '/' in rel else ''
            if sibling_prefix_cause(t, rel):
                cause = 'sibling-prefix'
            elif CL.edge_not_word_char(word, complete):
                cause = 'query-edge-is-not-a-regex-word-character'
            else:
                cause = 'unknown'
            missing.append(('definition', list(exp)))
            ctx.fail('search-complete', 'definition in a non-ignored file is not reported',
                     dict(case, cause=cause, file=rel, file_named_like_query=(own == word),
                          encoding=dict(CL.src_files(t))[rel].get('enc'), query_shape=CL.nonascii_shape(word)),
                     expected=list(exp),
                     observed={'results_in_file': sorted(list(g) for g in got if g[0] == rel)}, how=how)
    elif len({g[0] for g in got if g[4] != 'module'}) > parse_limit:
        ctx.fail('search-complete', 'more files searched than the parse limit allows',
                 dict(case, cause='limit'), expected=parse_limit, observed=sorted({g[0] for g in got}), how=how)
    for modname, paths, nested in mods:
        # X.py / X.pyi, X/__init__.py(i) and the stub package X-stubs/ next to them are one module X
        here = paths[0].rsplit('/', 2 if paths[0].rsplit('/', 1)[-1].startswith('__init__.') else 1)[0] \
            if '/' in paths[0] else ''
        if paths[0].rsplit('/', 1)[-1].startswith('__init__.') and paths[0].count('/') == 1:
            here = ''
        stubpkg = (here + '/' if here else '') + modname + '-stubs/__init__.py'
        if any(g[0] in paths + [stubpkg, stubpkg + 'i'] and g[4] == 'module' and g[3] == modname for g in got):
            continue
        if any(sibling_prefix_cause(t, p) for p in paths):
            cause = 'sibling-prefix'
        elif complete and modname != word and nested:
            cause = 'nested-module-prefix'
        elif complete and modname != word and all(p.endswith('/__init__.pyi') for p in paths):
            cause = 'stub-only-package-prefix'
        else:
            cause = 'unknown'
        missing.append(('module', [paths, modname]))
        ctx.fail('search-complete', 'module / package so named is not reported',
                 dict(case, cause=cause, file=paths[0]), expected=[paths, 1, modname, 'module'],
                 observed={'module_results': sorted(list(g) for g in got if g[4] == 'module')}, how=how)
    clash = word in mod_names and any(d[3] == word or (complete and d[3].startswith(word)) for d in defs)
    if stream == 'unicode-oracle':
        encs = sorted({(f.get('enc') or '-') + ('+crlf' if '\r\n' in f['content'] else '+cr' if '\r' in f['content'] else '')
                       for rel, f in CL.src_files(t) if any(d[0] == rel for d in defs)})
        ctx.count(stream, key, nontrivial=bool(defs or mods),
                  bucket=bucket + '/' + CL.nonascii_shape(word) + ('/not-a-word-edge' if CL.edge_not_word_char(word, complete) else ''))
        for e in encs:                     # histogram only: files (encoding, newlines) holding an expected definition
            h = ctx.hist.setdefault('unicode-encodings', {})
            h[e] = h.get(e, 0) + 1
        return missing
    ctx.count('clash-oracle', key, nontrivial=bool(defs or mods),
              bucket=bucket + ('/query-is-file-name' if word in mod_names else
                               '/query-is-prefix-of-file-name' if any(m.startswith(word) for m in mod_names)
                               else '/identifier-only') + ('+defined-there' if clash else ''))
    return missing


# ----------------------------------------------------------------- fixed probes (DESIGN section 6, F6 and later)

def _f(name, content='zeta_a = 1\n'):
    code_defs = []
    for i, l in enumerate(content.split('\n')):
        m = re.match(r'(\w+) = \d+$', l)
        if m:
            code_defs.append(Def(m.group(1), 'statement', i + 1, 0, True))
    d = {'name': name, 'content': content}
    if name.endswith('.py'):
        d['_defs'] = code_defs
    return d


def probe_trees():
    return [
        ('relative-file', {'name': '', 'dirs': [], 'files': [
            _f('.gitignore', 'ign_rel.py\n'), _f('ign_rel.py'), _f('m.py', 'omega_x = 1\n')]}, 'zeta_a', False),
        ('absolute-file', {'name': '', 'dirs': [{'name': 'zz', 'dirs': [], 'files': [_f('ign_abs.py')]}], 'files': [
            _f('.gitignore', '/zz/ign_abs.py\n'), _f('m.py', 'omega_x = 1\n')]}, 'zeta_a', False),
        ('absolute-file-same-dir', {'name': '', 'dirs': [], 'files': [
            _f('.gitignore', '/ign_abs.py\n'), _f('ign_abs.py'), _f('m.py', 'omega_x = 1\n')]}, 'zeta_a', False),
        ('relative-file-nested', {'name': '', 'files': [_f('k.py', 'omega_x = 1\n')], 'dirs': [
            {'name': 'a', 'files': [_f('.gitignore', 'ign_rel.py\n')], 'dirs': [
                {'name': 'b', 'files': [_f('ign_rel.py'), _f('n.py')], 'dirs': []}]},
            {'name': 'ab', 'files': [_f('ign_rel.py')], 'dirs': []}]}, 'zeta_a', False),
        ('sibling-prefix', {'name': '', 'files': [_f('k.py', 'omega_x = 1\n')], 'dirs': [
            {'name': 'a', 'files': [_f('.gitignore', 'foo\n')], 'dirs': [
                {'name': 'foo', 'files': [_f('m.py')], 'dirs': []}]},
            {'name': 'ab', 'files': [], 'dirs': [
                {'name': 'foo', 'files': [_f('m.py')], 'dirs': []}]}]}, 'zeta_a', False),
        ('sys-path-module', {'name': '', 'files': [_f('k.py', 'omega_x = 1\n')], 'dirs': [
            {'name': 'venv', 'files': [_f('__init__.py')], 'dirs': []}]}, 'venv', False),
        ('nested-module-prefix', {'name': '', 'files': [_f('k.py', 'omega_x = 1\n')], 'dirs': [
            {'name': 'sub', 'files': [_f('zmod_a.py')], 'dirs': []}]}, 'zmod', True),
    ]


def stream_probes(ctx, reqs):
    cases = []
    roots = []
    for label, t, q, complete in probe_trees():
        for mode in ('sorted', 'reversed'):
            root = materialise(t)
            roots.append(root)
            run_search_case(ctx, t, q, complete, False, 30, mode, reqs, cases, root=root)
            impl = run_walk_impl(root, mode, ())
            reqs.append(walk_request(root, mode, ()))
            case = {'tree': strip_tree(t), 'mode': mode, 'except_paths': [], 'probe': label}
            cases.append((('walk', case, root), impl))
            walk_oracle(ctx, t, root, mode, (), impl, case)
    return cases, roots


# ----------------------------------------------------------------- corpus

def stream_corpus(ctx, reqs):
    import json
    cases = []
    roots = []
    d = os.path.join(common.CORPUS_DIR, 'C19')
    if not os.path.isdir(d):
        return cases, roots
    for fn in sorted(os.listdir(d)):
        if not fn.endswith('.json'):
            continue
        with open(os.path.join(d, fn), encoding='utf-8') as f:
            item = json.load(f)
        if item.get('kind') == 'walk':
            t = tree_from_json(item['tree'])
            root = materialise(t)
            roots.append(root)
            for mode in item.get('modes', ['sorted', 'reversed', 'real']):
                impl = run_walk_impl(root, mode, ())
                reqs.append(walk_request(root, mode, ()))
                case = {'tree': strip_tree(t), 'mode': mode, 'except_paths': [], 'corpus': fn}
                cases.append((('walk', case, root), impl))
                walk_oracle(ctx, t, root, mode, (), impl, case)
        elif item.get('kind') == 'search':
            # {'tree', 'queries': [[string, complete, all_scopes], ..]}: the definitions are read off the
            # files with python's ast (clash oracle) and the .py-only trees also go through the model
            t = tree_from_json(item['tree'])
            for _, node in all_dirs(t):
                for f in node['files']:
                    if f['name'].endswith(('.py', '.pyi')):
                        f['_defs'] = CL.ast_defs(f['content'])
            has_stub = any(rel.endswith('.pyi') for rel, _ in CL.src_files(t))
            root = materialise(t)
            roots.append(root)
            for q, complete, all_scopes in item['queries']:
                for mode in item.get('modes', ['sorted', 'reversed']):
                    r = search_worker({'wire': None, 'tree': (t, root), 'string': q, 'complete': complete,
                                       'all_scopes': all_scopes, 'parse_limit': 30, 'mode': mode,
                                       'model': not has_stub})
                    plan = [{'t': t, 'kind': 'clash', 'item': {'string': q, 'complete': complete,
                                                               'all_scopes': all_scopes, 'parse_limit': 30, 'mode': mode}}]
                    judge_plan(ctx, plan, [r], reqs, cases)
        elif item.get('kind') == 'gitignore':
            from jedi.inference import references
            from jedi.file_io import FolderIO
            a, r = references.gitignored_paths(FolderIO(item['folder']), FakeFileIO(item['content'].encode('latin-1')))
            reqs.append({'op': 'gitignore', 'folder': item['folder'], 'content': item['content']})
            cases.append((('gitignore', {'folder': item['folder'], 'content': item['content'], 'corpus': fn}),
                          {'abs': sorted(a), 'rel': sorted([list(x) for x in r])}))
    return cases, roots


# ----------------------------------------------------------------- compare

def compare(ctx, cases, answers):
    for (key, impl), ans in zip(cases, answers):
        stream = key[0]
        case = key[1]
        if isinstance(ans, dict) and ('error' in ans or 'protocol_error' in ans):
            raise common.InfraError('driver error: %r' % ans)
        if stream == 'sync':
            ctx.count('sync', (tuple(case['dirs']), tuple(case['modified'])), nontrivial=len(case['dirs']) > 0,
                      bucket=case['kind'], sample={'dirs': case['dirs'], 'modified': case['modified'], 'after': impl})
            if ans != impl:
                ctx.tie_broken('correspondence:sync', short({'case': case, 'impl': impl, 'model': ans}))
                # the property at this level: a consumer that leaves a sub-list gets exactly that pruning
                mod = case['modified']
                if mod == sorted(set(mod)) and all(k < len(case['dirs']) for k in mod):
                    want = [case['dirs'][k] for k in mod]
                    if impl != want:
                        ctx.fail('sync', 'FolderIO.walk does not carry the consumer\'s pruning into os.walk\'s dirs',
                                 case, expected=want, observed=impl,
                                 how='FolderIO.walk() over a one-step os.walk; folder_ios[:] = chosen sub-list; inspect dirs')
        elif stream in ('gitignore', 'expand', 'suffix', 'split'):
            if stream == 'gitignore':
                model = {'abs': sorted(set(ans['abs'])), 'rel': sorted([list(x) for x in {tuple(x) for x in ans['rel']}])}
                nontrivial = bool(impl['abs'] or impl['rel'])
                bucket = 'abs=%d,rel=%d' % (min(len(impl['abs']), 2), min(len(impl['rel']), 2))
            elif stream == 'expand':
                model = sorted(set(ans))
                nontrivial = bool(impl)
                bucket = 'n=%d' % min(len(impl), 3)
            else:
                model = ans
                nontrivial = True
                bucket = None
            ctx.count(stream, repr(case), nontrivial=nontrivial, bucket=bucket, sample=dict(case, result=impl))
            if model != impl:
                ctx.tie_broken('correspondence:' + stream, short({'case': case, 'impl': impl, 'model': model}))
        elif stream == 'walk':
            model = ans
            ctx.count('walk', (repr(case['tree']), case['mode'], tuple(case['except_paths'])),
                      nontrivial=len(impl) > 1,
                      bucket='%s/%s' % ('real' if case['mode'] == 'real' else 'shim',
                                        'except' if case['except_paths'] else 'plain'),
                      sample={'mode': case['mode'], 'events': [[a, os.path.relpath(b, key[2])] for a, b in impl][:12]})
            if model != impl:
                rel = lambda evs: [[a, os.path.relpath(b, key[2])] for a, b in evs]
                ctx.tie_broken('correspondence:walk', short({'mode': case['mode'], 'except': case['except_paths'],
                                                             'impl': rel(impl), 'model': rel(model),
                                                             'tree': case['tree']}, 3000))
                # failing-input search: the walk oracles already ran on this input (stream_walk);
                # for except_paths variants run them now
                ctx.notes.append('walk disagreement on mode=%s' % case['mode'])
        elif stream == 'prefilter':
            ctx.count('prefilter', repr(case), nontrivial=not case['name'].isascii(),
                      bucket='%s/%s/%s' % (impl, 'complete' if case['complete'] else 'exact', CL.nonascii_shape(case['name'])),
                      sample=dict(case, passes=impl))
            if ans != impl:
                ctx.tie_broken('correspondence:prefilter', short({'case': case, 'impl': impl, 'model': ans}, 1500))
                # failing-input search: the property at this level - a file whose decoded text holds the
                # name between characters that cannot belong to an identifier must reach the parser
                nm = case['name']
                if impl is not True and re.search(r'(?:^|[ (=,.:\n\t])' + re.escape(nm) + (r'' if case['complete'] else r'(?:$|[ (=,.:\n\t)])'), case['text']) \
                        and not CL.edge_not_word_char(nm, case['complete']):
                    ctx.fail('prefilter', 'a file that spells the searched name as a whole word is filtered out before parsing',
                             case, expected=True, observed=impl,
                             how='references.search_in_file_ios(None, [file with these bytes], name, complete=..) with '
                                 'load_module_from_path replaced by a recorder')
        elif stream == 'script':
            gn = key[2]
            model = [gn[m[4]] for m in ans]
            ctx.count('script', (case['source'], case['string'], case['all_scopes'], case['complete'], case['fuzzy']),
                      nontrivial=len(impl) > 0, bucket='hits=%d' % min(len(impl), 3),
                      sample={'string': case['string'], 'result': impl[:4]})
            if model != impl:
                ctx.tie_broken('correspondence:script', short({'case': case, 'impl': impl, 'model': model}, 1500))
        elif stream == 'search':
            if isinstance(ans, dict):          # the transcribed file branch of step 1 is not executable
                ctx.tie_broken('correspondence:search', short({'model': ans}))
                continue
            model = [[m[0], m[1], m[2], m[3]] for m in ans if m[0] is not None]
            ctx.count('search', (repr(case['tree']), case['string'], case['complete'], case['all_scopes'],
                                 case['parse_limit'], case['mode']),
                      nontrivial=len(impl) > 0,
                      bucket='%s/%s/limit=%d' % ('complete' if case['complete'] else 'exact',
                                                 'all' if case['all_scopes'] else 'top', case['parse_limit']),
                      sample={'string': case['string'], 'complete': case['complete'],
                              'result': [[os.path.relpath(r[0], key[2])] + r[1:] for r in impl][:5]})
            def files_in_order(rs):
                out = []
                for r in rs:
                    if not out or out[-1] != r[0]:
                        out.append(r[0])
                return out
            if sorted(model) != sorted(impl) or files_in_order(model) != files_in_order(impl):
                rel = lambda rs: [[os.path.relpath(r[0], key[2])] + r[1:] for r in rs]
                ctx.tie_broken('correspondence:search', short({'case': {k: v for k, v in case.items() if k != 'tree'},
                                                               'impl': rel(impl), 'model': rel(model),
                                                               'tree': case['tree']}, 3000))


def run_driver_chunks(reqs, jobs=6, min_split=600):
    """common.run_driver_parallel only splits above 4000 requests; the walk / search requests carry
    whole trees, so split (round-robin: the heavy requests are neighbours) already for fewer"""
    if len(reqs) < min_split:
        return common.run_driver('C19', reqs)
    if len(reqs) >= 4000:
        jobs = max(jobs, 10)
    from concurrent.futures import ThreadPoolExecutor
    chunks = [reqs[k::jobs] for k in range(jobs)]
    with ThreadPoolExecutor(jobs) as ex:
        parts = list(ex.map(lambda c: common.run_driver('C19', c), chunks))
    out = [None] * len(reqs)
    for k, part in enumerate(parts):
        out[k::jobs] = part
    return out


def run(ctx):
    import time
    _load_own_known(ctx)
    os.makedirs(SCRATCH, exist_ok=True)
    reqs = []
    cases = []
    roots = []
    timing = [('build+audit', round(time.time() - ctx.t0, 1))]

    def timed(name, f):
        t = time.time()
        r = f(ctx, reqs)
        timing.append((name, round(time.time() - t, 1)))
        return r
    try:
        for stream in (stream_corpus, stream_probes, stream_walk, stream_project_search):
            c, r = timed(stream.__name__, stream)
            cases += c
            roots += r
        cases += timed('sync', stream_sync)
        cases += timed('gitignore', stream_gitignore)
        cases += timed('split', stream_split)
        cases += timed('prefilter', stream_prefilter)
        cases += timed('script', stream_script)
        if ctx.model_ok:
            t = time.time()
            answers = run_driver_chunks(reqs)
            timing.append(('lean driver (%d requests)' % len(reqs), round(time.time() - t, 1)))
            compare(ctx, cases, answers)
        else:
            ctx.notes.append('model did not build: correspondence skipped, oracles only')
    finally:
        for r in roots:
            cleanup(r)
    try:
        load = open('/proc/loadavg').read().split()[0]
    except OSError:
        load = '?'
    ctx.notes.append('wall seconds per phase (1-min load average %s): %s'
                     % (load, ', '.join('%s %.1f' % x for x in timing)))
    ctx.obligations['assumptions'] = [
        'os.walk / os.scandir: top-down, dirs and non-dirs in one listing order, descends into what is left in `dirs`; '
        'the order is a parameter of the model (the real order and three forced orders are exercised); no symlinks',
        'pathlib.PurePath.suffix / .name (modelled, stream suffix); str(Path(p)) == p for the paths os.walk joins '
        '(normalised project root), so the str comparison of the code is string equality on model paths',
        '.gitignore contents are ASCII (bytes.decode(utf-8, ignore) is the identity)',
        'the regex pre-filter of _check_fs is the parameter `mentions` of projectSearch (Model.Prefilter.passes models it: '
        'unicode \\w and python_bytes_to_unicode are parameters there; the end-to-end unicode stream exercises both); get_module_names/_remove_imports/.type are '
        'the generator-known definitions of the generated files (assignments, def, async def, class, for, params)',
        'str.lower is a parameter; dotted search strings (inference) and step 3 beyond the project root are outside the model',
    ]


def replay(ctx, payload):
    import jedi
    inp = payload['input']
    if 'tree' in inp:
        t = tree_from_json(inp['tree'])
        root = materialise(t)
        try:
            print('project materialised at', root)
            if 'string' in inp:
                from jedi.inference import references
                references._PARSED_FILE_LIMIT = inp.get('parse_limit', 30)
                mode = inp.get('mode', 'real')
                got = []
                with shim_os(None if mode == 'real' else OsShim(mode)):
                    p = jedi.Project(root)
                    f = p.complete_search if inp.get('complete') else p.search
                    for n in f(inp['string'], all_scopes=inp.get('all_scopes', False)):
                        rel = n.module_path and os.path.relpath(str(n.module_path), root)
                        if rel and not rel.startswith('..'):
                            got.append([rel, n.line, n.column, n.name, n.type])
                            print(rel, n.line, n.column, n.name, n.type)
                exp = payload.get('expected')
                if payload.get('stream') == 'search-complete' and isinstance(exp, list) and len(exp) in (4, 5) \
                        and exp[-1] != 'module':
                    # a definition that has to be reported: (path, line[, column], name, type)
                    found = any((g if len(exp) == 5 else [g[0], g[1], g[3], g[4]]) == exp for g in got)
                    print('expected definition %r: %s' % (exp, 'reported - NOT reproduced' if found
                                                          else 'MISSING - reproduced'))
                    return 0 if found else 1
                if payload.get('stream') == 'search-negative' and isinstance(payload.get('observed'), dict):
                    o = payload['observed']
                    found = any(g[0] == o.get('path') and g[3] == o.get('name') and g[4] == o.get('type') for g in got)
                    print('result from the ignored place %r: %s' % (o.get('path'), 'reported - reproduced' if found
                                                                    else 'absent - NOT reproduced'))
                    return 1 if found else 0
            else:
                for e in run_walk_impl(root, inp.get('mode', 'real'), ()):
                    print(e[0], os.path.relpath(e[1], root))
        finally:
            cleanup(root)
    elif 'source' in inp:
        s = jedi.Script(inp['source'])
        f = s.complete_search if inp.get('complete') else s.search
        kw = {'fuzzy': inp['fuzzy']} if inp.get('complete') else {}
        print([(n.name, n.type, n.line, n.column) for n in f(inp['string'], all_scopes=inp['all_scopes'], **kw)])
        print('get_names:', [(n.name, n.type, n.line, n.column) for n in s.get_names(all_scopes=inp['all_scopes'])])
    else:
        print('input:', inp)
    print('expected:', payload.get('expected'), 'observed at record time:', payload.get('observed'))
    return 0

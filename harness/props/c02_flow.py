"""C02, stream `flow` (direct oracle only, no Lean model behind it): random terminating programs
with loops, generator functions, nested blocks, intermediate locals, closures, lambdas,
comprehensions, containers, with/try, decorators, descriptors and magic methods
(harness/gen/flowprog.py) are EXECUTED with every probe recording the set of run-time classes seen
there over the whole run; then `Script.infer` is asked at every probe the run reached.

Judged (exactly the property, nothing stronger):
  soundness  every class seen at run time is among the definitions infer reports there, as an
             instance whose definition points at the class statement (name, line) of the program;
  exactness  where the generator can justify syntactically that exactly one creation site reaches
             the probe through straight constructs only (flowprog docstring), infer reports exactly
             that class and nothing else.
Not judged, counted: exceptions raised by jedi (totality is C01; the empty typeshed of this sandbox
makes `isinstance` flow checks raise), and probes on which jedi hits one of its documented give-up
limits (jedi/inference/recursion.py, the 300-inferences-per-node limit) - detected by re-running the
failing probe with jedi's debug warnings captured.
"""
import common

HOW = ('jedi.Script(source).infer(line, column) vs executing the program with the probe statement `tN` '
       'instrumented (harness/gen/flowprog.py:run)')
LIMIT_MARKS = ('limit (', 'too many inferences', 'Too many options')


def _infer(src, line, col):
    import jedi
    ds = jedi.Script(src).infer(line, col)
    out = []
    for d in ds:
        if d.module_name == '__main__':
            out.append([d.type, d.name, d.line])
        else:
            out.append([d.type, '%s.%s' % (d.module_name, d.name), None])
    return sorted(out, key=repr)


def _gave_up(src, line, col):
    """re-runs one inference with jedi's debug warnings captured: which documented give-up limit
    (if any) was hit; `stmt-recursion` when only the statement recursion guard fired"""
    import jedi
    hits = []
    guard = []

    def sink(color, text):
        if any(m in text for m in LIMIT_MARKS):
            hits.append(text.strip()[:80])
        elif 'catched stmt recursion' in text:
            guard.append(text)
    jedi.set_debug_function(sink, warnings=True, notices=False, speed=False)
    try:
        jedi.Script(src).infer(line, col)
    except Exception:
        pass
    finally:
        jedi.set_debug_function(None)
    return hits[0] if hits else ('stmt-recursion' if guard else None)


def _operand_limit(src, line, col):
    """re-runs one inference watching syntax_tree._infer_comparison: True when some binary operation
    met more than six (left, right) value pairs - there jedi answers with the union of both operand
    sets instead of executing the magic method (no debug message is emitted on that path)"""
    import jedi
    from jedi.inference import syntax_tree as st
    hit = []
    orig = st._infer_comparison

    def watch(context, left_values, operator, right_values):
        if left_values and right_values and len(left_values) * len(right_values) > 6:
            hit.append(1)
        return orig(context, left_values, operator, right_values)
    st._infer_comparison = watch
    try:
        jedi.Script(src).infer(line, col)
    except Exception:
        pass
    finally:
        st._infer_comparison = orig
    return bool(hit)


def analyse_source(src, info=None):
    """runs one program and infers at every probe the run reached"""
    from gen import flowprog as F
    info = info or {}
    exact = info.get('exact') or {}
    seen, err = F.run(src)
    recs = []
    for line, col, name in F.probes_of(src):
        rt = seen.get(str(line))
        if not rt:
            continue
        rec = {'line': line, 'column': col, 'runtime': rt, 'jedi': None, 'raised': None,
               'exact': exact.get(str(line)), 'gave_up': None, 'operand_limit': False}
        try:
            rec['jedi'] = _infer(src, line, col)
        except Exception as e:
            rec['raised'] = '%s@%s' % common.exc_site(e)
        if rec['jedi'] is not None and verdict(rec) is not None:
            rec['gave_up'] = _gave_up(src, line, col)
            if verdict(rec)[2] == 'not-exact' and not rec['gave_up']:
                rec['operand_limit'] = _operand_limit(src, line, col)
        recs.append(rec)
    return {'src': src, 'err': err, 'probes': recs, 'selfnest': bool(info.get('selfnest')),
            'finding_shape': info.get('finding_shape')}


def verdict(rec):
    """None when the property holds at this probe, else (what, expected, shape-kind)"""
    rt = [r for r in rec['runtime'] if r[0] in ('instance', 'class')]
    missing = [r for r in rt if r not in rec['jedi']]
    if missing:
        return ('the class of the run-time value is not among the inferred definitions', missing, 'missing')
    if rec['exact'] is not None and len(rt) == 1 and rec['jedi'] != rt:
        return ('only one value can reach the expression but infer reports more', rt, 'not-exact')
    return None


def _failing(res, kind):
    for rec in res['probes']:
        if rec['jedi'] is None or rec['gave_up']:
            continue
        v = verdict(rec)
        if v is not None and v[2] == kind:
            return rec
    return None


def shrink(src, info, kind, seconds=20.0):
    """a smaller program that fails the same way, obtained only by steps that keep the program
    inside the generator's discipline: everything after the top-level statement that contains the
    failing probe is dropped, every other probe (`tK = name` / `tK`, names nobody reads) becomes
    `pass`.  The result must still run to the end like the original and fail at the same probe
    with the same missing classes; otherwise None."""
    import ast
    if kind != 'missing':
        return None
    res = analyse_source(src, info)
    rec = _failing(res, kind)
    if rec is None:
        return None
    want = verdict(rec)[1]
    lines = src.splitlines()
    tree = ast.parse(src)
    end = len(lines)
    for st in tree.body:
        if st.lineno <= rec['line'] <= st.end_lineno:
            end = st.end_lineno
    from gen import flowprog as F
    keep = lines[:end]
    for line, col, name in F.probes_of(src):
        if line != rec['line'] and line <= end:
            keep[line - 2] = ' ' * col + 'pass'
            keep[line - 1] = ' ' * col + 'pass'
    text = '\n'.join(keep) + '\n'
    try:
        compile(text, '<shrink>', 'exec')
        res2 = analyse_source(text)
    except Exception:
        return None
    if res2['err'] != res['err']:
        return None
    for r in res2['probes']:
        if r['line'] == rec['line'] and r['jedi'] is not None and not r['gave_up']:
            v = verdict(r)
            if v is not None and v[2] == kind and v[1] == want:
                return text
    return None


_SHRUNK = [0]


def analyse_flow(seed):
    """worker entry: one generated program per seed (the first failing program of a worker is
    also shrunk)"""
    import random
    from gen import flowprog as F
    from gen import descbind as D
    rng = random.Random(seed)
    out = []
    for _ in range(1):
        if '-desc-' in seed:
            # class families: descriptor binding through inheritance (gen/descbind.py)
            src, info, feats = D.gen_program(rng)
            feats = ['desc:' + f for f in feats]
        elif '-seg-' in seed:
            # generator functions of top-level yields and simple for loops in any interleaving,
            # unpacked position by position (gen/flowprog.py:gen_segprogram)
            src, info, feats = F.gen_segprogram(rng)
        else:
            src, info, feats = F.gen_program(rng)
        res = analyse_source(src, info)
        res['features'] = feats
        res['origin'] = 'generated:descbind' if '-desc-' in seed else \
            ('generated:yield-order' if '-seg-' in seed else 'generated')
        out.append(res)
        if _SHRUNK[0] < 1 and not info.get('selfnest') and _failing(res, 'missing') is not None:
            _SHRUNK[0] += 1
            small = shrink(src, info, 'missing')
            if small is not None:
                res2 = analyse_source(small)
                res2['features'] = []
                res2['shrunk_from'] = src
                res2['origin'] = res['origin']
                out.append(res2)
    return out


def analyse_corpus(item):
    return analyse_source(item['source'], item)


# ------------------------------------------------- stream `lookup` (Model/ClassLookup, three-way)

LOOKUP_NAMES = 3


def lookup_source(hier):
    """the program of one hierarchy: class i is `K<i>`, classmethod j is `m<j>` and returns `cls`;
    one probe per (class, name) that resolves.  Returns (source, [(class, name, probe line)])"""
    lines = []
    for i, (base, names) in enumerate(hier):
        lines.append('class K%d%s:' % (i, '' if base is None else '(K%d)' % base))
        if not names:
            lines.append('    pass')
        for j in names:
            lines += ['    @classmethod', '    def m%d(cls):' % j, '        return cls']
    queries = []

    def resolves(c, n):
        while c is not None:
            if n in hier[c][1]:
                return True
            c = hier[c][0]
        return False
    k = 0
    for c in range(len(hier)):
        for n in range(LOOKUP_NAMES):
            if resolves(c, n):
                k += 1
                lines += ['t%d = K%d.m%d()' % (k, c, n), 't%d' % k]
                queries.append((c, n, len(lines)))
    return '\n'.join(lines) + '\n', queries


def lookup_items(ctx):
    """ALL hierarchies of up to 3 classes over 2 names (thorough) / a sample (quick), random larger"""
    import itertools
    rng = ctx.subrng('lookup')
    small = []
    subsets = [[], [0], [1], [0, 1]]
    for n in (2, 3):
        for bases in itertools.product(*[[None] + list(range(i)) for i in range(n)]):
            for defs in itertools.product(subsets, repeat=n):
                small.append([[bases[i], list(defs[i])] for i in range(n)])
    items = small if not ctx.quick else rng.sample(small, 25)
    for _ in range(ctx.size(35, 600)):
        n = rng.randint(3, 6)
        hier = []
        for i in range(n):
            base = None if i == 0 else (i - 1 if rng.random() < 0.6 else rng.choice([None] + list(range(i))))
            hier.append([base, sorted(rng.sample(range(LOOKUP_NAMES), rng.choice([0, 0, 1, 1, 2, 3])))])
        items.append(hier)
    return [{'hier': h} for h in items]


def analyse_lookup(item):
    src, queries = lookup_source(item['hier'])
    res = analyse_source(src, {'exact': {str(ln): True for _, _, ln in queries}})
    res['queries'] = queries
    return res


def judge_lookup(ctx, items, outs, answers):
    """CPython = pyBoundCls, jedi = jediBoundCls (exact, every query); the property itself on every
    probe through judge()"""
    for it, res, ans in zip(items, outs, answers):
        if res['err']:
            raise common.InfraError('lookup program does not run: %s\n%s' % (res['err'], res['src']))
        by_line = {r['line']: r for r in res['probes']}
        model = None
        if ans is not None:
            if 'error' in ans:
                raise common.InfraError('driver: %r' % ans)
            model = {(q['c'], q['n']): q for q in ans['queries']}
        for c, n, ln in res['queries']:
            rec = by_line.get(ln)
            if rec is None:
                raise common.InfraError('lookup probe not reached: line %d\n%s' % (ln, res['src']))
            key = (res['src'], ln)
            if rec['raised'] or model is None:
                continue
            m = model[(c, n)]
            def idx(d):
                return int(d[1][1:]) if d[0] == 'class' and d[2] is not None and d[1][1:].isdigit() else -1
            rt = [idx(r) for r in rec['runtime']]
            jd = sorted(idx(d) for d in rec['jedi'])
            inherited = n not in it['hier'][c][1]
            ctx.count('lookup', key, nontrivial=inherited, bucket='inherited' if inherited else 'own')
            if jd != ([] if m['jedi'] is None else [m['jedi']]):
                ctx.tie_broken('correspondence:lookup', common.short(
                    {'source': res['src'], 'line': ln, 'jedi': rec['jedi'], 'model': m['jedi']}, 1200))
            if rt != ([] if m['py'] is None else [m['py']]):
                ctx.tie_broken('correspondence:lookup-py', common.short(
                    {'source': res['src'], 'line': ln, 'cpython': rec['runtime'], 'model': m['py']}, 1200))
        res['finding_shape'] = None
        # the failing-input search is the direct oracle on the same program
        judge(ctx, res, 'generated:lookup', count=False)


# ------------------------------------------------------------------- shape of a failing probe

def shape_of(src, line, kind):
    """a precise syntactic description of where the probed value comes from: the statement kinds
    between the probe's definition and the creation, as far as one assignment chain can be followed
    textually.  Used as the key of known findings."""
    import ast
    tree = ast.parse(src)
    parents = {}
    for n in ast.walk(tree):
        for c in ast.iter_child_nodes(n):
            parents[c] = n
    probe = None
    for n in ast.walk(tree):
        if isinstance(n, ast.Expr) and isinstance(n.value, ast.Name) and n.lineno == line:
            probe = n
    if probe is None:
        return kind
    # enclosing compound statements of the probe
    encl = []
    p = parents.get(probe)
    while p is not None and not isinstance(p, ast.Module):
        encl.append(type(p).__name__)
        p = parents.get(p)
    return '%s:in=%s' % (kind, '/'.join(encl) or 'module')


# ------------------------------------------------------------------------ judging (main process)

def judge(ctx, res, origin, count=True):
    src = res['src']
    failed = False
    for rec in res['probes']:
        key = (src, rec['line'])
        if rec['raised']:
            ctx.count('raised', key, nontrivial=False, bucket='flow:' + rec['raised'])
            continue
        v = verdict(rec)
        guard = rec['gave_up'] == 'stmt-recursion'
        if v is not None and rec['gave_up'] and not guard:
            ctx.count('flow', key, nontrivial=False, bucket='gave-up:' + rec['gave_up'][:40])
            continue
        multi = len(rec['runtime']) > 1
        if count:
            ctx.count('flow', key, nontrivial=True,
                      bucket=('exact' if rec['exact'] else ('multi' if multi else 'single')),
                      sample={'source': src, 'line': rec['line'], 'runtime': rec['runtime'], 'jedi': rec['jedi']})
        if v is None:
            continue
        what, expected, kind = v
        if guard and res.get('selfnest') and kind == 'missing':
            # no recursion anywhere in the program, yet the statement recursion guard fired: a named
            # function / class is applied to a value that passed through the same function / class
            shape = 'flow:callable-applied-to-its-own-result'
        elif res.get('finding_shape'):
            shape = res['finding_shape']      # corpus reproducer of a known finding
        elif kind == 'not-exact' and rec.get('operand_limit') and \
                all(r in rec['jedi'] for r in rec['runtime'] if r[0] in ('instance', 'class')):
            # a binary operation with more than six operand pairs on the way: union of the operands
            shape = 'flow:operator-beyond-six-operand-pairs'
        else:
            shape = 'flow:' + shape_of(src, rec['line'], kind)
        case = {'source': src, 'line': rec['line'], 'column': rec['column'], 'shape': shape, 'origin': origin}
        if res.get('shrunk_from'):
            case['origin'] = origin + ' (shrunk)'
            case['shrunk_from'] = res['shrunk_from']
        failed = ctx.fail('flow', what, case, expected=expected, observed=rec['jedi'], how=HOW) or failed
    return failed


def corpus_items():
    import glob
    import json
    import os
    items = []
    for p in sorted(glob.glob(os.path.join(common.CORPUS_DIR, 'C02', 'flow*.json'))):
        with open(p, encoding='utf-8') as f:
            for c in json.load(f).get('cases', []):
                items.append({'source': c['source'], 'exact': c.get('exact'), 'selfnest': c.get('selfnest'),
                              'finding_shape': c.get('finding_shape'), 'name': c.get('name', p)})
    return items


def start(ctx):
    """launches the stream in the background (worker processes); returns a handle for finish()"""
    from concurrent.futures import ThreadPoolExecutor
    n = ctx.size(280, 6000)
    nd = ctx.size(70, 2500)
    # interleaved so that every worker gets its share of both generators
    seeds = []
    step = max(1, n // nd)
    k = 0
    for i in range(n):
        seeds.append('%s-flow-%d' % (ctx.seed, i))
        if i % step == 0 and k < nd:
            seeds.append('%s-desc-%d' % (ctx.seed, k))
            k += 1
    while k < nd:
        seeds.append('%s-desc-%d' % (ctx.seed, k))
        k += 1
    seeds += ['%s-seg-%d' % (ctx.seed, i) for i in range(ctx.size(50, 1500))]
    pool = ThreadPoolExecutor(2)
    items = corpus_items()
    return {'pool': pool,
            'corpus': pool.submit(common.parallel_map, 'props.c02_flow', 'analyse_corpus', items, 1),
            'gen': pool.submit(common.parallel_map, 'props.c02_flow', 'analyse_flow', seeds),
            'items': items}


def finish(ctx, h):
    feats = {}
    nprog = ndesc = nseg = 0
    for item, res in zip(h['items'], h['corpus'].result()):
        judge(ctx, res, 'corpus:' + str(item['name']))
    groups = h['gen'].result()
    for group in groups:
        for res in group:
            if res.get('shrunk_from'):
                judge(ctx, res, res.get('origin', 'generated'))
    for group in groups:
        for res in group:
            if res.get('shrunk_from'):
                continue
            nprog += 1
            for f in res.get('features', []):
                feats[f] = feats.get(f, 0) + 1
            ndesc += res.get('origin') == 'generated:descbind'
            nseg += res.get('origin') == 'generated:yield-order'
            judge(ctx, res, res.get('origin', 'generated'))
    h['pool'].shutdown()
    ctx.hist.setdefault('flow-features', {}).update(feats)
    ctx.notes.append('flow: %d generated programs (%d of them class families of gen/descbind.py: descriptor '
                     'binding through inheritance, %d of gen/flowprog.py:gen_segprogram: generator functions of '
                     'top-level yields and simple for loops in any interleaving, unpacked position by position) '
                     '(+%d corpus), executed and inferred at every reached probe'
                     % (nprog, ndesc, nseg, len(h['items'])))
    ctx.obligations.setdefault('assumptions', [])
    ctx.obligations['assumptions'] = list(ctx.obligations['assumptions']) + [
        'stream flow is oracle-only (no Lean model of loops / generators): CPython is the ground truth, the '
        'instrumentation (probe statement -> recorder call, classes identified by their unique name) and the '
        'generator\'s exactness bookkeeping are trusted; probes on which jedi hits a documented give-up limit '
        'are counted, not judged']


def replay(ctx, payload):
    """re-executes the recorded program, re-asks jedi at the recorded probe; exit code 1 when the
    property still fails there"""
    inp = payload['input']
    src = inp['source']
    print(src)
    res = analyse_source(src, {'exact': {str(inp['line']): True} if 'more' in payload.get('what', '') else {}})
    rc = 0
    for rec in res['probes']:
        if rec['line'] != inp['line']:
            continue
        print('probe at line %d column %d' % (rec['line'], rec['column']))
        print('  classes seen at run time :', rec['runtime'])
        print('  Script.infer reports     :', rec['jedi'] if rec['raised'] is None else 'raised ' + rec['raised'])
        v = None if rec['jedi'] is None else verdict(rec)
        if v is not None:
            print('  PROPERTY FAILS: %s; missing/expected %s' % (v[0], v[1]))
            rc = 1
        else:
            print('  property holds here now')
    print('expected at record time:', payload.get('expected'), 'observed at record time:', payload.get('observed'))
    return rc


# ------------------------------------------ stream `yieldorder` (Model/YieldOrder, correspondence)

YO_KINDS = ('top', 'loop1', 'loop2', 'looptry', 'trytop', 'if', 'nested', 'tuple', 'while')


def yieldorder_build(kinds, lens):
    """the generator function `g` of one item: kinds[i] is the i-th statement of the body, lens[i]
    the number of elements a for statement there iterates over.  Returns (source of the classes and
    of g, parents [[yield id, tag, for id]] as get_yield_lazy_values classifies the yields (0 directly
    in the body - also inside try/with -, 1 in a for directly in the body with one loop name, 2
    anything else), lens [[for id, n]], label of every (yield id, iteration) position, all classes).
    The first yield of a for yields the loop variable (elements of classes E<f>_<i>), every other
    yield an instance of its own class K<y>."""
    body, parents, lns, classes = [], [], [], []
    first = {}
    y = 0

    def k():
        nonlocal y
        y += 1
        classes.append('K%d' % y)
        return y
    for f, (kind, n) in enumerate(zip(kinds, lens), 1):
        els = ['E%d_%d' % (f, i) for i in range(n)]
        tup = '(%s%s)' % (', '.join(e + '()' for e in els), ',' if n == 1 else '')
        if kind == 'top':
            body.append('    yield K%d()' % k())
            parents.append([y, 0, 0])
        elif kind == 'trytop':
            body += ['    try:', '        yield K%d()' % k(), '    finally:', '        pass']
            parents.append([y, 0, 0])
        elif kind in ('loop1', 'loop2', 'looptry'):
            classes += els
            lns.append([f, n])
            body.append('    for x%d in %s:' % (f, tup))
            first[k()] = f
            classes.pop()             # the first yield of a for yields the loop variable
            parents.append([y, 1, f])
            if kind == 'looptry':
                body += ['        try:', '            yield x%d' % f, '        finally:', '            pass']
            else:
                body.append('        yield x%d' % f)
            if kind == 'loop2':
                body.append('        yield K%d()' % k())
                parents.append([y, 1, f])
        elif kind == 'if':
            body += ['    if K%d():' % k(), '        yield K%d()' % y]
            parents.append([y, 2, 0])
        elif kind == 'while':
            body += ['    while K%d():' % k(), '        yield K%d()' % y, '        break']
            parents.append([y, 2, 0])
        elif kind == 'nested':
            classes += els
            body += ['    for x%d in %s:' % (f, tup), '        for z%d in (x%d,):' % (f, f), '            yield z%d' % f]
            k()
            classes.pop()
            parents.append([y, 2, f])
        elif kind == 'tuple':
            classes += els
            body += ['    for x%d, z%d in (%s):' % (f, f, ''.join('(%s(), %s()), ' % (e, e) for e in els)),
                     '        yield z%d' % f]
            k()
            classes.pop()
            parents.append([y, 2, f])
        else:
            raise AssertionError(kind)
    src = ''.join('class %s: pass\n' % c for c in classes) + 'def g():\n' + '\n'.join(body) + '\n'

    def label(yid, it):
        return 'K%d' % yid if it is None or yid not in first else 'E%d_%d' % (first[yid], it)
    return src, parents, lns, label, sorted(classes)


def yieldorder_items(ctx):
    """ALL bodies of up to 2 (quick) / 4 (thorough) statements over YO_KINDS, random longer ones"""
    import itertools
    rng = ctx.subrng('yieldorder')
    items = []
    for n in range(1, ctx.size(2, 4) + 1):
        for kinds in itertools.product(YO_KINDS, repeat=n):
            items.append({'kinds': list(kinds), 'lens': [rng.choice([1, 2, 2, 3]) for _ in kinds]})
    ordered = YO_KINDS[:5]
    for _ in range(ctx.size(120, 3000)):
        n = rng.randint(3, 6)
        pool = ordered if rng.random() < 0.8 else YO_KINDS
        items.append({'kinds': [rng.choice(pool) for _ in range(n)],
                      'lens': [rng.choice([0, 1, 2, 2, 3]) for _ in range(n)]})
    return items


def yieldorder_request(item):
    _, parents, lns, _, _ = yieldorder_build(item['kinds'], item['lens'])
    return {'op': 'yieldorder', 'parents': parents, 'lens': lns}


def analyse_yieldorder(item):
    """the REAL BaseFunctionExecutionContext.get_yield_lazy_values on the function value of `g`
    (obtained through the API's name -> value path): the class names of every lazy value, in order"""
    import jedi
    src = yieldorder_build(item['kinds'], item['lens'])[0]
    try:
        name = [d for d in jedi.Script(src).get_names() if d.name == 'g'][0]
        (fv,) = name._name.infer()
        fctx = fv.as_context()
        return {'real': [sorted(v.name.string_name for v in lv.infer()) for lv in fctx.get_yield_lazy_values()]}
    except Exception as e:
        return {'raised': '%s@%s' % common.exc_site(e)}


def yieldorder_oracle_source(item):
    """the program the direct oracle runs for one item: g() unpacked position by position (as many
    targets as the RUN yields), every target probed"""
    src = yieldorder_build(item['kinds'], item['lens'])[0]
    g = {}
    exec(compile(src, '<yieldorder>', 'exec'), g)
    n = len(list(g['g']()))
    if n == 0:
        return None
    names = ['n%d' % i for i in range(1, n + 1)]
    lines = ['%s%s = g()' % (', '.join(names), ',' if n == 1 else '')]
    for i, nm in enumerate(names, 1):
        lines += ['t%d = %s' % (i, nm), 't%d' % i]
    return src + '\n'.join(lines) + '\n'


def judge_yieldorder(ctx, items, outs, answers):
    for it, out, ans in zip(items, outs, answers):
        key = (tuple(it['kinds']), tuple(it['lens']))
        if 'raised' in out:
            ctx.count('raised', key, nontrivial=False, bucket='yieldorder:' + out['raised'])
            continue
        if ans is None:
            continue
        if 'error' in ans:
            raise common.InfraError('driver: %r' % ans)
        _, _, _, label, classes = yieldorder_build(it['kinds'], it['lens'])
        if ans['order'] is None:
            want = [classes] if classes else []       # given up: one value, the union of all yields
        else:
            want = [[label(y, i)] for y, i in ans['order']]
        mixed = ans['order'] is not None and len({k[:4] for k in it['kinds']}) > 1
        ctx.count('yieldorder', key, nontrivial=mixed,
                  bucket='given-up' if ans['order'] is None else ('mixed' if mixed else 'uniform'),
                  sample={'kinds': it['kinds'], 'lens': it['lens'], 'stream': out['real']})
        if out['real'] != want:
            ctx.tie_broken('correspondence:yieldorder', common.short(
                {'kinds': it['kinds'], 'lens': it['lens'], 'real': out['real'], 'model': want}, 1200))
            # failing-input search: the direct oracle on the same generator, unpacked
            src = yieldorder_oracle_source(it)
            if src is not None:
                res = analyse_source(src)
                res['features'] = []
                judge(ctx, res, 'generated:yieldorder', count=False)

"""C16 - results are deterministic and repeatable.

Streams
  sort       helpers.sorted_definitions(set(defs)) on real classes.Name objects (synthetic inner
             names, shuffled, with __eq__-equal duplicates) vs Model.Determinism.inferResult
  machine    random query bodies (nested try/finally blocks, exceptions anywhere, dynamic parameter
             lookups that re-enter themselves so that the recursion guard blocks, call-site searches)
             executed with the real primitives (InferenceState.reset_recursion_limitations, detector
             push/pop, _limit_value_infers, AbstractContext.predefine_names,
             dynamic_params._avoid_recursions, the loop of dynamic_params._search_function_arguments)
             on one state object vs Model.Determinism.session; dynamic_params_depth must be 0 after
             every query
  eqclass    deterministic regression of the former finding C16-eq-class-representative: when the
             inferred values are a class and an instance of it, infer() returns both, class first,
             under every forced iteration order and in every subprocess (hash seeds, allocation noise)
  order      direct oracle, in-process: the value set / name set that Script.infer / goto turn into
             Name objects is handed over in every (sampled) iteration order; the ordered result
             lists must be equal (goto: as sets)
  dictkeys   the real strings._completions_for_dicts (+ _get_python_keys, _create_repr_string,
             _get_string_prefix_and_quote) on stand-ins for inferred dict values (keys of every safe-value
             type, shared keys, non-dicts, keys without a safe value, every way to open a literal after the
             bracket) vs Model.Determinism.completionsForDicts with the sorts where the translator found
             them; direct oracle on the real function: the dicts in another order -> same completions
  keyorder   direct oracle for completions that come out of a UNION of inferred values: subscript
             completion (`d[`, `d['`, `d["k`, `d[1` ...) on a name with 2..4 dict values (gen/c16_dictkeys.py:
             branch returns, parameter with several call sites, conditional expression, loop over a list
             of dicts, subscripted call, attribute assigned twice): complete() under every forced
             iteration order of the value set (ForceOrder also hooks api/strings.py), on fresh Scripts of
             one process with allocations in between, and in sessions on one Script; the same programs
             also go through stream subproc
  subproc    direct oracle: the same queries in fresh subprocesses under several PYTHONHASHSEED
             values and with allocation noise before the import; ordered result lists must be equal
  session    direct oracle: permutations / repetitions of up to 8 queries on one Script (including
             out-of-range positions that raise ValueError); every answer must equal the answer of a
             fresh Script; after every query the per-query state is checked on the real object
  dynsession the same oracle on programs whose answers come from the dynamic parameter search
             (functions with 11..16 call sites with distinct argument classes, self- / mutually
             recursive functions, helper calls; gen/c16_dynparams.py, corpus/C16): every ordered
             pair of parameter queries, random longer sessions
  memosession the same oracle on programs in which a value reaches a name through a memo in every way
             that works here (gen/c16_memo.py: sphinx / epydoc docstring types, plain and string
             annotations, decorators, call-site dependent results, generators, comprehensions,
             properties, class / instance attributes via several instances, special methods,
             closures, a second module, pytest fixtures), every definition used at several sites;
             sessions of DISTINCT queries at different sites (ordered pairs, permutations of up to 8);
             after every query the real memo is scanned for remembered one-shot iterators
  memoreplay / memostack  the real memo decorators on a function producing 0..n-1, read by successive
             consumers that take k_i elements vs Model.Determinism.Stored.reads; random decorator
             stacks: does a memo of the stack remember a one-shot iterator vs stackReplayable
  budget     direct oracle: programs generated from the limits in the sources (gen/c16_budget.py:
             per_function_execution_limit, total_function_execution_limit, the 300-inferences-per-context
             cap, MAX_PARAM_SEARCHES) in which ONE query uses n-1 / n / n+1 units of a per-query budget -
             through every public method that can (infer, help, complete, goto, get_references,
             get_signatures, search) - directly followed on the same Script by a question that needs one
             more unit, asked through every public query method (get_signatures, complete incl. its
             signatures callback, infer, goto, help, get_references, search, complete_search; get_names
             and get_context as cheap in-between queries); every answer must equal the answer of a fresh
             Script. After every query the real InferenceState is looked at: were the three bookkeeping
             objects re-created by this query (object identity), how many executions were refused, how
             far the counters are from the limits (bucket of the evidence). Runs in worker processes
             while the in-process streams run; Scripts live in an empty project.
  fault      an exception is injected at the k-th inference step of a query; afterwards all
             switches must have their defaults and the recursion stacks must be empty

Controlled environment: all in-process streams and every subprocess use a parso pickle cache
directory private to this run (PrivateCache) - the shared ~/.cache/jedi is written non-atomically and
a concurrent reader gets EOFError out of jedi (reproduced; that race is parso's, not C16's).
Answers that are internal exceptions on BOTH sides are counted, not compared (C01's statement).
"""
import itertools
import json
import os
import shutil
import subprocess
import sys
import tempfile
from pathlib import Path

import common
from common import short
from gen import c15_programs as P
from gen import c16_dynparams as DP
from gen import c16_memo as MP
from gen import c16_budget as BG
from props import c15 as C15

MODELS = ['Recursion', 'Determinism']
MANIFEST = dict(
    text='Theorems over a transcription of helpers.sorted_definitions, Name.__eq__/__hash__, the closing '
         'expressions of Script.infer/goto/get_references, the reset at the start of every query method and the '
         'try/finally switches: the key tuple extracted from the source is injective on __eq__ classes of '
         'well-formed names (key_injective; counter-witness without well-formedness), hence for any two '
         'iteration orders of the value set and ANY surviving representatives the sorted results show the same, '
         'position by position: path/line/column/name/type (sorted_defs_perm_invariant, FULL since Name.__eq__/'
         '__hash__ and the sort key include the api type; class_and_instance_both_reported; kernel-checked witness '
         'type_needed_in_eq_and_in_key that dropping the type from either brings the order dependence back); goto is '
         'the same set (goto_set_invariant); after any sequence of queries with any outcomes the switches '
         'have their defaults and every query starts with fresh recursion bookkeeping '
         '(query_boundary_inv_partial; witness: inferred_element_counts is not reset, reproduced on jedi); '
         'every public query method opens with the reset or reaches one through self (public_queries_reset, over the '
         'method table the translator extracts), so for ANY history - also one that used up every budget - the '
         'limit_reached decisions of a query are those of the first query of a fresh Script '
         '(every_query_starts_with_fresh_budget, public_queries_have_fresh_budget over the limits of recursion.py; '
         'kernel-checked witness budget_leaks_without_reset: without the reset in get_signatures the execution it needs '
         'is refused after an infer that executed the function per_function_execution_limit times); '
         'this includes dynamic_params_depth = 0 and an empty statement stack for any outcome of '
         'dynamic_params._avoid_recursions (allowed, blocked by the recursion guard, exception) because the '
         'translator finds `+= 1` inside `if allowed:` right before the try whose finally has `-= 1` '
         '(dyn_bracket_transcribed; dyn_depth_zero_at_every_boundary; top_level_search_sees_all_sites; '
         'kernel-checked witness for the increment moved before the with block: 12 call sites fresh, 10 after a '
         'self-recursive lookup); '
         'every function of jedi/ under a memo decorator (table extracted by walking all of jedi/) that hands out a '
         'one-shot iterator has a materialising decorator (to_list, to_tuple, iterator_to_value_set) between itself '
         'and the memo, or the memo is one of the two that consume generators themselves '
         '(memo_values_are_replayable_partial: all but the known pytest-plugin entry; memo_stack_order_matters); a '
         'memo holding a materialised container or the (generator, list) pair of the generator cache answers every '
         'reader the same (materialised_memo_replayable, generator_cache_replayable), one holding the generator '
         'itself does not (one_shot_memo_not_replayable); '
         'the dict keys that complete() offers in a subscript (put in front of the result as they come out of '
         'api/strings.py) are the same, in the same order, for every iteration order of the identity-hashed set of '
         'inferred values, because the keys of ALL dicts are sorted together where they are consumed '
         '(dict_keys_sorted_together_transcribed over the translator\'s reading of _completions_for_dicts / '
         '_get_python_keys / Completion.complete; dict_completions_perm_invariant FULL, '
         'dict_completions_src_perm_invariant; kernel-checked witness dict_completions_order_dependent_with_per_dict_sort: '
         'a sort per dict is not enough; single_dict_hides_where_the_sort_is: on one dict both agree; '
         'dict_completions_nodup); '
         'on acyclic dependency graphs the memoised evaluator answers independently of earlier queries '
         '(memo_order_independent_acyclic; 2-cycle witness). Tie: translator + correspondence on real Name '
         'objects, real primitives and the real dict-key completion functions + direct oracles (hash seeds, '
         'iteration orders of inferred value sets for infer / goto / subscript completion, query permutations).',
    note='Modelled not verified: CPython set/frozenset iteration order (universally quantified in the '
         'theorems, sampled by the oracles), which values inference produces, memo contents of real queries.',
    technique='Lean 4 proof over hand-written model + translator-generated constants + differential correspondence',
    design='5.C16')
LEAN_TARGETS = ['JediModel.Props.C16', 'JediModel.Drivers.C16']

QUERY_METHODS = ['infer', 'goto', 'complete', 'get_references', 'get_signatures', 'help']


# ----------------------------------------------------------------- canonical results

def canon(defs):
    out = []
    for d in defs:
        mp = d.module_path
        row = [str(mp) if mp is not None else None, d.line, d.column, d.name, d.type]
        if hasattr(d, 'params') and hasattr(d, 'index'):
            # a Signature: its parameters and the index of the current one are part of the answer
            row.append('params=%s index=%r' % (','.join(p.name for p in d.params), d.index))
        out.append(row)
    return out


def call_query(script, q, line, col):
    """q: the name of a Script method taking (line, column), or one of the position-less public
    queries: 'search:<string>', 'complete_search:<string>', 'get_names'; 'get_context' returns one Name"""
    if q.startswith('search:'):
        return list(script.search(q[len('search:'):]))
    if q.startswith('complete_search:'):
        return list(script.complete_search(q[len('complete_search:'):]))
    if q == 'get_names':
        return script.get_names(all_scopes=True, definitions=True, references=True)
    if q == 'get_context':
        return [script.get_context(line, col)]
    return getattr(script, q)(line, col)


def run_query(script, q, line, col):
    """-> ('ok', canonical list) | ('ValueError', msg) | ('raised', class@site)"""
    try:
        r = call_query(script, q, line, col)
        res = canon(r)      # reading .type / .module_path infers, too
    except ValueError as e:
        cls, site = common.exc_site(e)
        if site.startswith('api/helpers.py') or site == '':
            return ['ValueError', str(e)[:80]]      # position validation
        return ['raised', 'ValueError@%s' % site]
    except RecursionError:
        return ['raised', 'RecursionError']
    except Exception as e:
        cls, site = common.exc_site(e)
        return ['raised', '%s@%s' % (cls, site)]
    if q == 'goto':
        res = sorted(res, key=lambda t: json.dumps(t))
    if q == 'complete' or q.startswith('complete_search:'):
        res = res[:60]
    return ['ok', res]


SAME_NAMED_COMPLETION = ('same completion names and types in the same order, but a completion stands for a '
                         'different one of several same-named definitions')


def classify(a, b, q=None):
    """how two answers of the same query differ"""
    if a[0] != b[0]:
        return 'outcome differs'
    if a[0] != 'ok':
        return 'error text differs'
    ka = [t[:4] for t in a[1]]
    kb = [t[:4] for t in b[1]]
    if ka == kb:
        return 'eq-class-representative: same path/line/column/name, different type'
    if q is not None and q.split(':')[0] in ('complete', 'complete_search') \
            and [t[3:5] for t in a[1]] == [t[3:5] for t in b[1]]:
        return SAME_NAMED_COMPLETION
    if sorted(map(json.dumps, ka)) == sorted(map(json.dumps, kb)):
        return 'order differs'
    return 'different definitions'


# ----------------------------------------------------------------- controlled environment

class PrivateCache:
    """Points jedi.settings.cache_directory (parso's pickle cache of parsed files) at a directory of
    this run only.  The shared ~/.cache/jedi is written non-atomically by parso
    (`open(path, 'wb'); pickle.dump`) and read without a lock (`_load_from_file_system` only catches
    FileNotFoundError): while one process writes the pickle of e.g. os.py, another one that imports
    os gets `EOFError: Ran out of input` out of jedi.  That is a race between processes on a cold
    cache (reproduced: 3 concurrent cold processes, 5 of 15 rounds), not a property of the query,
    so no process of this check shares its cache directory with a concurrently running one."""

    def __enter__(self):
        import jedi.settings
        self.settings = jedi.settings
        self.old = jedi.settings.cache_directory
        self.dir = tempfile.mkdtemp(prefix='verif-c16-cache-', dir=os.environ.get('VERIF_SCRATCH') or None)
        jedi.settings.cache_directory = os.path.join(self.dir, 'parent')
        return self

    def child_dir(self, tag):
        """a private copy of the parent's (by now warm) cache: every child starts from the same files"""
        d = os.path.join(self.dir, 'child-%s' % tag)
        src = os.path.join(self.dir, 'parent')
        if os.path.isdir(src):
            shutil.copytree(src, d)
        else:
            os.makedirs(d)
        return d

    def __exit__(self, *a):
        self.settings.cache_directory = self.old
        shutil.rmtree(self.dir, ignore_errors=True)


class _Allowed:
    """wraps the context manager recursion.execution_allowed(...) as used by dynamic_params"""
    def __init__(self, cm, state):
        self.cm, self.state = cm, state

    def __enter__(self):
        allowed = self.cm.__enter__()
        if not allowed:
            d = self.state.__dict__
            d['_verif_dyn_blocked'] = d.get('_verif_dyn_blocked', 0) + 1
        return allowed

    def __exit__(self, *a):
        return self.cm.__exit__(*a)


class _RecursionProxy:
    """stands for the module jedi.inference.recursion inside dynamic_params only"""
    def __init__(self, real):
        self._real = real

    def __getattr__(self, name):
        return getattr(self._real, name)

    def execution_allowed(self, inference_state, node):
        return _Allowed(self._real.execution_allowed(inference_state, node), inference_state)


class SearchHook:
    """observes (without changing) the dynamic parameter search of every InferenceState: at which
    dynamic_params_depth the memoised call-site search dynamic_params._search_function_arguments is
    asked, and how often the recursion guard of dynamic_params._avoid_recursions blocks a re-entered
    lookup.  Only used to name the root cause of a difference found by the oracle."""

    def __enter__(self):
        from jedi.inference import dynamic_params
        self.mod = dynamic_params
        self.old = dynamic_params._search_function_arguments
        self.old_rec = dynamic_params.recursion
        old = self.old

        def search(module_context, funcdef, string_name, *more):
            st = module_context.inference_state
            st.__dict__.setdefault('_verif_search_depths', []).append((string_name, st.dynamic_params_depth))
            return old(module_context, funcdef, string_name, *more)
        dynamic_params._search_function_arguments = search
        dynamic_params.recursion = _RecursionProxy(self.old_rec)
        return self

    @staticmethod
    def depths(script):
        return [d for _, d in script._inference_state.__dict__.get('_verif_search_depths', [])]

    @staticmethod
    def blocked(script):
        return script._inference_state.__dict__.get('_verif_dyn_blocked', 0)

    def __exit__(self, *a):
        self.mod._search_function_arguments = self.old
        self.mod.recursion = self.old_rec


LEAK_CAUSE = 'dynamic_params_depth not zero at a query boundary'
BLOCKED_CAUSE = ('recursion guard blocked a re-entered dynamic parameter lookup and the empty default was '
                 'memoised; dynamic_params_depth zero at every query boundary')
NESTED_CAUSE = ('call-site search memoised at nested depth (fewer call sites); dynamic_params_depth zero at '
                'every query boundary')


ONE_SHOT_CAUSE = 'memo entry holds a one-shot iterator: '
# memoised functions known to store their generator as it is (known finding
# C16-pytest-modules-generator-memoised); everything else that shows up breaks the tie of the
# theorem memo_values_are_replayable
KNOWN_ONE_SHOT = {'jedi.plugins.pytest._iter_pytest_modules'}


def memo_one_shot(script):
    """names of the memoised functions for which InferenceState.memoize_cache holds a one-shot
    iterator (a generator object, map/filter/zip object ...) as the remembered VALUE: whoever reads
    the entry first consumes it, every later reader of the same key sees what is left.  (The tuple
    (generator, list) of inference_state_method_generator_cache is not one: it replays the list.)"""
    out = set()
    for fn, memo in list(script._inference_state.memoize_cache.items()):
        for v in list(memo.values()):
            if hasattr(type(v), '__next__'):      # on the type: ValueSet answers every getattr
                out.add('%s.%s' % (getattr(fn, '__module__', '?'), getattr(fn, '__qualname__', repr(fn))))
                break
    return sorted(out)


def dyn_cause(boundary_bad, depths, blocked=0, one_shot=()):
    """why answers that involve the dynamic parameter search / the memo can differ between histories"""
    if any('dynamic_params_depth' in b for b in boundary_bad):
        return LEAK_CAUSE
    if one_shot:
        return ONE_SHOT_CAUSE + ', '.join(one_shot)
    if blocked:
        return BLOCKED_CAUSE
    if any(d >= 2 for d in depths):
        return NESTED_CAUSE
    return 'no dynamic parameter lookup nested or blocked'


def same_answer(ctx, stream, key, a, b):
    """Are two answers of the same query the same result?  When BOTH are internal exceptions of jedi
    (in this sandbox mostly artefacts of the missing typeshed: ValueError in function.py:py__class__,
    RecursionError) the query has no result on either side; which exception it is, is C01's
    statement (totality), so that is counted, not judged."""
    if a == b:
        return True
    if a[0] == 'raised' and b[0] == 'raised':
        ctx.count('raised', (stream, key), nontrivial=False, bucket='both-internal-exceptions-differ:%s' % stream)
        return True
    return False


# ----------------------------------------------------------------- stream: sort

class FakeModuleCtx:
    def __init__(self, path, compiled):
        self._p, self._c = path, compiled

    def is_stub(self):
        return False

    def is_compiled(self):
        return self._c

    def py__file__(self):
        return self._p


class FakeInnerName:
    def __init__(self, pos, path, name, kind, api_type='statement'):
        self.start_pos = pos
        self._ctx = FakeModuleCtx(Path(path) if path is not None else None, path is None and pos is None)
        self._n = name
        self.kind = kind
        self.tree_name = None
        self.api_type = api_type

    def get_root_context(self):
        return self._ctx

    def get_public_name(self):
        return self._n


def stream_sort(ctx, reqs):
    from jedi.api import classes, helpers
    rng = ctx.subrng('sort')
    cases = []
    state = object()
    paths = [None, '/p/a.py', '/p/ab.py', '/p/b.py', '/p/a', '/é.py']
    names = ['x', 'X', 'xy', 'a', '_a', 'é', 'A']
    for i in range(ctx.size(1500, 20000)):
        k = rng.randint(0, 7)
        pool = []
        for _ in range(rng.randint(1, 4)):
            pos = None if rng.random() < 0.2 else (rng.randint(1, 12), rng.randint(0, 11))
            pool.append((pos, rng.choice(paths), rng.choice(names)))
        specs = []
        # names at the same place that differ only in the api type (a class and its instance, a
        # function and the property made of it) are what `__eq__` and the sort key must tell apart
        types = rng.sample(['class', 'instance', 'statement', 'function', 'property', 'module', 'param'],
                           rng.choice([1, 2, 2, 3]))
        for j in range(k):
            pos, path, name = rng.choice(pool)
            specs.append({'pos': list(pos) if pos else None, 'path': path, 'name': name, 'kind': j,
                          'api_type': rng.choice(types)})
        inner = [FakeInnerName(tuple(s['pos']) if s['pos'] else None, s['path'], s['name'], s['kind'], s['api_type'])
                 for s in specs]
        defs = [classes.Name(state, n) for n in inner]
        try:
            out = helpers.sorted_definitions(set(defs))
            impl = [d._name.kind for d in out]
        except Exception as e:
            impl = ['EXC', type(e).__name__]
        cases.append((('sort', specs), impl))
        reqs.append({'op': 'sort', 'names': specs})
        # direct oracle on the real function: any insertion order gives the same visible fields
        perm = list(defs)
        rng.shuffle(perm)
        try:
            out2 = helpers.sorted_definitions(set(perm))
            vis = lambda l: [(str(d.module_path), d.line, d.column, d.name, d.type) for d in l]
            if vis(out) != vis(out2):
                ctx.fail('sort', 'what sorted_definitions(set(defs)) shows (path, line, column, name, type) depends '
                         'on the order of defs', {'names': specs},
                         expected=vis(out), observed=vis(out2),
                         how='helpers.sorted_definitions(set(defs)) with classes.Name over synthetic inner names')
        except Exception:
            pass
    return cases


# ----------------------------------------------------------------- stream: machine

class Boom(Exception):
    pass


def gen_act(rng, depth=0, dyn=False):
    r = rng.random()
    if depth > 3 or r < 0.35:
        leaf = ['skip', 'execute', ['capped', rng.randrange(3)], ['capped', 0], 'raise', 'skip']
        if dyn:
            # inside a dynamic parameter lookup: the call-site search is what observes the counter
            leaf += [['searchArgs', rng.choice([1, 6, 7, 10, 11, 12, 20, 21, 25])]] * 4
        return rng.choice(leaf)
    if r < 0.6:
        return ['seq', gen_act(rng, depth + 1, dyn), gen_act(rng, depth + 1, dyn)]
    if r < 0.75:
        return ['predefine', gen_act(rng, depth + 1, dyn)]
    # a dynamic parameter lookup of one of three functions: nesting the same one is a recursion that
    # the guard blocks
    return ['dynParam', rng.randrange(3), gen_act(rng, depth + 1, True)]


class FakeModuleContext:
    def __init__(self, st):
        self.inference_state = st

    def create_context(self, name):
        return self


class SearchFakes:
    """lets the real dynamic_params._search_function_arguments run on synthetic call sites: the
    three helpers that need a syntax tree are replaced, the loop with the cut-off is the real one"""
    NAMES = ['_get_potential_nodes', '_check_name_for_execution', 'get_module_contexts_containing_name']

    def __enter__(self):
        import ast
        from jedi.inference import dynamic_params
        self.mod = dynamic_params
        self.old = [getattr(dynamic_params, n) for n in self.NAMES]
        dynamic_params._get_potential_nodes = \
            lambda module_value, string_name: iter([(('site', k), None) for k in range(self.sites)])
        dynamic_params._check_name_for_execution = \
            lambda inference_state, context, compare_node, name, trailer: iter([name])
        dynamic_params.get_module_contexts_containing_name = \
            lambda inference_state, module_contexts, name, limit_reduction=1: module_contexts
        # with proposed_fixes/c16-dynamic-params-depth-in-memo-key.diff the depth is a 4th argument
        with open(dynamic_params.__file__, encoding='utf-8') as f:
            tree = ast.parse(f.read())
        fn = [n for n in tree.body if isinstance(n, ast.FunctionDef) and n.name == '_search_function_arguments'][0]
        self.with_depth = len(fn.args.args) == 4
        return self

    def search(self, st, sites):
        self.sites = sites
        self.n = getattr(self, 'n', 0) + 1
        funcdef = C15.FakeFuncdef(5000 + self.n)
        args = (FakeModuleContext(st), funcdef, 'some_function')
        if self.with_depth:
            args += (st.dynamic_params_depth,)
        return len(self.mod._search_function_arguments(*args))

    def __exit__(self, *a):
        for n, v in zip(self.NAMES, self.old):
            setattr(self.mod, n, v)


def run_machine_impl(queries, cap_unused=None):
    """executes the query bodies with the real primitives on one fake InferenceState"""
    from jedi.inference import InferenceState, syntax_tree, dynamic_params
    from jedi.inference.context import AbstractContext
    from jedi.inference.base_value import NO_VALUES
    st = C15.FakeState()
    st.dynamic_params_depth = 0
    st.flow_analysis_enabled = True
    st.is_analysis = False
    holder = type('Ctx', (), {})()
    holder.predefined_names = {}
    nodes = {}
    dyn_nodes = {}
    marker = object()
    capped = syntax_tree._limit_value_infers(lambda context: marker)
    boundary = []

    def run(act, seen, fakes, uid=[0]):
        if act == 'skip' or act == 'memoise':
            return
        if act == 'raise':
            raise Boom()
        if act == 'execute':
            det = st.execution_recursion_detector
            det.push_execution(C15.FakeExecution(st, C15.FakeFuncdef(0), False, False))
            det.pop_execution()
            return
        kind = act[0]
        if kind == 'seq':
            run(act[1], seen, fakes)
            run(act[2], seen, fakes)
        elif kind == 'capped':
            node = nodes.setdefault(act[1], C15.FakeFuncdef(act[1]))
            c = C15.FakeContext(st, node, False)
            seen.append(capped(c) is marker)
        elif kind == 'predefine':
            uid[0] += 1
            with AbstractContext.predefine_names(holder, ('scope', uid[0]), {}):
                run(act[1], seen, fakes)
        elif kind == 'dynParam':
            fv = type('FV', (), {})()
            fv.inference_state = st
            fv.tree_node = dyn_nodes.setdefault(act[1], C15.FakeFuncdef(1000 + act[1]))
            entered = []

            def lookup(function_value, param_index):
                entered.append(True)
                seen.append(True)
                run(act[2], seen, fakes)
                return marker
            r = dynamic_params._avoid_recursions(lookup)(fv, 0)
            if not entered:
                seen.append(False)
                if r is not NO_VALUES:
                    raise common.InfraError('blocked _avoid_recursions did not return NO_VALUES')
        elif kind == 'searchArgs':
            k = fakes.search(st, act[1])
            seen.extend([True] * k + ([False] if k < act[1] else []))
        else:
            raise common.InfraError('unknown act %r' % (act,))
    out = []
    with SearchFakes() as fakes:
        for q in queries:
            InferenceState.reset_recursion_limitations(st)
            fresh = (st.execution_recursion_detector._execution_count == 0
                     and st.recursion_detector.pushed_nodes == [])
            seen = []
            raised = False
            try:
                run(q, seen, fakes)
            except Boom:
                raised = True
            out.append([raised, seen, fresh])
            boundary.append(st.dynamic_params_depth)
    return {'flow': st.flow_analysis_enabled, 'analysis': st.is_analysis,
            'predefined': len(holder.predefined_names), 'dyn': st.dynamic_params_depth,
            'pushed': len(st.recursion_detector.pushed_nodes),
            'queries': [[r, s] for r, s, f in out]}, all(f for r, s, f in out), st, boundary


def stream_machine(ctx, reqs, cap, factor):
    rng = ctx.subrng('machine')
    cases = []
    fixed = [
        # a lookup that re-enters itself (blocked), then a search over 12 call sites in the next query
        [['dynParam', 0, ['dynParam', 0, 'skip']], ['dynParam', 1, ['searchArgs', 12]]],
        [['dynParam', 0, ['seq', ['dynParam', 0, 'skip'], 'raise']], ['dynParam', 1, ['searchArgs', 21]]],
        [['dynParam', 0, ['dynParam', 1, ['dynParam', 0, ['searchArgs', 25]]]], ['dynParam', 0, ['searchArgs', 25]]],
        [['dynParam', 2, ['dynParam', 1, ['searchArgs', 11]]], ['searchArgs', 30]],
    ]
    for i in range(ctx.size(400, 6000)):
        if i < len(fixed):
            queries = fixed[i]
        else:
            nq = rng.randint(1, 8)
            queries = [gen_act(rng) for _ in range(nq)]
            if rng.random() < 0.05:
                queries = [['capped', 0]] * (cap + 2)
        impl, fresh, st, boundary = run_machine_impl(queries)
        case = {'queries': queries if len(queries) <= 8 else 'capped0 x %d' % len(queries)}
        # direct oracle of query_boundary_inv on the real object
        if not fresh:
            ctx.fail('machine', 'a query body did not start with fresh recursion bookkeeping', case, observed=impl)
        if not (impl['flow'] is True and impl['analysis'] is False and impl['predefined'] == 0 and impl['dyn'] == 0
                and st.recursion_detector.pushed_nodes == [] and not any(boundary)):
            # the mechanism (theorem query_boundary_inv) fails on the real primitives; whether the
            # property fails on a real query is decided by the session streams
            ctx.tie_broken('state:query_boundary_inv (machine)',
                           short({'case': case, 'state': impl, 'dynamic_params_depth after each query': boundary}, 1200))
        cases.append((('machine', case), impl))
        reqs.append({'op': 'session', 'cap': cap, 'factor': factor, 'queries': queries})
    return cases


# ----------------------------------------------------------------- stream: memoreplay

class MemoObj:
    """an object every memo decorator accepts as first argument"""
    def __init__(self):
        self.inference_state = C15.FakeState()
        self.memoize_cache = self.inference_state.memoize_cache


def real_decorator(name):
    from jedi.inference import cache as icache
    from jedi import cache as tcache, debug
    from jedi.inference import utils
    from jedi.inference.base_value import iterator_to_value_set
    table = {
        'inference_state_method_cache': lambda: icache.inference_state_method_cache(),
        'inference_state_function_cache': lambda: icache.inference_state_function_cache(),
        'memoize_method': lambda: tcache.memoize_method,
        'inference_state_method_generator_cache': lambda: icache.inference_state_method_generator_cache(),
        'to_list': lambda: utils.to_list, 'to_tuple': lambda: utils.to_tuple,
        'iterator_to_value_set': lambda: iterator_to_value_set,
        'increase_indent': lambda: debug.increase_indent,
    }
    return table[name]()


def decorate(decorators, one_shot, n):
    """the real decorators (outermost first) on a function producing 0 .. n-1"""
    if one_shot:
        def f(obj):
            for i in range(n):
                yield i
    else:
        def f(obj):
            return list(range(n))
    for d in reversed(decorators):
        f = real_decorator(d)(f)
    return f


def stream_memoreplay(ctx, reqs):
    """(a) a memoised function read by successive consumers that take k_i elements each, with the real
    decorators, vs Model.Determinism.Stored.reads; (b) random decorator stacks: do two complete reads
    give the same, complete result? vs Model.Determinism.stackReplayable (the predicate of the
    theorem memo_values_are_replayable)"""
    rng = ctx.subrng('memoreplay')
    cases = []
    kinds = {'plain': ['inference_state_method_cache'], 'function_cache': ['inference_state_function_cache'],
             'memoize_method': ['memoize_method'], 'to_list': ['inference_state_method_cache', 'to_list'],
             'to_tuple': ['memoize_method', 'to_tuple'], 'generator_cache': ['inference_state_method_generator_cache']}
    model_kind = {'plain': 'plain', 'function_cache': 'plain', 'memoize_method': 'plain', 'to_list': 'materialised',
                  'to_tuple': 'materialised', 'generator_cache': 'generator_cache'}
    for i in range(ctx.size(150, 2000)):
        kind = rng.choice(sorted(kinds))
        n = rng.randint(0, 5)
        reads = [rng.randint(0, n + 1) for _ in range(rng.randint(1, 4))]
        f = decorate(kinds[kind], True, n)
        obj = MemoObj()
        impl = [list(itertools.islice(f(obj), k)) for k in reads]
        case = {'kind': kind, 'n': n, 'reads': reads}
        cases.append((('memoreplay', case), impl))
        reqs.append({'op': 'memo', 'kind': model_kind[kind], 'n': n, 'reads': reads})
    names = ['inference_state_method_cache', 'inference_state_function_cache', 'memoize_method',
             'inference_state_method_generator_cache', 'to_list', 'to_tuple', 'iterator_to_value_set', 'increase_indent']
    for i in range(ctx.size(150, 2000)):
        decorators = [rng.choice(names) for _ in range(rng.randint(1, 3))]
        one_shot = rng.random() < 0.7
        n = rng.randint(1, 4)
        obj = MemoObj()
        try:
            f = decorate(decorators, one_shot, n)
            got = [sorted(f(obj)) for _ in range(3)]
            # the mechanism the theorem speaks about: no memo of the stack remembers a one-shot iterator
            # (an outer generator-aware memo can hide an inner one that does) - and then every read is complete
            stored = [v for memo in list(obj.memoize_cache.values()) + list(obj.__dict__.get('_memoize_method_dct', {}).values())
                      for v in memo.values()]
            holds_one_shot = any(hasattr(type(v), '__next__') for v in stored)
            impl = not holds_one_shot
            if impl and got != [list(range(n))] * 3:
                ctx.tie_broken('memostack: replayable memo values but different reads', short({'decorators': decorators, 'reads': got}))
        except TypeError:
            impl = False        # a generator-aware memo on a function that returns no iterator
        case = {'decorators': decorators, 'one_shot': one_shot, 'n': n}
        cases.append((('memostack', case), impl))
        reqs.append({'op': 'stack', 'decorators': decorators, 'one_shot': one_shot})
    return cases


# ----------------------------------------------------------------- programs and queries

EXTRA = [
    ("class-vs-instance", "class A: pass\ndef g(q):\n    if q: return A\n    return A()\nx = g(zz)\nx"),
    ("two-defs", "import os\nif os:\n    def f(): return 1\nelse:\n    def f(): return ''\nf\nf()"),
    ("multi-assign", "import os\nif os:\n    x = 1\nelif os.path:\n    x = ''\nelse:\n    x = [1]\nx"),
    ("param-union", "def f(a):\n    return a\nf(1)\nf('')\nf([])\ndef g(b):\n    return f(b)\ng(1.0)\nf"),
    ("flow-sensitive", "class A: pass\nclass B: pass\ndef g(q):\n    if q: return A\n    return B\nx = g(1)\nx\ng"),
    ("refs", "def foo(a):\n    return a\nfoo(1)\nx = foo\nclass K:\n    foo = foo\nK.foo\nfoo"),
]


def heavy_program():
    """4 assignment chains of 45 links: each `infer` at the end of a chain costs ~90 capped
    inferences in the module context, so the 4th query on one Script hits the cap of 300"""
    n, chains = 45, 4
    src = ""
    for c in range(chains):
        src += "c%d_0 = %d\n" % (c, c) + "".join("c%d_%d = c%d_%d\n" % (c, i, c, i - 1) for i in range(1, n))
    uses = []
    for c in range(chains):
        t = "c%d_%d" % (c, n - 1)
        src += t + "\n"
        uses.append((chains * n + c + 1, len(t)))
    return src.rstrip("\n"), uses


def exec_heavy_program():
    """6 groups of 40 distinct functions; `infer` at the loop variable of a group executes 40
    functions. Without the per-query reset of the execution budget (200 per query) the 6th query on
    one Script would run out of budget. Each group lives in its own function scope so that the
    per-context cap (known finding C16-cap-not-reset-per-query) is not what decides."""
    groups, per = 6, 40
    lines = []
    uses = []
    for g in range(groups):
        for i in range(per):
            lines.append("def f%d_%d():\n    return %d" % (g, i, i))
    for g in range(groups):
        lines.append("def grp%d():\n    y = (%s)\n    for z in y:\n        z"
                     % (g, ", ".join("f%d_%d()" % (g, i) for i in range(per))))
        src_so_far = "\n".join(lines)
        uses.append((src_so_far.count("\n") + 1, 9))
    return "\n".join(lines), uses


def programs(ctx, rng, n_graphs):
    out = []
    for label, src in P.FIXED + EXTRA:
        lines = src.split('\n')
        pos = C15.name_positions(src)
        out.append((label, src, pos))
    for i in range(n_graphs):
        src, uses, meta = P.gen_graph_program(rng, 14)
        pos = [(l, c) for (l, c, _) in uses] + rng.sample(C15.name_positions(src), 3)
        out.append(('graph-%d' % i, src, pos))
    return out


# ----------------------------------------------------------------- stream: order

class Ordered:
    """stands in for a ValueSet / an iterable of names: iterates in a fixed, chosen order"""
    def __init__(self, items):
        self.items = list(items)

    def __iter__(self):
        return iter(self.items)

    def __len__(self):
        return len(self.items)

    def __bool__(self):
        return bool(self.items)


class ForceOrder:
    """makes Script.infer / Script.goto see the inferred values / names in the order `pick(items)`, and
    Script.complete the values whose dict keys it offers in a subscript (api/strings.py:complete_dict)"""
    def __init__(self, pick):
        self.pick = pick
        self.sizes = []

    def __enter__(self):
        import jedi.api as api
        from jedi.api import strings
        self.api = api
        self.strings = strings
        self.old = (api.convert_values, api.convert_names)
        self.old_call_of_leaf = strings.infer_call_of_leaf

        def call_of_leaf(*a, **kw):
            # the values whose dict keys strings.complete_dict turns into the prefixed completions
            r = list(self.old_call_of_leaf(*a, **kw))
            self.sizes.append(len(r))
            return Ordered(self.pick(r))
        strings.infer_call_of_leaf = call_of_leaf

        def conv_values(values, **kw):
            r = list(self.old[0](values, **kw))
            self.sizes.append(len(r))
            return Ordered(self.pick(r))

        def conv_names(names, **kw):
            r = list(self.old[1](names, **kw))
            self.sizes.append(len(r))
            return self.pick(r)
        api.convert_values, api.convert_names = conv_values, conv_names
        return self

    def __exit__(self, *a):
        self.api.convert_values, self.api.convert_names = self.old
        self.strings.infer_call_of_leaf = self.old_call_of_leaf


def stable_key(v):
    n = v.name if hasattr(v, 'name') else v
    atom = getattr(v, 'atom', None)         # a dict / list literal: where it stands in the source
    return (str(getattr(n, 'start_pos', None)), type(v).__name__, getattr(n, 'string_name', ''),
            getattr(atom, 'start_pos', None) or (0, 0))


def stream_order(ctx):
    import jedi
    rng = ctx.subrng('order')
    progs = programs(ctx, rng, ctx.size(15, 200))
    how = ('harness/props/c16.py:ForceOrder(pick) around jedi.Script(source).<query>(line, column): the values '
           'that Script.infer/goto turn into Name objects are iterated in the order pick(values)')
    for label, src, positions in progs:
        if ctx.quick and len(positions) > 4:
            positions = rng.sample(positions, 4)
        for (line, col) in positions:
            for q in ('infer', 'goto'):
                base = None
                orders = [lambda r: sorted(r, key=stable_key), lambda r: sorted(r, key=stable_key)[::-1]]
                if not ctx.quick:
                    sub = ctx.subrng('order-%s-%d-%d' % (label, line, col))
                    orders.append(lambda r, sub=sub: sub.sample(r, len(r)))
                nmax = 0
                for oi, pick in enumerate(orders):
                    with ForceOrder(pick) as fo:
                        ans = run_query(jedi.Script(src), q, line, col)
                    nmax = max([nmax] + fo.sizes)
                    if base is None:
                        base = ans
                    elif not same_answer(ctx, 'order', (src, q, line, col), base, ans):
                        case = {'label': label, 'source': src, 'query': q, 'line': line, 'column': col}
                        ctx.fail('order', 'result depends on the iteration order of the value set: '
                                 + classify(base, ans), case, expected=base,
                                 observed={'difference': classify(base, ans), 'other_order': ans}, how=how)
                ctx.count('order', (src, q, line, col), nontrivial=nmax > 1, bucket='%s/values=%d' % (q, min(nmax, 4)),
                          sample={'label': label, 'query': q, 'line': line, 'column': col, 'answer': base})


# ----------------------------------------------------------------- stream: eqclass

def _both(name, line, col):
    return ['ok', [[None, line, col, name, 'class'], [None, line, col, name, 'instance']]]


# (label, source, query, line, column, the one answer every process / iteration order must give):
# the inferred values are a class and an instance of that class. Both are named by the class name
# (same path, line, column, name), they differ in the api type only. The former finding
# C16-eq-class-representative (= C02-class-and-instance-merged-by-api): Name.__eq__/__hash__ ignored
# the type, set(defs) kept whichever the identity-hashed value set yielded first.
EQ_PROBES = [
    ('class-vs-instance', "class A: pass\ndef g(q):\n    if q: return A\n    return A()\nx = g(zz)\nx",
     'infer', 6, 1, _both('A', 1, 6)),
    ('instance-vs-class', "class D:\n    pass\ndef k(q):\n    if q: return D()\n    return D\nr = k(zz)\nr",
     'infer', 7, 1, _both('D', 1, 6)),
    ('list-of-both', "class B: pass\ny = [B, B()]\nfor z in y:\n    z", 'infer', 4, 5, _both('B', 1, 6)),
    ('param-of-both', "class C: pass\ndef h(p):\n    return p\nh(C)\nh(C())\nh(C())", 'infer', 3, 12,
     _both('C', 1, 6)),
]


def stream_eqclass(ctx):
    """deterministic regression: every forced iteration order of the value set gives exactly the
    expected answer - both definitions, class first (the subprocess half is in stream_subproc)"""
    import jedi
    how = ('harness/props/c16.py:ForceOrder(pick) around jedi.Script(source).infer(line, column): the values '
           'that Script.infer turns into Name objects are iterated in the order pick(values)')
    for label, src, q, line, col, want in EQ_PROBES:
        orders = [('sorted', lambda r: sorted(r, key=stable_key)), ('reversed', lambda r: sorted(r, key=stable_key)[::-1]),
                  ('as-is', lambda r: r)]
        sub = ctx.subrng('eqclass-' + label)
        for k in range(ctx.size(2, 12)):
            orders.append(('shuffled-%d' % k, lambda r, sub=sub: sub.sample(r, len(r))))
        for oname, pick in orders:
            with ForceOrder(pick) as fo:
                ans = run_query(jedi.Script(src), q, line, col)
            ctx.count('eqclass', (label, oname), nontrivial=max(fo.sizes or [0]) > 1, bucket='in-process/%s' % label,
                      sample={'label': label, 'order': oname, 'answer': ans})
            if ans != want:
                ctx.fail('eqclass', 'a class and its instance are not both reported in the fixed order',
                         {'label': label, 'source': src, 'query': q, 'line': line, 'column': col},
                         expected=want, observed={'difference': classify(want, ans), 'order': oname, 'answer': ans},
                         how=how)


# ----------------------------------------------------------------- stream: dictkeys / keyorder

class FakeKeyValue:
    """one value of `dct.get_key_values()`"""
    NO_SAFE_VALUE = object()

    def __init__(self, v):
        self.v = v

    def get_safe_value(self, default=None):
        return default if self.v is self.NO_SAFE_VALUE else self.v


class FakeDictValue:
    def __init__(self, array_type, keys):
        self.array_type = array_type
        self.keys = keys

    def get_key_values(self):
        return iter([FakeKeyValue(k) for k in self.keys])


class _FakeInferenceState:
    builtins_module = None        # AbstractArbitraryName.__init__ reads it (parent_context of the name)


DK_LITERALS = ['', '', "'", '"', "'k", '"k', "'a", "b'", 'r"', "'''", '"""k', 'k', '1', "rb'", "f'ho", 'é"']
DK_KEYS = ['host', 'port', 'user', 'debug', 'k0', 'k1', 'ka', 'kb', 'a', 'ab', 'b', 'K', "it's", 'say "x"', 'x y', 'é',
           '', 'bk', "b'", 'back\\slash', 'tab\t', 0, 1, 2, 9, 10, 11, 100, -1, 1.5, -0.0, b'q', b'k1', b"it's", b'',
           True, None, 10 ** 20]


def real_dict_completions(literal, cut, dicts):
    """the real strings._completions_for_dicts over stand-ins for dict values, in the given order"""
    from jedi.api import strings
    vals = [FakeDictValue(d['array_type'], [FakeKeyValue.NO_SAFE_VALUE if k is None else k[0] for k in d['keys']])
            for d in dicts]
    try:
        return [c.name for c in strings._completions_for_dicts(_FakeInferenceState, Ordered(vals), literal, cut, fuzzy=False)]
    except Exception as e:
        return ['EXC', type(e).__name__]


def _show_dicts(ds):
    return [{'array_type': d['array_type'], 'keys': [None if k is None else repr(k[0]) for k in d['keys']]} for d in ds]


def stream_dictkeys(ctx, reqs):
    """the real strings._completions_for_dicts / _get_python_keys / _create_repr_string /
    _get_string_prefix_and_quote on synthetic dict values (keys of all safe-value types, dicts that
    share keys, non-dict values in between, keys without a safe value; every way a literal can be
    opened after the bracket) vs Model.Determinism.completionsForDicts; direct oracle on the real
    function: the dicts handed over in another order give the same completions in the same order"""
    rng = ctx.subrng('dictkeys')
    cases = []
    for i in range(ctx.size(500, 8000)):
        pool = rng.sample(DK_KEYS, rng.randint(2, 8))
        dicts = []
        for _ in range(rng.choice([0, 1, 2, 2, 2, 3, 3, 4])):
            keys = []
            for _ in range(rng.choice([0, 1, 2, 2, 3, 4])):
                k = rng.choice(pool)
                # a key is shipped as [value]; None = no safe value (the sentinel)
                keys.append(None if rng.random() < 0.08 else [k])
            dicts.append({'array_type': 'dict' if rng.random() < 0.9 else rng.choice(['list', 'tuple', 'set']),
                          'keys': keys})
        literal = rng.choice(DK_LITERALS)
        q = [x for x in ('"""', "'''", '"', "'") if x in literal][:1]
        cut = q[0] if q and rng.random() < 0.5 else ''
        impl = real_dict_completions(literal, cut, dicts)
        case = {'literal_string': literal, 'cut_end_quote': cut, 'dicts': _show_dicts(dicts)}
        cases.append((('dictkeys', case), impl))
        reqs.append({'op': 'dictkeys', 'literal': literal, 'cut': cut,
                     'dicts': [{'dict': d['array_type'] == 'dict', 'keys': d['keys']} for d in case['dicts']]})
        # direct oracle: any order of the (identity-hashed) set of dicts
        perms = [dicts[::-1]] + [rng.sample(dicts, len(dicts)) for _ in range(2)] if len(dicts) > 1 else []
        for perm in perms:
            other = real_dict_completions(literal, cut, perm)
            if other != impl:
                ctx.fail('dictkeys', 'the dict key completions (their order) depend on the iteration order of the set of '
                         'inferred dicts', {'literal_string': literal, 'cut_end_quote': cut, 'dicts': case['dicts'],
                                            'other_order': _show_dicts(perm)},
                         expected=impl, observed={'difference': 'order differs' if sorted(impl) == sorted(other)
                                                  else 'different completions', 'other_order_gives': other},
                         how='[c.name for c in jedi.api.strings._completions_for_dicts(state, dicts, literal_string, '
                             'cut_end_quote, fuzzy=False)] with stand-ins for the dict values (array_type, '
                             'get_key_values() -> objects with get_safe_value); see harness/props/c16.py:real_dict_completions')
                break
    return cases


KEYORDER_HOW = ('jedi.Script(source, project=<empty directory>).complete(line, column) (a) under '
                'harness/props/c16.py:ForceOrder(pick): the values whose dict keys are offered (result of '
                'infer_call_of_leaf in api/strings.py:complete_dict, a ValueSet hashed by object identity) are iterated in '
                'the order pick(values); (b) without any hook on fresh Scripts with allocations in between')


def dictkey_programs(rng, n):
    from gen import c16_dictkeys as DK
    specs = [('dictkeys-fixed-%d' % i, sp) for i, sp in enumerate(DK.fixed_specs())]
    for i in range(n):
        specs.append(('dictkeys-%d' % i, DK.gen_spec(rng)))
    return [(label, sp) + DK.build(sp) for label, sp in specs]


def stream_keyorder(ctx, cap, pcache):
    """direct oracle for completions that come out of a union of inferred values (subscript
    completion on a name with several dict values, gen/c16_dictkeys.py): the same complete() under
    every forced iteration order of the value set, on fresh Scripts with allocation noise in between,
    and again on one Script with other queries (also failing ones) in between"""
    rng = ctx.subrng('keyorder')
    junk = []
    probed = set()
    for label, spec, src, (line, col) in dictkey_programs(rng, ctx.size(10, 300)):
        mk = EmptyProject(pcache.dir, src)
        case = {'label': label, 'source': src, 'query': 'complete', 'line': line, 'column': col,
                'empty_project': True}
        orders = [('sorted', lambda r: sorted(r, key=stable_key)), ('reversed', lambda r: sorted(r, key=stable_key)[::-1])]
        if len(spec['dicts']) > 2:
            sub = ctx.subrng('keyorder-' + label)
            orders += [('shuffled-%d' % k, lambda r, sub=sub: sub.sample(r, len(r))) for k in range(ctx.size(1, 4))]
        base = None
        nmax = 0
        for oname, pick in orders:
            with ForceOrder(pick) as fo:
                ans = ask(mk(), ('complete', line, col))
            nmax = max([nmax] + fo.sizes)
            if base is None:
                base = ans
            elif not same_answer(ctx, 'keyorder', (src, line, col), base, ans):
                ctx.fail('keyorder', 'completions depend on the iteration order of the set of inferred values: '
                         + classify(base, ans, 'complete'), case, expected=base,
                         observed={'difference': classify(base, ans, 'complete'), 'order': oname, 'answer': ans},
                         how=KEYORDER_HOW)
                break
        # asked again on fresh Scripts: other object addresses
        for k in range(ctx.size(2, 4)):
            junk.append([object() for _ in range(rng.randint(1, 5000))])
            ans = ask(mk(), ('complete', line, col))
            if not same_answer(ctx, 'keyorder', (src, line, col, k), base, ans):
                ctx.fail('keyorder', 'completions differ between two fresh Scripts of one process: '
                         + classify(base, ans, 'complete'), case, expected=base,
                         observed={'difference': classify(base, ans, 'complete'), 'order': 'as the set iterates',
                                   'answer': ans}, how=KEYORDER_HOW)
                break
        nkeys = len([t for t in base[1] if t[4] == 'string']) if base and base[0] == 'ok' else 0
        ctx.count('keyorder', (src, line, col), nontrivial=nmax > 1 and nkeys > 1,
                  bucket='%s/typed=%s/dicts=%d/keys=%d' % (spec['shape'], spec['typed'] or 'nothing', min(nmax, 4), min(nkeys, 3)),
                  sample={'label': label, 'line': line, 'column': col, 'source': src, 'answer': short(base, 300)})
        # ... and on one Script, other queries in between (quick: every second program)
        nprog = getattr(stream_keyorder, '_n', 0)
        stream_keyorder._n = nprog + 1
        if ctx.quick and nprog % 2:
            continue
        nlines = src.count('\n') + 1
        q = ('complete', line, col)
        others = [('infer', line, max(col - len(spec['typed']) - 2, 0)), ('complete', nlines + 5, 0),
                  ('get_signatures', line, col), ('goto', 1, 2), ('help', line, 900)]
        sessions = [[q, rng.choice(others), q], [rng.choice(others), q, rng.choice(others), rng.choice(others), q]]
        run_sessions(ctx, 'session', label, src, sessions, Fresh(src, mk), [], cap, probed,
                     extra_case={'empty_project': True}, mk=mk)


# ----------------------------------------------------------------- stream: subproc

CHILD = r'''
import sys, json
noise = int(sys.argv[1])
junk = [object() for _ in range(noise)]
junk2 = [[i] * (i % 7) for i in range(noise % 1000)]
sys.path.insert(0, sys.argv[2]); sys.path.insert(0, sys.argv[3]); sys.path.insert(0, sys.argv[4])
from props import c16
import jedi
import jedi.settings
jedi.settings.cache_directory = sys.argv[5]      # private to this process, see c16.PrivateCache
cases = json.load(sys.stdin)
out = []
for src, q, line, col in cases:
    out.append(c16.run_query(jedi.Script(src), q, line, col))
json.dump(out, sys.stdout)
'''


def stream_subproc(ctx, pcache):
    rng = ctx.subrng('subproc')
    progs = programs(ctx, rng, ctx.size(10, 150))
    cases = [(src, q, line, col) for label, src, q, line, col, want in EQ_PROBES]
    dyn = [(label, src, queries) for label, src, queries, meta in DP.fixed_programs()]
    for i in range(ctx.size(3, 40)):
        src, queries, meta = DP.gen_program(rng)
        dyn.append(('dyn-%d' % i, src, queries))
    for label, src, queries in dyn:
        for (kind, fn, l, c) in queries:
            cases.append((src, 'infer', l, c))
    # completions out of a union of inferred values: subscript completion on several dicts
    for label, spec, src, (line, col) in dictkey_programs(ctx.subrng('subproc-dictkeys'), ctx.size(10, 150)):
        cases.append((src, 'complete', line, col))
    for label, src, positions in progs:
        if len(positions) > 2:
            positions = rng.sample(positions, 2 if ctx.quick else min(len(positions), 6))
        for (line, col) in positions:
            for q in (QUERY_METHODS if not ctx.quick else rng.sample(QUERY_METHODS, 3)):
                cases.append((src, q, line, col))
    seeds = [('0', 0), ('1', 1237), ('4242', 77003)] if ctx.quick else \
        [('0', 0), ('1', 1237), ('4242', 77003), ('random', 5), ('99', 31337), ('7', 400009)]
    procs = []
    for hs, noise in seeds:
        env = dict(os.environ)
        env['PYTHONHASHSEED'] = hs
        p = subprocess.Popen([sys.executable, '-c', CHILD, str(noise), common.REPO,
                              os.path.join(common.VERIF, 'harness'), common.VERIF,
                              pcache.child_dir('%s-%d' % (hs, noise))],
                             stdin=subprocess.PIPE, stdout=subprocess.PIPE, stderr=subprocess.PIPE,
                             env=env, text=True)
        procs.append((hs, noise, p))
    data = json.dumps(cases)
    results = []
    import threading
    outs = {}

    def comm(key, p):
        try:
            outs[key] = p.communicate(data, timeout=ctx.size(400, 2400))
        except subprocess.TimeoutExpired:
            p.kill()
            outs[key] = ('', 'timeout (machine under load?)\n' + p.communicate()[1])
    ths = [threading.Thread(target=comm, args=((hs, noise), p)) for hs, noise, p in procs]
    for t in ths:
        t.start()
    for t in ths:
        t.join()
    for hs, noise, p in procs:
        o, e = outs[(hs, noise)]
        if p.returncode != 0:
            raise common.InfraError('subprocess PYTHONHASHSEED=%s failed: %s' % (hs, e[-1500:]))
        results.append(json.loads(o))
        if len(results[-1]) != len(cases):
            raise common.InfraError('subprocess PYTHONHASHSEED=%s answered %d of %d cases' % (hs, len(results[-1]), len(cases)))
    how = ('PYTHONHASHSEED=<seed> python -c "<allocate noise objects>; jedi.Script(source).<query>(line, column)" '
           'in fresh processes; see harness/props/c16.py:CHILD')
    # the regression probes come first: every process must give exactly the expected answer
    for i, (label, src, q, line, col, want) in enumerate(EQ_PROBES):
        for (hs, noise, _), r in zip(procs, results):
            ctx.count('eqclass', (label, hs, noise), nontrivial=True, bucket='subprocess/%s' % label)
            if r[i] != want:
                ctx.fail('eqclass', 'a class and its instance are not both reported in the fixed order',
                         {'label': label, 'source': src, 'query': q, 'line': line, 'column': col},
                         expected=want, observed={'difference': classify(want, r[i]), 'PYTHONHASHSEED': hs,
                                                  'noise': noise, 'answer': r[i]}, how=how)
                break
    for i, (src, q, line, col) in enumerate(cases):
        base = results[0][i]
        ctx.count('subproc', (src, q, line, col), nontrivial=base[0] == 'ok' and len(base[1]) > 0,
                  bucket='%s/%s' % (q, base[0]),
                  sample={'query': q, 'line': line, 'column': col, 'answer': base, 'source': src[:300]})
        for (hs, noise), r in zip([(a, b) for a, b, _ in procs], results):
            if not same_answer(ctx, 'subproc', (src, q, line, col), base, r[i]):
                ctx.fail('subproc', 'result differs between processes: ' + classify(base, r[i]),
                         {'source': src, 'query': q, 'line': line, 'column': col},
                         expected=base, observed={'difference': classify(base, r[i]), 'PYTHONHASHSEED': hs,
                                                  'noise': noise, 'answer': r[i]}, how=how)
                break


# ----------------------------------------------------------------- stream: session

def state_defaults(script):
    st = script._inference_state
    bad = []
    if st.flow_analysis_enabled is not True:
        bad.append('flow_analysis_enabled=%r' % st.flow_analysis_enabled)
    if st.is_analysis is not False:
        bad.append('is_analysis=%r' % st.is_analysis)
    if st.dynamic_params_depth != 0:
        bad.append('dynamic_params_depth=%r' % st.dynamic_params_depth)
    if st.recursion_detector.pushed_nodes:
        bad.append('recursion_detector.pushed_nodes non-empty')
    det = st.execution_recursion_detector
    if det._recursion_level != 0 or det._parent_execution_funcs:
        bad.append('execution_recursion_detector stack non-empty')
    return bad


def ask(script, qq):
    """one query; used and fresh Scripts are asked through this same frame so that both run at the
    same interpreter stack depth (a RecursionError must not depend on who asks)"""
    return run_query(script, *qq)


class Fresh:
    """answers of fresh Scripts, one Script per query"""
    def __init__(self, src, mk=None):
        self.src = src
        self.mk = mk
        self.ans = {}
        self.depths = {}
        self.blocked = {}

    def __call__(self, qq):
        if qq not in self.ans:
            import jedi
            script = self.mk() if self.mk else jedi.Script(self.src)
            self.ans[qq] = ask(script, qq)
            self.depths[qq] = SearchHook.depths(script)
            self.blocked[qq] = SearchHook.blocked(script)
        return self.ans[qq]


BUDGET_HOW = ('jedi.Script(source, project=jedi.Project(<empty directory>)) for the used and the fresh Script; '
              'otherwise as the other session streams: ')
SESSION_HOW = ('s = jedi.Script(source); answers = [s.<query>(line, column) for each query of `session` in order]; '
               'compare the answer at index `at` with jedi.Script(source).<query>(line, column) on a fresh Script')


def run_sessions(ctx, stream, label, src, sessions, fresh, probes, cap, probed, extra_case=None, mk=None):
    """the direct oracle of the second sentence of C16: every answer given in a session on one Script
    equals the answer of a fresh Script; after every query the per-query state of the real
    InferenceState is checked (the mechanism query_boundary_inv is about)"""
    import jedi
    mk = mk or (lambda: jedi.Script(src))
    for sess in sessions:
        script = mk()
        internal = False
        boundary_bad = []
        for at, qq in enumerate(sess):
            ans = ask(script, qq)
            exp = fresh(qq)
            internal = internal or ans[0] == 'raised' or exp[0] == 'raised'
            case = {'label': label, 'source': src, 'session': [list(x) for x in sess], 'at': at,
                    'query': qq[0], 'line': qq[1], 'column': qq[2]}
            case.update(extra_case or {})
            bad = state_defaults(script)
            boundary_bad += bad
            if bad:
                # the mechanism the theorem query_boundary_inv is about no longer holds on the real
                # object; whether the *property* fails is decided by the answers compared below
                ctx.tie_broken('state:query_boundary_inv (%s)' % stream,
                               short({'label': label, 'session': [list(x) for x in sess], 'at': at, 'state': bad}, 800))
                # failing-input search: ask every probe right now and compare with a fresh Script
                if (label, tuple(bad)) not in probed:
                    probed.add((label, tuple(bad)))
                    prefix = [list(x) for x in sess[:at + 1]]
                    for pq in probes:
                        s2 = mk()
                        for qq2 in sess[:at + 1]:
                            ask(s2, qq2)
                        a = ask(s2, pq)
                        f = fresh(pq)
                        if not same_answer(ctx, stream, (label, pq), a, f) and a[0] == 'ok' and f[0] == 'ok':
                            c2 = {'label': label, 'source': src, 'session': prefix + [list(pq)], 'at': at + 1,
                                  'query': pq[0], 'line': pq[1], 'column': pq[2]}
                            c2.update(extra_case or {})
                            ctx.fail(stream, 'answer on a used Script differs from the answer of a fresh '
                                     'Script: ' + classify(f, a), c2, expected=f,
                                     observed={'difference': classify(f, a), 'answer': a, 'state': bad,
                                               'cap_state': 'n/a', 'history': 'state-leak',
                                               'cause': dyn_cause(bad, [])}, how=SESSION_HOW)
            nlines = src.count('\n') + 1
            if qq[1] > nlines or qq[1] < 1 or qq[2] > 400:
                if ans[0] != 'ValueError':
                    # C01's statement; only counted here
                    ctx.count('raised', (label, qq), nontrivial=False, bucket='out-of-range:%s' % ans[0])
            one_shot = memo_one_shot(script)
            if set(one_shot) - KNOWN_ONE_SHOT:
                # the mechanism the theorem memo_values_are_replayable is about no longer holds on the
                # real memo; whether the property fails is decided by the answers compared below
                ctx.tie_broken('state:memo_values_are_replayable (%s)' % stream,
                               short({'label': label, 'session': [list(x) for x in sess], 'at': at,
                                      'memoised one-shot iterators': one_shot}, 800))
            if not same_answer(ctx, stream, (label, tuple(sess), at), ans, exp):
                counts = script._inference_state.inferred_element_counts
                worst = max(counts.values() or [0])
                depths = SearchHook.depths(script) + fresh.depths.get(qq, [])
                blocked = SearchHook.blocked(script) + fresh.blocked.get(qq, 0)
                obs = {'difference': classify(exp, ans), 'answer': ans,
                       'inferred_element_counts_max': worst,
                       'cap_state': 'inferred_element_counts>cap' if worst > cap else 'below-cap',
                       'history': 'after-internal-exception' if internal else 'no-internal-exception',
                       'cause': dyn_cause(boundary_bad, depths, blocked, one_shot),
                       'search_depths_max': max(depths or [0]), 'blocked_lookups': blocked,
                       'boundary_state': sorted(set(boundary_bad))}
                ctx.fail(stream, 'answer on a used Script differs from the answer of a fresh Script: '
                         + classify(exp, ans), case, expected=exp, observed=obs, how=SESSION_HOW)
        ctx.count(stream, (src, tuple(sess)), nontrivial=len(set(sess)) > 1,
                  bucket='len=%d' % len(sess) if stream == 'session' else
                  'len=%d/searches=%d' % (min(len(sess), 5), min(len(SearchHook.depths(script)), 4)),
                  sample={'label': label, 'session': [list(x) for x in sess][:8]})


def stream_session(ctx, cap):
    rng = ctx.subrng('session')
    progs = programs(ctx, rng, ctx.size(12, 200))
    hsrc, huses = heavy_program()
    progs.append(('heavy-chains', hsrc, huses))
    esrc, euses = exec_heavy_program()
    progs.append(('exec-heavy', esrc, euses))
    probed = set()
    for label, src, positions in progs:
        nlines = src.count('\n') + 1
        pool = []
        if label in ('heavy-chains', 'exec-heavy'):
            pool = [('infer', l, c) for (l, c) in positions]
        else:
            for (line, col) in positions:
                for q in QUERY_METHODS:
                    pool.append((q, line, col))
            # failing queries: out-of-range positions must raise ValueError and leave no trace
            pool += [('infer', nlines + 3, 0), ('goto', 1, 500), ('complete', 0, 0), ('get_references', nlines, 999)]
        fresh = Fresh(src)
        sessions = []
        if label in ('heavy-chains', 'exec-heavy'):
            sessions = [list(pool), list(reversed(pool))]
        else:
            distinct = rng.sample(pool, min(len(pool), rng.randint(2, 4)))
            if len(distinct) <= 3 and not ctx.quick:
                sessions = [list(p) for p in itertools.permutations(distinct)]
            for _ in range(ctx.size(2, 6)):
                k = rng.randint(2, 8)
                sessions.append([rng.choice(distinct) for _ in range(k)])
        probes = [(q2, l2, c2) for (l2, c2) in positions[:12] for q2 in ('infer', 'goto')]
        run_sessions(ctx, 'session', label, src, sessions, fresh, probes, cap, probed)


def stream_dynsession(ctx, cap):
    """sessions on programs whose answers come from the dynamic parameter search: functions with more
    than 10 call sites with distinct argument classes, self- and mutually recursive functions, helper
    calls; queries on the parameters, asked in every order of every pair and in random longer
    sessions with repetitions"""
    rng = ctx.subrng('dynsession')
    probed = set()
    # corpus first: minimised past alarms / the shapes of known defects
    for path in sorted(Path(common.CORPUS_DIR, 'C16').glob('*.json')):
        if path.name.startswith('budget-'):
            continue        # inputs of stream budget
        with open(path, encoding='utf-8') as f:
            c = json.load(f)
        sessions = [[tuple(q) for q in sess] for sess in c['sessions']]
        probes = sorted({q for sess in sessions for q in sess})
        run_sessions(ctx, 'dynsession', c['label'], c['source'], sessions, Fresh(c['source']), probes, cap, probed,
                     extra_case={'has_nested_helper_call': 'nested' in c['label']})
    progs = [(label, src, queries, meta) for label, src, queries, meta in DP.fixed_programs()]
    for i in range(ctx.size(8, 120)):
        src, queries, meta = DP.gen_program(rng)
        progs.append(('dyn-%d' % i, src, queries, meta))
    for label, src, queries, meta in progs:
        params = [('infer', l, c) for (kind, fn, l, c) in queries]
        pool = list(params)
        for (kind, fn, l, c) in queries:
            pool.append((rng.choice(['help', 'goto', 'get_references', 'complete']), l, c))
        nlines = src.count('\n') + 1
        pool.append(('infer', nlines + 2, 0))      # ValueError in between must leave no trace
        fresh = Fresh(src)
        pairs = [[a, b] for a in params for b in params if a != b]
        if ctx.quick and len(pairs) > 12:
            pairs = rng.sample(pairs, 12)
        sessions = pairs
        for _ in range(ctx.size(3, 10)):
            k = rng.randint(3, 8)
            sessions.append([rng.choice(pool) for _ in range(k)])
        # a query asked after every other parameter was asked (and asked again)
        sessions.append(list(params) + list(params))
        sessions.append(list(reversed(params)))
        nested = any(f['kind'] == 'nested' for f in meta['functions'])
        run_sessions(ctx, 'dynsession', label, src, sessions, fresh, params, cap, probed,
                     extra_case={'has_nested_helper_call': nested})


# ----------------------------------------------------------------- stream: budget

BUDGET_MEASURE = {'perfunc': 'per_function_max', 'total': 'executions', 'cap': 'context_inferences_max'}


def budget_used(script):
    """what the real per-query bookkeeping of the Script's InferenceState says right now"""
    st = script._inference_state
    det = getattr(st, 'execution_recursion_detector', None)
    per = getattr(det, '_funcdef_execution_counts', None) or {}
    cnt = getattr(st, 'inferred_element_counts', None) or {}
    return {'blocked_executions': st.__dict__.get('_verif_blocked_executions', 0),
            'executions': getattr(det, '_execution_count', 0),
            'per_function_max': max(list(per.values()) or [0]),
            'context_inferences_max': max(list(cnt.values()) or [0])}


def budget_item(item):
    """worker of common.parallel_map (fresh interpreter): the sessions of one budget program on the
    real jedi; every query also on a fresh Script. -> per session, per query: both answers, the
    switches, and what the real bookkeeping counted"""
    if item is None:
        return None
    import jedi
    import jedi.settings
    jedi.settings.cache_directory = item['cache']
    BlockedHook.install()
    src = BG.build(item['spec'])['source']
    mk = EmptyProject(item['cache'], src)
    fresh = {}

    def fresh_of(qq):
        k = json.dumps(qq)
        if k not in fresh:
            s = mk()
            fresh[k] = (ask(s, tuple(qq)), budget_used(s))
        return fresh[k]
    recs = []
    for sess in item['sessions']:
        s = mk()
        steps = []
        for qq in sess:
            before = bookkeeping_objects(s)
            b0 = budget_used(s)['blocked_executions']
            a = ask(s, tuple(qq))
            after = bookkeeping_objects(s)
            used = budget_used(s)
            used['blocked_executions'] -= b0        # of this query
            exp, fused = fresh_of(qq)
            steps.append({'ans': a, 'exp': exp, 'state': state_defaults(s), 'used': used, 'fresh_used': fused,
                          'not_recreated': sorted(k for k in before if before[k] is after[k])})
        recs.append(steps)
    return recs


class EmptyProject:
    """Scripts of `src` in a project of their own: an empty directory.  With the default project (the
    directory the check is started from) get_references and the dynamic parameter search open and
    parse up to 30 files of that directory that contain the name - slow, and not part of the input"""
    def __init__(self, base, src):
        self.dir = os.path.join(base, 'empty-project')
        os.makedirs(self.dir, exist_ok=True)
        self.src = src

    def __call__(self):
        import jedi
        return jedi.Script(self.src, project=jedi.Project(self.dir))


BOOKKEEPING = ('execution_recursion_detector', 'recursion_detector', 'inferred_element_counts')


def bookkeeping_objects(script):
    """the objects InferenceState.reset_recursion_limitations re-creates; a query method that reset
    leaves NEW objects behind (identity is what is compared, nothing is changed)"""
    st = script._inference_state
    return {k: getattr(st, k, None) for k in BOOKKEEPING}


class BlockedHook:
    """observes (without changing the result) how often ExecutionRecursionDetector.push_execution
    answers `limit reached`; counted per InferenceState"""
    done = False

    @classmethod
    def install(cls):
        if cls.done:
            return
        from jedi.inference import recursion
        orig = recursion.ExecutionRecursionDetector.push_execution

        def push_execution(self, execution):
            r = orig(self, execution)
            if r:
                d = self._inference_state.__dict__
                d['_verif_blocked_executions'] = d.get('_verif_blocked_executions', 0) + 1
            return r
        recursion.ExecutionRecursionDetector.push_execution = push_execution
        cls.done = True


def budget_level(family, limit, used):
    """how far the measured bookkeeping is from the limit: '<n-1', 'n-1', 'n', '>n'"""
    key = BUDGET_MEASURE.get(family)
    if key is None:
        return 'n/a'
    v = used[key]
    if family == 'cap':
        # one more query needs a handful of inferences: within 8 of the cap counts as the boundary
        return '>=n' if v >= limit else ('n-8..n-1' if v >= limit - 8 else '<n-8')
    return '>n' if v > limit else ('n' if v == limit else ('n-1' if v == limit - 1 else '<n-1'))


SINGLE_QUERY_OVER_BUDGET = ('bookkeeping re-created by every query; a single query ran into a per-query limit by itself '
                            'and what it had computed up to there stays in the memo of the Script')


class BudgetRun:
    """stream budget: starts the workers (they run while the in-process streams run), judges later"""
    JOBS = 8

    def __init__(self, ctx, pcache):
        self.ctx = ctx
        rng = ctx.subrng('budget')
        self.lim = BG.limits(common.REPO)
        items = []
        for spec in BG.boundary_specs(self.lim, ctx.quick):
            if ctx.quick and spec['family'] == 'perfunc':
                # quick: one shape per delta, chosen by the seed (thorough: all of them)
                if spec['shape'] != rng.choice(BG.SHAPES) and rng.random() < 0.7:
                    continue
            prog = BG.build(spec)
            sessions = BG.sessions(rng, prog, ctx.quick, spec['family'])
            size = 2 if spec['family'] == 'total' else 12
            for i in range(0, len(sessions), size):
                items.append({'spec': spec, 'sessions': sessions[i:i + size]})
        # corpus: minimised regression inputs of this stream
        for path in sorted(Path(common.CORPUS_DIR, 'C16').glob('budget-*.json')):
            with open(path, encoding='utf-8') as f:
                c = json.load(f)
            items.append({'spec': c['spec'], 'sessions': c['sessions'], 'label': c['label']})
        dirs = [pcache.child_dir('budget-%d' % k) for k in range(self.JOBS)]      # one per worker process
        for n, it in enumerate(items):
            it['cache'] = dirs[n % self.JOBS]
        # parallel_map cuts the list into equal contiguous chunks: deal the items round-robin into
        # JOBS buckets and pad them (None) to the same length >= 20
        buckets = [items[k::self.JOBS] for k in range(self.JOBS)]
        width = max(20, max(len(b) for b in buckets))
        self.padded = []
        for b in buckets:
            self.padded += b + [None] * (width - len(b))
        self.out = self.err = None
        import threading
        self.thread = threading.Thread(target=self._work, daemon=True)
        self.thread.start()

    def _work(self):
        try:
            self.out = common.parallel_map('props.c16', 'budget_item', self.padded, jobs=self.JOBS,
                                           timeout=self.ctx.size(1500, 6000))
        except BaseException as e:      # re-raised in finish()
            self.err = e

    def finish(self):
        ctx = self.ctx
        self.thread.join()
        if self.err is not None:
            raise self.err
        for item, recs in zip(self.padded, self.out):
            if item is None:
                continue
            spec = item['spec']
            fam = spec['family']
            src = BG.build(spec)['source']
            label = item.get('label') or 'budget-%s%+d-%s' % (fam, spec['delta'], spec.get('shape', ''))
            for sess, steps in zip(item['sessions'], recs):
                prev_level = 'first-query'
                hits = []
                for at, (qq, st) in enumerate(zip(sess, steps)):
                    ans, exp = st['ans'], st['exp']
                    method = qq[0].split(':')[0]
                    case = {'label': label, 'source': src, 'session': [list(x) for x in sess], 'at': at,
                            'query': qq[0], 'line': qq[1], 'column': qq[2], 'family': fam, 'limit': spec['n'],
                            'delta': spec['delta'], 'shape': '%s/%s' % (fam, method)}
                    if st['state']:
                        ctx.tie_broken('state:query_boundary_inv (budget)',
                                       short({'label': label, 'session': case['session'], 'at': at, 'state': st['state']}, 800))
                    # the mechanism (theorem every_query_starts_with_fresh_budget): every public query
                    # method re-creates the bookkeeping objects.  Not judged: position validation raises
                    # before the method body runs; get_context infers nothing and does not reset.
                    stale = st['not_recreated'] if ans[0] != 'ValueError' and method != 'get_context' else []
                    if stale:
                        ctx.tie_broken('state:every_query_starts_with_fresh_budget (budget): Script.%s did not re-create %s'
                                       % (method, ', '.join(stale)),
                                       short({'label': label, 'session': case['session'], 'at': at,
                                              'counted_after_the_query': st['used'],
                                              'same_query_on_a_fresh_Script': st['fresh_used']}, 900))
                    # did a single query run into a limit all by itself (on this Script so far, or
                    # this query on the fresh Script)?
                    cap = self.lim['node_cap']
                    hit = lambda u: u['blocked_executions'] > 0 or u['context_inferences_max'] > cap
                    if hit(st['used']):
                        hits.append(at)
                    ok = same_answer(ctx, 'budget', (label, json.dumps(sess), at), ans, exp)
                    ctx.count('budget', (src, json.dumps(sess), at),
                              nontrivial=prev_level in ('n-1', 'n', '>n', '>=n', 'n-8..n-1', 'n/a') and exp[0] == 'ok' and len(exp[1]) > 0,
                              bucket='%s/before=%s/%s' % (fam, prev_level, method),
                              sample={'label': label, 'session': case['session'], 'at': at, 'answer': short(ans, 200)})
                    if not ok:
                        diff = classify(exp, ans, qq[0])
                        if stale:
                            cause = ('Script.%s did not re-create %s: it ran with the bookkeeping the queries before it '
                                     'left behind' % (method, ', '.join(stale)))
                        elif diff == SAME_NAMED_COMPLETION:
                            cause = 'bookkeeping re-created; ' + SAME_NAMED_COMPLETION
                        elif hits or hit(st['fresh_used']):
                            cause = SINGLE_QUERY_OVER_BUDGET
                        else:
                            cause = 'bookkeeping re-created by every query and no query ran into a limit by itself'
                        obs = {'difference': diff, 'answer': ans,
                               'budget_level_left_by_the_query_before': prev_level,
                               'counted_after_the_query': st['used'],
                               'same_query_on_a_fresh_Script_counted': st['fresh_used'],
                               'queries_of_the_session_that_ran_into_a_limit_by_themselves': list(hits),
                               'limits': self.lim, 'cause': cause, 'boundary_state': st['state']}
                        ctx.fail('budget', 'answer on a used Script differs from the answer of a fresh Script: '
                                 + diff, case, expected=exp, observed=obs, how=BUDGET_HOW + SESSION_HOW)
                    prev_level = budget_level(fam, spec['n'], st['used']) if ans[0] != 'ValueError' else prev_level


# ----------------------------------------------------------------- stream: fault

class MemoProject:
    """the files of one c16_memo program in a directory of their own, with a jedi.Project on it"""
    def __init__(self, base, n, prog):
        import jedi
        self.dir = os.path.join(base, 'p%d' % n)
        os.makedirs(self.dir)
        for name, text in prog['files'].items():
            with open(os.path.join(self.dir, name), 'w', encoding='utf-8') as f:
                f.write(text)
        self.project = jedi.Project(self.dir)
        self.main = prog['main']
        self.path = os.path.join(self.dir, 'main.py')

    def __call__(self):
        import jedi
        return jedi.Script(self.main, path=self.path, project=self.project)


def memo_sessions(ctx, rng, prog, quick):
    """sessions of DISTINCT queries at different use sites of the same definitions"""
    by = {}
    for (f, i, k, kind, q, l, c) in prog['queries']:
        by.setdefault((f, i), {}).setdefault(k, {})[kind] = (q, l, c)
    sessions = []
    for (f, i), uses in sorted(by.items()):
        ks = sorted(uses)
        for a in ks:
            for b in ks:
                if a == b:
                    continue
                cand = [[uses[a]['value'], uses[b]['value']],
                        [uses[a]['attr'], uses[b]['value']],
                        [uses[a].get('attr-complete', uses[a]['attr']), uses[b]['attr']],
                        [uses[a]['value'], uses[a]['value'], uses[b]['attr'], uses[b]['value']]]
                sessions += [cand[0], rng.choice(cand[1:])] if quick else cand
    allq = [(q, l, c) for (f, i, k, kind, q, l, c) in prog['queries']]
    for _ in range(1 if quick else 6):
        perm = rng.sample(allq, min(8, len(allq)))      # a permutation of up to 8 distinct queries
        sessions.append(perm)
        sessions.append(list(reversed(perm)))
    return sessions


def stream_memosession(ctx, cap, pcache):
    """every way a value reaches a name through a memo (gen/c16_memo.py), each definition used at
    several sites; sessions of distinct queries on one Script vs a fresh Script per query; after every
    query the real memo is scanned for remembered one-shot iterators"""
    rng = ctx.subrng('memosession')
    specs = [('memo-cover-%d' % i, sp) for i, sp in enumerate(MP.coverage_specs())]
    for i in range(ctx.size(3, 60)):
        specs.append(('memo-%d' % i, MP.gen_spec(rng, with_pytest=rng.random() < 0.2)))
    base = os.path.join(pcache.dir, 'memo-programs')
    os.makedirs(base)
    probed = set()
    for n, (label, spec) in enumerate(specs):
        prog = MP.build(spec)
        mk = MemoProject(base, n, prog)
        fresh = Fresh(prog['main'], mk)
        sessions = memo_sessions(ctx, rng, prog, ctx.quick)
        probes = [(q, l, c) for (f, i, k, kind, q, l, c) in prog['queries'] if kind == 'value']
        run_sessions(ctx, 'memosession', label, prog['main'], sessions, fresh, probes, cap, probed,
                     extra_case={'files': prog['files'], 'families': sorted({f for f, _ in spec})}, mk=mk)


class Injected(BaseException):
    pass


def stream_fault(ctx):
    import jedi
    rng = ctx.subrng('fault')
    progs = [(label, src, positions, None) for label, src, positions in programs(ctx, rng, ctx.size(6, 80))]
    # exceptions in the middle of a dynamic parameter lookup
    dyn = DP.fixed_programs() + [('dyn-%d' % i,) + DP.gen_program(rng) for i in range(ctx.size(2, 30))]
    progs += [(label, src, [(l, c) for (k, f, l, c) in queries], 'infer') for label, src, queries, meta in dyn]
    for label, src, positions, only in progs:
        if not positions:
            continue
        line, col = rng.choice(positions)
        q = only or rng.choice(['infer', 'goto', 'get_references', 'complete'])
        with C15.InferCounter() as counter:
            script = jedi.Script(src)
            k0, v0, _ = C15.guarded(lambda: run_query(jedi.Script(src), q, line, col), 30)
            total = counter.total
            if k0 != 'ok' or total == 0:
                continue
            k = rng.randint(1, total)
            # re-arm the counting cell so that the k-th entry raises
            state = {'n': 0}
            cells = [(c, c.cell_contents) for c, _ in counter.cells]

            def arm(orig):
                def f(context, *a, **kw):
                    state['n'] += 1
                    if state['n'] == k:
                        raise Injected()
                    return orig(context, *a, **kw)
                return f
            for c, cur in cells:
                c.cell_contents = arm(cur)
            try:
                try:
                    getattr(script, q)(line, col)
                    fired = False
                except Injected:
                    fired = True
                except Exception:
                    fired = state['n'] >= k
            finally:
                for c, cur in cells:
                    c.cell_contents = cur
            bad = state_defaults(script)
            # recursion stacks are allowed to be stale until the next query resets them; the switches
            # and the statement stack are not
            bad = [b for b in bad if 'execution_recursion_detector' not in b]
            ctx.count('fault', (src, q, line, col, k), nontrivial=fired, bucket='%s/%s' % (q, 'fired' if fired else 'not-reached'),
                      sample={'label': label, 'query': q, 'line': line, 'column': col, 'k': k, 'of': total})
            if fired and bad:
                ctx.tie_broken('state:query_boundary_inv (fault)',
                               short({'label': label, 'query': q, 'line': line, 'column': col, 'raise_at_step': k,
                                      'state': bad}, 800))
                # failing-input search: does a later query on this Script now answer differently?
                for (l2, c2) in positions[:6]:
                    for q2 in ('infer', 'goto'):
                        a = run_query(script, q2, l2, c2)
                        f = run_query(jedi.Script(src), q2, l2, c2)
                        if not same_answer(ctx, 'fault', (src, q2, l2, c2), f, a) and a[0] == 'ok' and f[0] == 'ok':
                            ctx.fail('fault', 'after a query that raised, the same Script answers differently: '
                                     + classify(f, a),
                                     {'label': label, 'source': src, 'failed_query': [q, line, col],
                                      'raise_at_step': k, 'query': q2, 'line': l2, 'column': c2},
                                     expected=f, observed={'difference': classify(f, a), 'answer': a, 'state': bad,
                                                           'cause': dyn_cause(bad, [])},
                                     how='raise at the k-th entry of the _infer_node/infer_expr_stmt body '
                                         '(closure cell hook) during failed_query, then ask query')


# ----------------------------------------------------------------- driver

def compare(ctx, cases, answers):
    for (key, impl), ans in zip(cases, answers):
        stream = key[0]
        if isinstance(ans, dict) and ('protocol_error' in ans or 'error' in ans):
            raise common.InfraError('driver error: %r' % ans)
        if stream == 'sort':
            dup = len(key[1]) - len(impl) if impl and impl[0] != 'EXC' else 0
            ctx.count('sort', key[1], nontrivial=len(key[1]) > 1, bucket='n=%d/dups=%d' % (min(len(key[1]), 5), min(dup, 3)),
                      sample={'names': key[1], 'result_kinds': impl})
        elif stream == 'memoreplay':
            c = key[1]
            ctx.count('memoreplay', c, nontrivial=len(c['reads']) > 1 and c['n'] > 0,
                      bucket='%s/reads=%d' % (c['kind'], len(c['reads'])), sample={'case': c, 'reads_see': impl})
        elif stream == 'dictkeys':
            c = key[1]
            nd = len([d for d in c['dicts'] if d['array_type'] == 'dict'])
            ctx.count('dictkeys', c, nontrivial=nd > 1 and len(impl) > 1,
                      bucket='dicts=%d/completions=%d/literal=%s' % (min(nd, 3), min(len(impl), 3), c['literal_string'] or 'none'),
                      sample={'case': c, 'completions': impl})
        elif stream == 'memostack':
            c = key[1]
            ctx.count('memostack', c, nontrivial=True, bucket='replayable=%s/one_shot=%s' % (impl, c['one_shot']),
                      sample={'case': c, 'replayable': impl})
        else:
            ctx.count('machine', key[1], nontrivial=any(r for r, s in impl['queries']) or any(not all(s) for r, s in impl['queries']),
                      bucket='q=%d' % min(len(impl['queries']), 9), sample={'case': key[1], 'result': impl})
        if ans != impl:
            ctx.tie_broken('correspondence:' + stream, short({'case': key[1], 'impl': impl, 'model': ans}, 1500))


def source_cap():
    import ast
    from translator import extract
    cap, factor = 300, 100
    try:
        src = extract.Src(common.REPO, 'jedi/inference/syntax_tree.py')
        fn = src.find('_limit_value_infers.wrapper')
        for n in ast.walk(fn):
            if isinstance(n, ast.Assign) and ast.unparse(n.targets[0]) == 'maximum':
                cap = ast.literal_eval(n.value)
            if isinstance(n, ast.AugAssign) and ast.unparse(n.target) == 'maximum':
                factor = ast.literal_eval(n.value)
    except Exception:
        pass
    return cap, factor


def run(ctx):
    reqs = []
    cases = []
    cap, factor = source_cap()
    import time
    walls = []

    # debugging aid: VERIF_C16_ONLY=budget,session runs only the named streams (never set by ./check)
    only = [x for x in os.environ.get('VERIF_C16_ONLY', '').split(',') if x]

    def timed(name, fn, *a):
        t0 = time.time()
        if only and name.split('-')[0] not in only:
            return []
        try:
            return fn(*a)
        finally:
            walls.append('%s=%.1fs' % (name, time.time() - t0))
    cases += timed('sort', stream_sort, ctx, reqs)
    cases += timed('machine', stream_machine, ctx, reqs, cap, factor)
    cases += timed('memoreplay', stream_memoreplay, ctx, reqs)
    cases += timed('dictkeys', stream_dictkeys, ctx, reqs)
    with PrivateCache() as pcache, SearchHook():
        budget = timed('budget-start', BudgetRun, ctx, pcache)
        timed('eqclass', stream_eqclass, ctx)
        timed('order', stream_order, ctx)
        timed('keyorder', stream_keyorder, ctx, cap, pcache)
        timed('session', stream_session, ctx, cap)
        timed('dynsession', stream_dynsession, ctx, cap)
        timed('memosession', stream_memosession, ctx, cap, pcache)
        try:
            timed('fault', stream_fault, ctx)
        except common.TieBroken as e:
            ctx.tie_broken('hook:' + e.what, e.detail)
        timed('subproc', stream_subproc, ctx, pcache)
        if budget:
            timed('budget-finish', budget.finish)
    ctx.notes.append('string hash randomisation of this (parent) process: %s; the subprocesses of stream subproc run under '
                     'fixed PYTHONHASHSEED values' % ('on' if sys.flags.hash_randomization else 'off'))
    if only:
        ctx.notes.append('VERIF_C16_ONLY=%s: PARTIAL RUN' % only)
    if ctx.model_ok and reqs:
        answers = common.run_driver_parallel('C16', reqs)
        compare(ctx, cases, answers)
    else:
        ctx.notes.append('model did not build: correspondence skipped, oracle only')
    ctx.notes.append('wall per stream: ' + ' '.join(walls))
    ctx.obligations['assumptions'] = [
        'CPython set/frozenset iteration order is universally quantified in the theorems (any order, any '
        'representative); the oracles sample it: forced orders in-process, PYTHONHASHSEED and allocation noise '
        'across processes',
        'which values inference produces, and the memo contents of real queries, are not modelled; stream '
        'session compares every answer on a used Script with a fresh Script',
        'well-formedness of names (1-based lines, non-empty path strings) is assumed by key_injective; stream '
        'sort generates only such names, the e2e streams would show a violation as an order difference',
        'memoised results of the dynamic parameter search are not modelled (two known findings: recursion default '
        'memoised, search truncated at nested depth); the model covers the depth counter and the recursion guard, '
        'stream dynsession compares real answers',
        'memo table: "hands out a one-shot iterator" is decided syntactically per function (yield / yield from, '
        'return of a generator expression or of map/filter/zip/iter/chain); a function that returns the result of '
        'calling another generator function is not seen statically - the scan of the real memo after every query of '
        'the session streams (memo_one_shot) is what covers it; undecorated ad-hoc caches (dict attributes) are not '
        'in the table',
        'execution budget: the model speaks about the decisions of push_execution given the trace of executions a query '
        'makes; which executions a query makes depends on the memo (a warm memo saves executions), which is not '
        'modelled - stream budget compares real answers, and the two ways this shows on the unchanged jedi are the '
        'known findings C16-single-query-over-budget-memoised / C16-same-named-completion-representative',
        'dict key completions: a key is modelled by repr(key); isinstance(key, (str, bytes)) is read off the repr '
        '(true for the safe values str, bytes, numbers, bool, None - stream dictkeys generates all of them); \\w of the '
        'prefix regex is modelled on ASCII + Latin-1 letters; which values the expression before the bracket is inferred '
        'to is not modelled (stream keyorder / subproc run the real complete())',
        'flow_analysis_enabled / is_analysis blocks are inline try/finally statements (no callable primitive): '
        'checked by fault injection on real queries (stream fault), not by the machine correspondence',
    ]


def replay(ctx, payload):
    import jedi
    inp = payload['input']
    if 'session' in inp:
        with PrivateCache() as pcache, SearchHook():
            mk = lambda: jedi.Script(inp['source'])
            if inp.get('family') or inp.get('empty_project'):
                # stream budget / keyorder: the Script lives in an empty project
                mk = EmptyProject(pcache.dir, inp['source'])
            if inp.get('family'):
                BlockedHook.install()
            if inp.get('files'):
                # a c16_memo program: its files in a directory of their own, main.py given as text
                mk = MemoProject(pcache.dir, 0, {'files': inp['files'], 'main': inp['source']})
            s = mk()
            ndiff = 0
            for i, qq in enumerate(inp['session']):
                before = bookkeeping_objects(s)
                a = ask(s, tuple(qq))
                after = bookkeeping_objects(s)
                fs = mk()
                f = ask(fs, tuple(qq))
                if inp.get('family'):
                    print('   bookkeeping objects not re-created by this query:',
                          [k for k in before if before[k] is after[k]] or 'none', '| counted so far on the used Script:',
                          budget_used(s), '| on the fresh Script:', budget_used(fs))
                n = lambda r: '%d results' % len(r[1]) if r[0] == 'ok' else r[0]
                print(i, qq, 'used Script:', n(a), short(a, 300), '| fresh Script:', n(f), short(f, 300),
                      '' if a == f else '   <-- DIFFERS (%s)' % classify(f, a))
                print('   memoised one-shot iterators:', memo_one_shot(s) or 'none')
                print('   state after the query:', state_defaults(s) or 'defaults',
                      '| dynamic searches so far at depths', SearchHook.depths(s), '| blocked lookups', SearchHook.blocked(s))
                ndiff += a != f
            print('%d of %d answers differ from the answer of a fresh Script' % (ndiff, len(inp['session'])))
    elif 'query' in inp:
        with PrivateCache() as pcache:
            mk = EmptyProject(pcache.dir, inp['source']) if inp.get('empty_project') else (lambda: jedi.Script(inp['source']))
            for name, pick in (('sorted', lambda r: sorted(r, key=stable_key)),
                               ('reversed', lambda r: sorted(r, key=stable_key)[::-1])):
                with ForceOrder(pick):
                    print('values iterated in order %-9s' % name,
                          short(run_query(mk(), inp['query'], inp['line'], inp['column']), 600))
            for k in range(3):
                print('fresh Script, no hook       ', short(run_query(mk(), inp['query'], inp['line'], inp['column']), 600))
    elif 'dicts' in inp:
        back = lambda ds: [{'array_type': d['array_type'],
                            'keys': [None if k is None else [eval(k, {})] for k in d['keys']]} for d in ds]
        for name in ('dicts', 'other_order'):
            print('%-12s' % name, real_dict_completions(inp['literal_string'], inp['cut_end_quote'], back(inp[name])))
    else:
        print('input:', inp)
    print('expected:', payload.get('expected'), 'observed at record time:', payload.get('observed'))
    return 0

"""C03 - name resolution follows Python's scoping rules.

Streams
  goto     Script.goto at every use / global / nonlocal occurrence of generated Scopes programs
           vs Model.Scopes.goto (sets of occurrence ids must be equal)
  varof    the program is executed with every binding storing a token (name, occurrence id);
           every executed use reports the token it saw; Model.Scopes.varOf of the use must equal
           varOf of the binding that supplied the value (validates the Python-side spec vs CPython)
  oracle   the property itself: every landing of Script.goto on an executed use is a binding of
           (or a global/nonlocal declaration for) the variable Python read, as determined by the
           run-time token and CPython's `symtable`; in straight-line one-scope code the landing is
           exactly the binding whose value was observed.  Independent of the Lean model.
  compctx  TreeContextMixin.create_context on every name of a generated comprehension
           (`[x for v in y]`, `[x for v in (y)]`, `.. if c`; all coincidences of the names) vs
           Model.CompCtx.nodeContext with the operator read from the source: enclosing context or
           the comprehension's own
Generated comprehensions iterate over NAMES (the outermost iterable is a use in the ENCLOSING scope,
also when it is spelled like the loop target: `[a for a in a]`); the ones with an `if` clause are
outside the Scopes fragment (jedi looks the iterable / the condition up from the wrong context,
known findings) and are judged by the oracle only.
"""
import symtable

import common
from common import short
from gen import scopes as G

MODELS = ['Scopes']
LEAN_TARGETS = ['JediModel.Props.C03', 'JediModel.Drivers.C03']
MANIFEST = dict(
    text='Theorems over Model/Scopes (flat symbol-table form of a program; jedi side = transcription of '
         'AbstractTreeName.goto -> get_global_filters -> ParserTreeFilter/GlobalNameFilter -> filter_name; '
         'Python side = CPython symbol-table rules incl. global/nonlocal, class-body LOAD_NAME rule, '
         'class scopes invisible to nested scopes): every landing has the name of the use; a use whose own '
         'scope binds the name before it lands exactly on the last such binding and that binding is the variable '
         'Python reads; module-level uses land only on module-level bindings or global declarations; the general '
         'chain theorem under the explicit `Covered` hypothesis, with kernel-checked counter-witnesses for each '
         'excluded shape (replayed on the real code as known findings). Tie: exact-equality correspondence of '
         'Script.goto with the model on generated programs, and of the Python-side spec with CPython by executing '
         'the programs with binding tokens. Model/CompCtx (comprehension branch of create_context, operator '
         'and return values read from the source): a node of a comprehension gets the enclosing context iff it '
         'starts at or after the last child; the outermost iterable - its first leaf included - is looked up in '
         'the enclosing scope (partial: no if/for clause; kernel-checked counter-witness with an if clause); '
         'stream compctx ties the model to the real create_context on generated comprehensions over names.',
    note='Modelled not verified: the fragment is straight-line bodies (no if/for/try flow analysis), no '
         'decorators/defaults/annotations, single module; parso parsing and the pretty-printer of the '
         'harness are trusted. Programs outside the fragment are covered by the direct oracle only.',
    technique='Lean 4 proof over hand-written model + differential correspondence (jedi vs model, CPython vs model)',
    design='5.C03')


# ---------------------------------------------------------------------------- CPython-side truth

def symtable_owner_table(src, flat):
    """Maps our scope indices to symtable tables (same pre-order)."""
    top = symtable.symtable(src, '<c03>', 'exec')
    tabs = []

    def walk(t):
        tabs.append(t)
        for c in t.get_children():
            walk(c)
    walk(top)
    # CPython >= 3.12 inlines comprehensions: they have no table of their own.  A comprehension
    # scope gets None (its only binding, the loop variable, is owned by the comprehension).
    comp = G.KINDS['comp']
    has_comp_tables = any(t.get_name() in ('listcomp', 'genexpr', 'setcomp', 'dictcomp') for t in tabs)
    tables = []
    it = iter(tabs)
    for sc in flat['scopes']:
        if sc[0] == comp and not has_comp_tables:
            tables.append(None)
        else:
            tables.append(next(it, None))
    if next(it, None) is not None or any(t is None and sc[0] != comp for t, sc in zip(tables, flat['scopes'])):
        return []
    return tables


def binding_owner(tables, parents, scope, name):
    """owning scope index of the variable written by a binding of `name` in scope `scope`"""
    t = tables[scope]
    if t is None:
        return scope
    if t.get_type() == 'module':
        return 0
    try:
        sym = t.lookup(name)
    except KeyError:
        return scope
    if sym.is_global():
        return 0
    if sym.is_free() or sym.is_nonlocal():
        s = parents[scope]
        while s != 0:
            tt = tables[s]
            if tt is not None and tt.get_type() != 'class':
                try:
                    sy = tt.lookup(name)
                    if sy.is_global():
                        return 0
                    if sy.is_local() and not sy.is_free():
                        return s
                except KeyError:
                    pass
            s = parents[s]
        return 0
    return scope


# ---------------------------------------------------------------------------- shapes (hypotheses)

def shape_of(flat, use, landing):
    """syntactic class of a failing (use, landing) pair = which hypothesis of
    goto_same_var_partial it violates"""
    scopes_, occs = flat['scopes'], flat['occs']
    x, _, s = occs[use][:3]
    kind = lambda i: scopes_[i][0]
    par = lambda i: scopes_[i][1]
    if occs[use][1] == G.ROLES['dflt'] and kind(par(s)) == G.KINDS['class']:
        # the default value of a parameter of a lambda that sits directly in a class body: Python
        # evaluates it in the class body (LOAD_NAME: class namespace, else globals); jedi looks it
        # up from the lambda's own context, whose parent context skips the class
        return 'lambda-default-in-class-body'
    ls = occs[landing][2] if landing is not None and landing >= 0 else None
    K = G.KINDS
    part = dict((i, k) for i, k in flat.get('compparts', [])).get(use)
    if part == 'iter+cond' and ls is not None and kind(ls) == K['comp'] and par(ls) == s \
            and occs[landing][1] == G.ROLES['bind']:
        # create_context compares with children[-1] of the comp_for: with an `if` clause that is the
        # clause, not the iterable, so the iterable is looked up from the comprehension's own context
        return 'comprehension-with-condition-iterable-sees-loop-target'
    if part == 'cond' and (ls is None or ls != s) and any(
            o[0] == x and o[2] == s and o[1] == G.ROLES['bind'] for o in occs):
        # ... and the condition from the enclosing context: it does not see the loop target
        return 'comprehension-condition-misses-loop-target'
    # ancestors of the use scope
    anc = []
    t = s
    while t != 0:
        t = par(t)
        anc.append(t)
    binds = lambda sc: any(o[0] == x and o[2] == sc and o[1] in (0, 4, 5) for o in occs)
    decl = lambda sc, r: any(o[0] == x and o[2] == sc and o[1] == r for o in occs)
    if ls is not None and ls in anc and kind(ls) == K['class']:
        # H1: a class scope on the way out is consulted by jedi but invisible to Python
        if kind(s) == K['comp'] and par(s) == ls:
            return 'comprehension-in-class-body-sees-class-attribute'
        # only class bodies between the use and the landing class (a function in between is a
        # different, unknown, violation: methods must not see class attributes)
        t = s
        only_classes = kind(s) == K['class']
        while t != ls and only_classes:
            t = par(t)
            only_classes = kind(t) == K['class']
        if only_classes:
            return 'nested-class-body-sees-enclosing-class-attribute'
        if kind(s) == K['comp']:
            # a comprehension in a class body nested (through class bodies only) in the landing class:
            # the two defects above combined
            t = par(s)
            only_classes = kind(t) == K['class']
            while t != ls and only_classes:
                t = par(t)
                only_classes = kind(t) == K['class']
            if only_classes:
                return 'comprehension-in-nested-class-body-sees-outer-class-attribute'
        return 'function-sees-enclosing-class-attribute'
    before = any(o[0] == x and o[2] == s and o[1] in (0, 4, 5) for o in occs[:occs[use][3]])
    if kind(s) == K['class'] and binds(s) and not before and not decl(s, 2) and not decl(s, 3) \
            and ls is not None and ls in anc and kind(ls) in (K['function'], K['lambda']):
        # H3: LOAD_NAME in a class body skips enclosing function locals
        return 'class-body-use-before-class-level-binding'
    chain = [s] + anc
    for t in chain:
        if kind(t) != K['module'] and decl(t, 2):
            above = []
            tt = t
            while tt != 0:
                tt = par(tt)
                above.append(tt)
            if ls is not None and ls in above and kind(ls) in (K['function'], K['lambda']):
                # H4: a `global` declaration is not honoured when an enclosing function binds the name
                return 'global-declaration-shadowed-by-enclosing-function-binding'
    return 'unclassified'


# ---------------------------------------------------------------------------- per program

def analyse(prog):
    """pure (picklable) analysis of one program on the real code + CPython: jedi landings, run-time
    tokens and oracle verdicts. Runs in worker processes."""
    import jedi
    src, occs = G.plain(prog)
    flat = G.flat(prog)
    parents = [s[1] for s in flat['scopes']]
    pos2id = {(o['line'], o['col']): o['id'] for o in occs}
    script = jedi.Script(src)
    lands = {}
    raised = []
    for o in occs:
        if o['role'] in ('def', 'param', 'bind'):
            continue
        try:
            res = script.goto(o['line'], o['col'])
        except Exception as e:
            cls, site = common.exc_site(e)
            raised.append((o['id'], '%s@%s' % (cls, site)))
            continue
        ids = []
        for d in res:
            if d.module_name == '__main__' and (d.line, d.column) in pos2id:
                ids.append(pos2id[(d.line, d.column)])
            else:
                ids.append(-1)      # builtins / outside the buffer
        lands[o['id']] = sorted(ids)
    seen, err, esrc = G.run_executable(prog, occs)
    seen = {u: sorted(t) for u, t in seen.items()}
    compctx = comp_contexts(script, occs) if any(o.get('part') for o in occs) else []
    out = {'prog': prog, 'compctx': compctx, 'src': src, 'occs': occs, 'flat': flat, 'lands': lands, 'seen': seen,
           'raised': raised, 'judged': [], 'fails': [], 'note': None}
    # ---- direct oracle (independent of the model)
    try:
        tables = symtable_owner_table(src, flat)
    except SyntaxError:
        tables = []
    if len(tables) != len(flat['scopes']):
        out['note'] = 'symtable/scope count mismatch, oracle skipped for one program'
        return out
    for u, toks in seen.items():
        if u not in lands:
            continue
        toks = set(toks)
        if any(t < 0 for t in toks):     # unbound at run time / foreign value: no claim
            continue
        if occs[u]['role'] not in ('use', 'dflt'):
            continue
        owners = {binding_owner(tables, parents, flat['occs'][t][2], occs[t]['name']) for t in toks}
        out['judged'].append(u)
        case = {'source': src, 'line': occs[u]['line'], 'column': occs[u]['col']}
        if not lands[u]:
            # the property demands definitions of the identifier: an executed use with a source
            # binding must land somewhere
            out['fails'].append(('goto returns nothing for an executed use whose value came from a source binding',
                                 dict(case, shape=shape_of(flat, u, None)), sorted(toks), []))
            continue
        for d in lands[u]:
            if d < 0:
                out['fails'].append(('goto lands outside the buffer for a use bound in the buffer',
                                     dict(case, shape='landing-outside-buffer'), sorted(toks), lands[u]))
                continue
            do = flat['occs'][d]
            if occs[d]['name'] != occs[u]['name']:
                out['fails'].append(('goto lands on a different identifier',
                                     dict(case, shape='other-identifier'), None, occs[d]))
                continue
            if do[1] == G.ROLES['global']:
                downer = 0
            else:
                downer = binding_owner(tables, parents, do[2], occs[d]['name'])
            if downer not in owners:
                sh = shape_of(flat, u, d)
                out['fails'].append(('goto lands on a binding of a scope Python did not consult',
                                     dict(case, shape=sh),
                                     {'runtime_binding': [occs[t] for t in sorted(toks)]},
                                     {'landing': occs[d], 'shape': sh}))
        # straight-line clause: use and all bindings of its variable in one scope body
        us = flat['occs'][u][2]
        same = [i for i, o in enumerate(flat['occs']) if o[0] == flat['occs'][u][0] and o[1] in (0, 4, 5)]
        if same and all(flat['occs'][i][2] == us for i in same) and len(toks) == 1 \
                and flat['scopes'][us][0] in (0, 1) and not any(
                    o[0] == flat['occs'][u][0] and o[1] in (2, 3) for o in flat['occs']):
            t = next(iter(toks))
            if lands[u] != [t]:
                out['fails'].append(('straight-line code: goto is not exactly the observed assignment',
                                     dict(case, shape='straight-line'), [t], lands[u]))
    return out


def comp_contexts(script, occs):
    """the real create_context on every name of every comprehension line that iterates over a name:
    [{iterStart, iterEnd, lastStart, nodes: [[line, col]..], impl: ['parent'|'comp'|...]}]"""
    res = []
    try:
        mc = script._get_module_context()
        module = script._module_node
    except Exception as e:       # another property's business (C01)
        return res
    for ln in sorted({o['line'] for o in occs if o.get('part')}):
        leaves = []
        leaf = module.get_first_leaf()
        while leaf is not None:
            if leaf.start_pos[0] == ln:
                leaves.append(leaf)
            leaf = leaf.get_next_leaf()
        fors = [l for l in leaves if l.type == 'keyword' and l.value == 'for'
                and l.parent.type in ('comp_for', 'sync_comp_for')]
        if len(fors) != 1:
            continue
        cf = fors[0].parent
        nodes, impl = [], []
        for l in leaves:
            if l.type != 'name':
                continue
            c = mc.create_context(l)
            if type(c).__name__ == 'CompForContext' and c.tree_node is cf:
                impl.append('comp')
            elif type(c).__name__ != 'CompForContext':
                impl.append('parent')
            else:
                impl.append('other:' + type(c).__name__)
            nodes.append(list(l.start_pos))
        it = cf.children[3]
        res.append({'iterStart': list(it.start_pos), 'iterEnd': list(it.end_pos),
                    'lastStart': list(cf.children[-1].start_pos), 'nodes': nodes, 'impl': impl,
                    'line': ln})
    return res


def fix_keys(out):
    """JSON turns int keys into strings"""
    out['lands'] = {int(k): v for k, v in out['lands'].items()}
    out['seen'] = {int(k): v for k, v in out['seen'].items()}
    out['fails'] = [tuple(f) for f in out['fails']]
    return out


def absorb(ctx, out, reqs, cases, tag):
    """main-process side: counting, failing, queueing the model request"""
    how = 'jedi.Script(source).goto(line, column) vs executing the program'
    flat, occs, src = out['flat'], out['occs'], out['src']
    for oid, b in out['raised']:
        ctx.count('raised', (src, oid), nontrivial=False, bucket=b)
    if out['note']:
        ctx.notes.append(out['note'])
    for u in out['judged']:
        ctx.count('oracle', (src, u), nontrivial=True,
                  bucket='use-in-%s' % ['module', 'function', 'class', 'lambda', 'comp'][flat['scopes'][flat['occs'][u][2]][0]],
                  sample={'source': src, 'line': occs[u]['line'], 'column': occs[u]['col'],
                          'runtime_binding_ids': out['seen'][u], 'jedi_landing_ids': out['lands'][u]})
    for what, case, exp, obs in out['fails']:
        ctx.fail('oracle', what, case, expected=exp, observed=obs, how=how)
    out['tag'] = tag
    for cc in out.get('compctx', []):
        ctx.creqs.append(dict(op='compctx', iterStart=cc['iterStart'], iterEnd=cc['iterEnd'],
                              lastStart=cc['lastStart'], nodes=cc['nodes']))
        ctx.ccases.append((src, cc))
    if tag == 'comp-cond':
        # outside the Scopes fragment (see the module docstring): oracle + compctx only
        return
    reqs.append({'op': 'analyse', 'scopes': [s[:2] for s in flat['scopes']], 'occs': flat['occs']})
    cases.append(out)


def compare(ctx, cases, answers):
    for c, a in zip(cases, answers):
        occs = c['occs']
        if isinstance(a, dict) and 'error' in a:
            raise common.InfraError('driver: %r' % a)
        for u, impl in c['lands'].items():
            model = sorted(a['goto'][u])
            ctx.count('goto/' + c['tag'], (c['src'], u), nontrivial=len(model) > 0,
                      bucket='landings=%d' % min(len(model), 3))
            if model != impl:
                c['disagrees'] = True
                ctx.tie_broken('correspondence:goto',
                               short({'source': c['src'], 'occ': occs[u], 'jedi': impl, 'model': model}, 1500))
        failed_uses = {(f[1]['line'], f[1]['column']) for f in c['fails']}
        for u in c['judged']:
            cov = a['covered'][u] and occs[u]['role'] == 'use'   # the theorem speaks about plain uses
            ctx.count('covered', (c['src'], u), nontrivial=bool(cov), bucket='covered' if cov else 'outside-hypothesis')
            if cov and (occs[u]['line'], occs[u]['col']) in failed_uses and \
                    not any(f[1]['shape'] == 'straight-line' for f in c['fails']):
                # the theorem says this cannot happen when model = code: treat as a broken tie
                ctx.tie_broken('theorem-vs-implementation:goto_same_var_partial',
                               short({'source': c['src'], 'use': occs[u]}, 800))
        for u, toks in c['seen'].items():
            u = int(u)
            for t in toks:
                if t < 0:
                    continue
                ok = a['var'][u] == a['var'][t] and occs[u]['name'] == occs[t]['name']
                ctx.count('varof/' + c['tag'], (c['src'], u, t), nontrivial=True)
                if not ok:
                    # the Python-side spec of the model disagrees with CPython: model bug, never a
                    # property violation by itself
                    ctx.tie_broken('correspondence:varof',
                                   short({'source': c['src'], 'use': occs[u], 'runtime_binding': occs[t],
                                          'model_var_use': a['var'][u], 'model_var_binding': a['var'][t]}, 1500))


def compare_compctx(ctx, ccases, answers):
    for (src, cc), a in zip(ccases, answers):
        if isinstance(a, dict) and 'error' in a:
            raise common.InfraError('driver: %r' % a)
        for node, impl, model in zip(cc['nodes'], cc['impl'], a['ctx']):
            first = node == cc['iterStart']
            ctx.count('compctx', (src, tuple(node)), nontrivial=True,
                      bucket=('first-leaf-of-iterable' if first else 'before-iterable' if node < cc['iterStart']
                              else 'inside-iterable' if node < cc['iterEnd'] else 'after-iterable') +
                             ('/with-if' if cc['lastStart'] != cc['iterStart'] else ''),
                      sample={'source': src, 'node': node, 'context': impl})
            if impl != model:
                ctx.disagree_comp = True
                ctx.tie_broken('correspondence:compctx',
                               short({'source': src, 'node': node, 'create_context': impl, 'model': model,
                                      'comp_for': {k: cc[k] for k in ('iterStart', 'iterEnd', 'lastStart')}}, 1200))


def programs(ctx):
    rng = ctx.subrng('gen')
    out = []
    if ctx.quick:
        small = list(G.enumerate_small(3))
        out += [(p, 'exhaustive') for p in small]
        pool = [p for p in G.enumerate_small(4)][len(small):]
        out += [(p, 'sampled-small') for p in rng.sample(pool, min(len(pool), 700))]
        ctx.notes.append('exhaustive stream: all %d module bodies with <= 3 items over names {a, b} '
                         '(defs, calls, global/nonlocal); plus %d sampled from the %d with exactly 4 items'
                         % (len(small), min(len(pool), 700), len(pool)))
        n_random = 250
    else:
        small = list(G.enumerate_small(5))
        out += [(p, 'exhaustive') for p in small]
        ctx.notes.append('exhaustive stream: all %d module bodies with <= 5 items over names {a, b}' % len(small))
        ctx.obligations['exhaustive'] = True
        n_random = 8000
    comp = list(G.enumerate_comp_iter())
    out += [(p, 'comp-iter') for p in comp]
    cond = list(G.enumerate_comp_iter(conds=True))
    n_cond = ctx.size(100, len(cond))
    out += [(p, 'comp-cond') for p in rng.sample(cond, min(n_cond, len(cond)))]
    ctx.notes.append('comp-iter stream: all %d comprehensions over names {a, b} iterating over a NAME (bare / '
                     'parenthesised; every coincidence of loop target, element and iterable) in module / function / '
                     'class / nested function / method bodies; %d of the %d with an `if` clause (oracle + compctx only)'
                     % (len(comp), min(n_cond, len(cond)), len(cond)))
    for _ in range(n_random):
        out.append((G.gen_program(rng, allow=('lambda', 'comp', 'assign', 'dflt', 'ldflt', 'compit')), 'random'))
    out += [(p, 'comp-cond' if G.has_cond(p) else 'witness') for p in WITNESSES]
    return out


def run(ctx):
    reqs, cases = [], []
    ctx.creqs, ctx.ccases = [], []
    progs = programs(ctx)
    if len(progs) > 3000:
        outs = [fix_keys(o) for o in common.parallel_map('props.c03', 'analyse', [p for p, _ in progs])]
    else:
        outs = [analyse(p) for p, _ in progs]
    for out, (_, tag) in zip(outs, progs):
        absorb(ctx, out, reqs, cases, tag)
    if ctx.model_ok:
        answers = common.run_driver_parallel('C03', reqs + ctx.creqs)
        compare(ctx, cases, answers[:len(reqs)])
        compare_compctx(ctx, ctx.ccases, answers[len(reqs):])
    else:
        ctx.notes.append('model did not build: correspondence skipped, oracle only')
    if (ctx.broken or not ctx.model_ok) and not any(ctx.violations):
        search(ctx, [c['prog'] for c in cases if c.get('disagrees')])
    ctx.obligations['assumptions'] = [
        'fragment: straight-line bodies, module/function/class/lambda/comprehension scopes, bind/use/global/'
        'nonlocal/param/def; the flat symbol table handed to the model and the printed source are derived from '
        'one abstract program by harness/gen/scopes.py (trusted)',
        'CPython symtable + run-time binding tokens are the ground truth for "the scope Python consulted"',
    ]


def variants(prog):
    """programs around a disagreeing one in which more uses are executed with a source binding:
    calls of every function appended / moved to the end, bindings of every name added at module
    level before and after"""
    names = sorted({o['name'] for o in G.plain(prog)[1]})
    funcs = []

    def collect(items):
        for it in items:
            if it['k'] == 'def':
                if it['kind'] == 'function':
                    funcs.append((it['name'], len(it['params'])))
                collect(it['body'])
    collect(prog)
    calls = [{'k': 'call', 'x': f, 'n': n} for f, n in funcs]
    out = [prog + calls]
    for x in names:
        out.append([B(x)] + prog + calls)
        out.append(prog + [B(x)] + calls)
        stripped = [it for it in prog if it['k'] != 'call']
        out.append(stripped + [B(x)] + calls)
    return out


def search(ctx, disagreeing):
    """failing-input search after a broken proof obligation / correspondence: variants of the
    disagreeing programs first, then the whole small-scope space, judged by the direct oracle"""
    cand = []
    for p in disagreeing[:200]:
        cand += variants(p)
    ok = []
    for p in cand:
        try:
            compile(G.plain(p)[0], '<v>', 'exec')
            ok.append(p)
        except SyntaxError:
            pass
    ok += list(G.enumerate_comp_iter())
    ok += list(G.enumerate_small(4))
    outs = [fix_keys(o) for o in common.parallel_map('props.c03', 'analyse', ok)]
    how = 'jedi.Script(source).goto(line, column) vs executing the program'
    n = 0
    for out in outs:
        for u in out['judged']:
            ctx.count('search', (out['src'], u), nontrivial=True)
        for what, case, exp, obs in out['fails']:
            n += 1
            ctx.fail('oracle', what, case, expected=exp, observed=obs, how=how)
    ctx.notes.append('failing-input search: %d programs, %d oracle failures' % (len(ok), n))


def D(kind, name, body, params=()):
    return {'k': 'def', 'kind': kind, 'name': name, 'params': list(params), 'body': body}


B = lambda x: {'k': 'bind', 'x': x}
U = lambda x: {'k': 'use', 'x': x}
# programs that exercise each excluded shape (kept alive so the KNOWN-FINDING lines stay honest)
WITNESSES = [
    # F10: comprehension in class body
    [B('a'), D('class', 'K', [B('a'), {'k': 'comp', 'var': 'b', 'x': 'a'}])],
    # nested class sees enclosing class attribute
    [B('a'), D('class', 'K', [B('a'), D('class', 'L', [U('a')])])],
    # ... and a comprehension inside the nested class
    [B('a'), D('class', 'K', [B('a'), D('class', 'L', [{'k': 'comp', 'var': 'b', 'x': 'a'}])])],
    # a method / lambda of a class nested in a class: BOTH enclosing classes are skipped -- control
    [B('a'), D('class', 'K', [B('a'), D('class', 'L', [D('function', 'f', [U('a')]),
                                                       {'k': 'call', 'x': 'f', 'n': 0},
                                                       {'k': 'lambda', 'params': [], 'x': 'a'}])])],
    [B('a'), D('function', 'g', [B('a'), D('class', 'K', [B('a'), D('class', 'L', [
        B('b'), D('class', 'K', [D('function', 'f', [U('a'), U('b')]), {'k': 'call', 'x': 'f', 'n': 0}])])])]),
     {'k': 'call', 'x': 'g', 'n': 0}],
    # method sees ... (class scopes skipped: fine) -- control
    [B('a'), D('class', 'K', [B('a'), D('function', 'f', [U('a')]), {'k': 'call', 'x': 'f', 'n': 0}])],
    # class-body use before class-level binding, enclosing function binds the name
    [B('a'), D('function', 'f', [B('a'), D('class', 'K', [U('a'), B('a')])]), {'k': 'call', 'x': 'f', 'n': 0}],
    # default value of a lambda parameter in a class body reads the class attribute
    [B('a'), D('class', 'K', [B('a'), {'k': 'lamdef', 'name': 'g', 'params': ['b'], 'x': 'b', 'dflt': 'a'},
                              {'k': 'call', 'x': 'g', 'n': 1}])],
    # comprehension with an `if` clause: the iterable sees the loop target, the condition misses it
    [B('a'), {'k': 'comp', 'var': 'a', 'x': 'a', 'it': 'a', 'cond': 'a'}],
    [B('a'), B('b'), D('function', 'f', [B('b'), {'k': 'comp', 'var': 'b', 'x': 'a', 'it': 'a', 'cond': 'b'}]),
     {'k': 'call', 'x': 'f', 'n': 0}],
    # global declaration, enclosing function binds the name
    [B('a'), D('function', 'f', [B('a'), D('function', 'g', [{'k': 'global', 'x': 'a'}, U('a')]),
                                 {'k': 'call', 'x': 'g', 'n': 0}]), {'k': 'call', 'x': 'f', 'n': 0}],
]


def replay(ctx, payload):
    import jedi
    inp = payload['input']
    res = jedi.Script(inp['source']).goto(inp['line'], inp['column'])
    print(inp['source'])
    print('goto(%d, %d) ->' % (inp['line'], inp['column']), [(d.name, d.line, d.column) for d in res])
    print('expected:', payload.get('expected'), 'observed at record time:', payload.get('observed'))
    return 0

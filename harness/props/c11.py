"""C11 - signatures and docstrings mirror the definition; index locates the argument.

Streams (model = lean/JediModel/Model/Call.lean through Drivers/C11.lean)
  ptoks        children of parso's `parameters` node of the generated definition vs Model `Sig.toks`
  params       Signature.params[*].name/.kind/.to_string() vs `signatureParams bound (paramNames toks)`
  to_string    Signature.to_string() vs `sigToString`
  bracket      Signature.bracket_start vs the position the generator put the `(` at
  nodes        `nodes_before` handed to `_iter_arguments` (real parso tree, abstracted) vs `nodesOf`
               (the "parso + get_signature_details" assumption of the model, generator level)
  iter_args    CallDetails._list_arguments() vs `iterArguments` run on the abstracted real nodes
  triples      CallDetails._list_arguments() vs `argTriples` (generator level)
  index        Signature.index vs `calculateIndex`
  helpers      count_positional_arguments / iter_used_keyword_arguments vs model
  kinds        hand-built child lists that are not valid Python (parso recovers) vs `paramNames`
  pybind       `pyBind` (the theorems' Python side) vs real calls of the executed definition
  pybound      `pyBound` (Python side of bound_eq_pyBound) vs inspect.signature of the bound method /
               classmethod / class (ValueError = none)
  forward      wrappers that forward **kwargs (only) to one or two callees (plain / decorator /
               method layouts, own parameters, arguments given in the forwarding call):
               Signature.params/.to_string() vs `processParamsKw` + `calleeParams`
  pyaccepts    `pyAccepts`, `pyRunsKwWrapper`, `kwForwarded` vs real calls
  doc          docstring() vs `docAssemble`
  doclit       parser_utils.clean_scope_docstring on a real parso funcdef whose first statement is a
               generated string literal vs `DocLit.cleanDocstringLiteral` (given the type
               ast.literal_eval yields): which literals are docstrings
  pyprefix     `legalPrefixes` / `pyIsDocstring` / `pyEvald` (Python side of docstring_literal_decision)
               vs CPython's compiler on every prefix candidate over {b,r,u,f,B,R,U,F} up to length 3
  oracle:doclit  the docstring clause on systematically generated literals (gen/c11_doclits.py:
               25 prefixes x 4 quote styles x first characters over letters / digits / punctuation /
               whitespace / escapes / non-ASCII, prefix-lookalike bodies, one-line and multi-line)
               in 14 definition kinds (module, function, async, one-line, class, __init__, method,
               static/classmethod, nested) through get_names / get_context / infer / goto / help /
               get_signatures / complete; oracle = inspect.getdoc + inspect.signature of the
               executed object (props/c11_doc.py, fresh-interpreter workers)
  oracle:history  edit-and-ask-again sessions (gen_history): 2-4 successive contents of ONE path whose called
               definition changes (parameter list, kind of callable of the same call text) while the call
               keeps its text (layouts: same position / moved / edited arguments / no path / another path),
               a new Script(code, path=...) per step right after the other; every answer is judged on its own
               by the per-request oracle (exec + inspect.signature + re-parse + sentinel calls + bracket);
               a failure the same request shows without history goes to the ordinary streams, one that only
               the history produces is reported with the shortest failing sub-history
  sigcache     real helpers.cache_signatures behind real cache.signature_time_cache, called as
               Script.get_signatures calls it, over such histories with a controlled clock (pauses around
               the validity), one-line calls and cursors below the bracket line; inference stubbed by a
               counter: answer / stored? / matched text of the key / size of the dictionary vs
               `SigCache.request` (Model/SigCache.lean) folded over the same requests
  oracle:*     the property itself on the real code: exec the definition, inspect.signature,
               re-parse of to_string(), real calls with a sentinel argument, inspect.getdoc;
               oracle:kwforward = exactly the calls that bind against the reported signature of a
               pure **kwargs pass-through wrapper run without TypeError (all calls with <= 2+ positional
               and <= 3 keyword arguments); oracle:wrapper = *args forwarding probe (unjudged in this
               sandbox: RecursionError without typeshed)
"""
import inspect
import itertools
import json

import common
from common import short

MODELS = ['Call', 'DocLit', 'SigCache']
MANIFEST = dict(
    text='Theorems over the model of _ActualTreeParamName.get_kind, _SignatureMixin.to_string, '
         'TreeSignature.get_param_names (process_params without forwarding and with **kwargs forwarded one level, '
         'bound => _remove_bound_param: drop the first parameter unless it is *args), '
         '_iter_arguments and CallDetails.calculate_index: get_kind = inspect kinds on every valid parameter list '
         '(partial: no `__` names outside the positional-only section; counter-witness kernel-checked), '
         'to_string re-parses to the same parameter list, process_params is the identity on valid lists, '
         'a bound signature equals inspect.signature of the bound object for EVERY valid parameter list that has one '
         '(bound_eq_pyBound, full: first named parameter removed, leading *args kept), the forwarded signature of a '
         '**kwargs pass-through wrapper is the wrapped callable\'s keyword-capable parameters as keyword-only ones '
         '(kwforward_params/kwforward_pure) and accepts exactly the calls that run (kwforward_accepts_iff_partial: '
         'positional-only parameters of the callee have defaults; kernel-checked counter-witness = known finding), '
         'calculate_index = CPython call binding for every '
         'well-formed prefix ending in a non-name positional or `name=` argument (partial: hypotheses H1/H2 '
         'with kernel-checked counter-witnesses = known findings F17/F18), exact characterisation of the '
         'remaining cells (bare-name prefix, after *e), docstring assembly; which string token is a docstring: '
         'for every legal prefix x quote style x ANY body `_clean_docstring_literal` decides like Python (no b, no f '
         'in the prefix) and never looks at the body (docstring_literal_decision / _body_irrelevant, slice length '
         'and letters read from safe_literal_eval by the translator). HISTORIES: model of the time cache in front of '
         'the callee inference (helpers.cache_signatures key + cache.signature_time_cache + clear_time_caches in '
         'Script.__init__, Model/SigCache.lean; kind of the second key component, statement shapes and validity read '
         'from the source): for ALL sequences of requests of any Scripts / paths / contents / clock values every '
         'answer is the callee inferred from the asking Script\'s own source (sig_history_every_answer_fresh, because '
         'the key holds a match object), unkeyed requests are never cached under any key configuration '
         '(sig_unkeyed_request_fresh), exact two-step characterisation of a text key (sig_text_key_second_answer) with '
         'kernel-checked stale-answer witness (sig_text_key_stale_witness). Tie: translator constants + '
         'correspondence on real parso trees and real jedi objects; direct oracle executes the definition, '
         'uses inspect.signature, re-parses to_string(), performs real calls with sentinel arguments, '
         'inspect.getdoc; stream oracle:history does so for every answer of edit-and-ask-again sessions on one path, '
         'stream sigcache compares the cache model with the real functions under a controlled clock.',
    note='Modelled not verified: parso (the node list handed to _iter_arguments is checked per case), '
         'inference of the callee (which definition a call resolves to; for forwarding: which calls '
         '_iter_nodes_for_param finds and what they resolve to - checked per case by stream forward), process_params '
         'with *args forwarding (RecursionError in this sandbox: empty typeshed; probe stream oracle:wrapper only), '
         'inspect.cleandoc / the value ast.literal_eval yields (only its type enters the model; the text is checked by '
         'the direct oracle against inspect.getdoc of the executed definition), parso\'s get_doc_node.',
    technique='Lean 4 proof over hand-written model + translator-generated constants + differential correspondence',
    design='5.C11')
LEAN_TARGETS = ['JediModel.Props.C11', 'JediModel.Drivers.C11']

KIND_NAMES = ['POSITIONAL_ONLY', 'POSITIONAL_OR_KEYWORD', 'VAR_POSITIONAL', 'KEYWORD_ONLY', 'VAR_KEYWORD']

# ------------------------------------------------------------------ signatures

NAME_POOL = ['a', 'b', 'c', 'd', 'ab', 'abc', 'bc', 'e']
ANNS = ['int', 'str', "'T'"]
DFLTS = ['1', "'s'", '(1, 2)']


def P(name, ann=None, dflt=None):
    return {'name': name, 'ann': ann, 'dflt': dflt}


def shapes(maxn):
    """(npo, npk, vp, nko, vk) with at most maxn parameters"""
    out = []
    for npo in range(maxn + 1):
        for npk in range(maxn + 1 - npo):
            for vp in (0, 1):
                for nko in range(maxn + 1 - npo - npk - vp):
                    for vk in (0, 1):
                        if npo + npk + vp + nko + vk <= maxn:
                            out.append((npo, npk, vp, nko, vk))
    return out


def sig_variants(shape, rng, exhaustive):
    """all (or one sampled) decoration(s) of a shape with defaults / annotations"""
    npo, npk, vp, nko, vk = shape
    n = npo + npk + vp + nko + vk
    if exhaustive:
        pools = [NAME_POOL[:n]] if n else [[]]
    else:
        pools = [rng.sample(NAME_POOL, n)]
    res = []
    for names in pools:
        npos = npo + npk
        # defaults: positional ones from some index on; keyword-only independently
        first_defaults = list(range(npos + 1)) if exhaustive else [rng.choice(range(npos + 1))]
        for fd in first_defaults:
            kodefs = list(itertools.product([0, 1], repeat=nko)) if exhaustive else \
                [tuple(rng.randint(0, 1) for _ in range(nko))]
            for kod in kodefs:
                anns = list(itertools.product([0, 1], repeat=n)) if (exhaustive and n <= 3) else \
                    [tuple(int(rng.random() < 0.35) for _ in range(n))]
                for an in anns:
                    ps = []
                    for i in range(n):
                        ps.append(P(names[i], ann=rng.choice(ANNS) if an[i] else None))
                    for i in range(fd, npos):
                        ps[i]['dflt'] = rng.choice(DFLTS)
                    for j in range(nko):
                        if kod[j]:
                            ps[npos + vp + j]['dflt'] = rng.choice(DFLTS)
                    it = iter(ps)
                    res.append({'po': [next(it) for _ in range(npo)], 'pk': [next(it) for _ in range(npk)],
                                'vp': next(it) if vp else None, 'ko': [next(it) for _ in range(nko)],
                                'vk': next(it) if vk else None})
    return res


def p_text(p, stars=''):
    s = stars + p['name']
    if p['ann'] is not None:
        s += ': ' + p['ann']
    if p['dflt'] is not None:
        s += '=' + p['dflt']
    return s


def sig_text(sig):
    parts = [p_text(p) for p in sig['po']]
    if sig['po']:
        parts.append('/')
    parts += [p_text(p) for p in sig['pk']]
    if sig['vp'] is not None:
        parts.append(p_text(sig['vp'], '*'))
    elif sig['ko']:
        parts.append('*')
    parts += [p_text(p) for p in sig['ko']]
    if sig['vk'] is not None:
        parts.append(p_text(sig['vk'], '**'))
    return ', '.join(parts)


def sig_names(sig):
    return [p['name'] for p in sig['po'] + sig['pk']] + ([sig['vp']['name']] if sig['vp'] else []) + \
        [p['name'] for p in sig['ko']] + ([sig['vk']['name']] if sig['vk'] else [])


def with_first(sig, name):
    """the definition's own parameter list for a method: `self` / `cls` in front"""
    s = dict(sig)
    if sig['po']:
        s['po'] = [P(name)] + sig['po']
    else:
        s['pk'] = [P(name)] + sig['pk']
    return s


CALLABLES = ['function', 'method', 'classmethod', 'staticmethod', 'init', 'unbound',
             'method_raw', 'classmethod_raw', 'init_raw']


def py_bound(sig):
    """inspect._signature_bound_method on a generator-level signature; None = ValueError"""
    s = dict(sig)
    if sig['po']:
        s['po'] = sig['po'][1:]
    elif sig['pk']:
        s['pk'] = sig['pk'][1:]
    elif sig['vp'] is None:
        return None
    return s


def raw_sig(sig, rng):
    """parameter list of a method written without a separate `self`: the first named parameter
    plays that role, or a leading *args swallows it.  Python must have a bound signature."""
    s = dict(sig)
    if s['vp'] is not None and rng.random() < 0.6:
        s['po'], s['pk'] = [], []
    if py_bound(s) is None:
        s['vp'] = P('args')
    return s


def definition(kind, sig, ret, doc=None):
    """-> (source, callee expression, signature name, definition sig (model input), bound, object expr)"""
    body = ('    %s\n' % doc if doc else '') + '    pass\n'
    arrow = ' -> ' + ret if ret else ''
    if kind == 'function':
        return 'def f(%s)%s:\n%s' % (sig_text(sig), arrow, body), 'f', 'f', sig, False
    ind = lambda s: ''.join('    ' + l + '\n' for l in s.rstrip('\n').split('\n'))
    if kind in ('method', 'unbound'):
        d = with_first(sig, 'self')
        src = 'class C:\n' + ind('def m(%s)%s:\n%s' % (sig_text(d), arrow, body))
        return (src, 'C().m' if kind == 'method' else 'C.m', 'm', d, kind == 'method')
    if kind == 'classmethod':
        d = with_first(sig, 'cls')
        src = 'class C:\n    @classmethod\n' + ind('def m(%s)%s:\n%s' % (sig_text(d), arrow, body))
        return src, 'C.m', 'm', d, True
    if kind == 'staticmethod':
        src = 'class C:\n    @staticmethod\n' + ind('def m(%s)%s:\n%s' % (sig_text(sig), arrow, body))
        return src, 'C.m', 'm', sig, False
    if kind == 'init':
        d = with_first(sig, 'self')
        src = 'class C:\n' + ind('def __init__(%s):\n%s' % (sig_text(d), body))
        return src, 'C', 'C', d, True
    # the *_raw kinds: `sig` is the definition's own parameter list (see raw_sig)
    if kind == 'method_raw':
        src = 'class C:\n' + ind('def m(%s)%s:\n%s' % (sig_text(sig), arrow, body))
        return src, 'C().m', 'm', sig, True
    if kind == 'classmethod_raw':
        src = 'class C:\n    @classmethod\n' + ind('def m(%s)%s:\n%s' % (sig_text(sig), arrow, body))
        return src, 'C.m', 'm', sig, True
    if kind == 'init_raw':
        src = 'class C:\n' + ind('def __init__(%s):\n%s' % (sig_text(sig), body))
        return src, 'C', 'C', sig, True
    raise ValueError(kind)


# ------------------------------------------------------------------ call prefixes

POS_OTHER = ['1', "'s'", '(2)', '-1', 'g(3)', 'x.y', '1 + 2']
POS_NAMES = ['xv', 'ab', 'a', 'bcd']
STAR_OTHER = ['(1,)', '[1]']
STAR2_OTHER = ['{}']


def gen_args(rng, names, n, wellformed=True):
    """list of arg specs: ('pos', text, name|None) | ('kw', name, value) | ('star', k, text, name|None)"""
    args = []
    kw_pool = list(dict.fromkeys(names + ['zz', 'ab', 'a']))
    seen_kw = False
    used = set()
    for _ in range(n):
        r = rng.random()
        if wellformed and seen_kw and r < 0.55:
            r = 0.6
        if r < 0.4:
            if rng.random() < 0.3:
                nm = rng.choice(POS_NAMES + names[:2])
                args.append(('pos', nm, nm))
            else:
                args.append(('pos', rng.choice(POS_OTHER), None))
        elif r < 0.8:
            cand = [k for k in kw_pool if k not in used] if wellformed else kw_pool
            if not cand:
                args.append(('pos', '1', None))
                continue
            k = rng.choice(cand)
            used.add(k)
            seen_kw = True
            args.append(('kw', k, rng.choice(['1', "'s'", 'xv', '(1, 2)'])))
        elif r < 0.9:
            if rng.random() < 0.6:
                args.append(('star', 1, 'xs', 'xs'))
            else:
                args.append(('star', 1, rng.choice(STAR_OTHER), None))
        else:
            seen_kw = True
            if rng.random() < 0.6:
                args.append(('star', 2, 'kws', 'kws'))
            else:
                args.append(('star', 2, rng.choice(STAR2_OTHER), None))
    return args


def arg_text(a):
    if a[0] == 'pos':
        return a[1]
    if a[0] == 'kw':
        return '%s=%s' % (a[1], a[2])
    return '*' * a[1] + a[2]


def arg_json(a):
    if a[0] == 'pos':
        return {'t': 'pos', 'name': a[2]}
    if a[0] == 'kw':
        return {'t': 'kw', 'n': a[1]}
    return {'t': 'star', 'k': a[1], 'name': a[3]}


def cursor_cases(args, callee, rng, all_slots):
    """-> list of (call_text, column, prev_specs, cur_json, mode)"""
    texts = [arg_text(a) for a in args]
    n = len(args)
    base = len(callee) + 1
    offs = []
    o = base
    for t in texts:
        offs.append(o)
        o += len(t) + 2
    closed = callee + '(' + ', '.join(texts) + ')'
    out = []
    slots = list(range(n + 1)) if all_slots else sorted(set(rng.sample(range(n + 1), min(n + 1, 2)) + [n]))
    for k in slots:
        prev = args[:k]
        head = callee + '(' + ''.join(t + ', ' for t in texts[:k])
        # ---- prefix mode: the text ends at the cursor
        partials = [('', {'t': 'empty'})]
        if k < n:
            a = args[k]
            if a[0] == 'pos' and a[2] is not None:
                for c in range(1, len(a[1]) + 1):
                    partials.append((a[1][:c], {'t': 'name', 's': a[1][:c], 'cut': c}))
            elif a[0] == 'pos':
                partials.append((a[1], {'t': 'expr'}))
            elif a[0] == 'kw':
                for c in range(1, len(a[1]) + 1):
                    partials.append((a[1][:c], {'t': 'name', 's': a[1][:c], 'cut': c}))
                partials.append((a[1] + '=', {'t': 'kwOpen', 's': a[1]}))
                partials.append((a[1] + '=' + a[2], {'t': 'kwArg', 's': a[1], 'cut': len(a[1]), 'eqBefore': True}))
            else:
                partials.append(('*' * a[1], {'t': 'starOpen', 'k': a[1]}))
                partials.append(('*' * a[1] + a[2], {'t': 'starArg', 'k': a[1], 'name': a[3],
                                                     'cut': len(a[3]) if a[3] else 0}))
        for ptxt, cur in partials:
            text = head + ptxt
            out.append((text, len(text), prev, cur, 'prefix'))
        # ---- closed mode: the whole call is there
        if k < n:
            a = args[k]
            off = offs[k]
            out.append((closed, off, prev, {'t': 'empty'}, 'closed'))
            L = len(texts[k])
            if a[0] == 'pos' and a[2] is not None:
                for c in range(1, L + 1):
                    out.append((closed, off + c, prev, {'t': 'name', 's': a[1], 'cut': c}, 'closed'))
            elif a[0] == 'pos':
                out.append((closed, off + L, prev, {'t': 'expr'}, 'closed'))
            elif a[0] == 'kw':
                ln = len(a[1])
                for c in range(1, ln + 1):
                    out.append((closed, off + c, prev, {'t': 'kwArg', 's': a[1], 'cut': c, 'eqBefore': False}, 'closed'))
                out.append((closed, off + ln + 1, prev, {'t': 'kwArg', 's': a[1], 'cut': ln, 'eqBefore': True}, 'closed'))
                out.append((closed, off + L, prev, {'t': 'kwArg', 's': a[1], 'cut': ln, 'eqBefore': True}, 'closed'))
            else:
                out.append((closed, off + a[1], prev, {'t': 'starArg', 'k': a[1], 'name': a[3], 'cut': 0}, 'closed'))
                out.append((closed, off + L, prev, {'t': 'starArg', 'k': a[1], 'name': a[3],
                                                   'cut': len(a[3]) if a[3] else 0}, 'closed'))
        elif n == 0:
            out.append((closed, base, prev, {'t': 'empty'}, 'closed'))
        else:
            trailing = callee + '(' + ''.join(t + ', ' for t in texts) + ')'
            out.append((trailing, len(trailing) - 1, prev, {'t': 'empty'}, 'closed'))
    return out


# ------------------------------------------------------------------ real side

def abstract0(n, pos):
    def cut(leaf):
        if leaf.start_pos[0] != pos[0]:
            raise Unmodelled('multi-line call')
        return max(0, min(pos[1] - leaf.start_pos[1], len(leaf.value)))

    def name_of(leaf):
        return leaf.value if leaf.type == 'name' else None

    t = n.type
    if t == 'argument':
        first, second = n.children[0], n.children[1]
        if second == '=':
            return {'t': 'argKw', 'first': name_of(first), 'cut': cut(first) if first.type == 'name' else 0,
                    'eqBefore': second.start_pos < pos}
        if first in ('*', '**'):
            return {'t': 'argStar', 'k': len(first.value), 'second': name_of(second),
                    'cut': cut(second) if second.type == 'name' else 0}
        fl = n.get_first_leaf()
        return {'t': 'argOther', 'firstLeaf': name_of(fl), 'cut': cut(fl) if fl.type == 'name' else 0,
                'atOrAfter': fl.start_pos >= pos}
    if t == 'testlist_star_expr':
        raise Unmodelled('testlist_star_expr')
    if not hasattr(n, 'children'):
        if n.value == ',' and t == 'operator':
            return {'t': 'comma'}
        if n.value in ('*', '**') and t == 'operator':
            return {'t': 'starLeaf', 'k': len(n.value)}
        if n.value == '=' and t == 'operator':
            return {'t': 'eqLeaf'}
        if t == 'name':
            return {'t': 'nameLeaf', 'v': n.value, 'cut': cut(n)}
    return {'t': 'other'}


class Unmodelled(Exception):
    pass


def abstract_nodes(cd):
    pos = cd._position
    out = []
    for c in cd._children:
        if not c.start_pos < pos:
            continue
        if c.type == 'arglist':
            out.append({'t': 'arglist', 'children': [abstract0(x, pos) for x in c.children if x.start_pos < pos]})
        else:
            out.append(abstract0(c, pos))
    return out


def flatten(nodes):
    out = []
    for n in nodes:
        if n['t'] == 'arglist':
            out += n['children']
        else:
            out.append(n)
    return out


def norm_node(n):
    """canonical form for comparing model nodes with abstracted real ones: irrelevant cuts dropped"""
    n = dict(n)
    if n['t'] == 'argKw':
        if n.get('eqBefore') and n.get('first') is not None:
            n['cut'] = len(n['first'])
        elif n.get('first') is None:
            n['cut'] = 0
    if n['t'] == 'argStar' and n.get('second') is None:
        n['cut'] = 0
    if n['t'] == 'argOther' and n.get('firstLeaf') is None:
        n['cut'] = 0
    return n


def ptoks_of(funcdef):
    """children of the `parameters` node, abstracted like Model PTok"""
    out = []
    params = funcdef.children[2]
    for c in params.children[1:-1]:
        if c.type == 'param':
            out.append({'t': 'param', 'name': c.name.value, 'stars': c.star_count,
                        'ann': c.annotation.get_code(include_prefix=False) if c.annotation is not None else None,
                        'dflt': c.default.get_code(include_prefix=False) if c.default is not None else None})
        elif c == '*':
            out.append({'t': 'star'})
        elif c == '/':
            out.append({'t': 'slash'})
        elif c == ',':
            continue
        else:
            raise Unmodelled('parameters child ' + c.type)
    return out


def find_funcdef(module, name):
    for fd in module.iter_funcdefs():
        if fd.name.value == name:
            return fd
    for cd in module.iter_classdefs():
        for fd in cd.iter_funcdefs():
            if fd.name.value == name:
                return fd
    return None


def real_case(src, line, col, path=None):
    """everything the API shows for one cursor position; dict or {'exc': ...}"""
    import jedi
    try:
        script = jedi.Script(src, path=path)
        sigs = script.get_signatures(line, col)
        if len(sigs) != 1:
            return {'nsigs': len(sigs)}
        s = sigs[0]
        cd = s._call_details
        res = {
            'nsigs': 1,
            'index': s.index,
            'bracket': list(s.bracket_start),
            'params': [{'name': p.name, 'kind': int(p.kind), 'str': p.to_string()} for p in s.params],
            'to_string': s.to_string(),
            'triples': [[a, b, c] for a, b, c in cd._list_arguments()],
            'count_pos': cd.count_positional_arguments(),
            'used_kw': list(cd.iter_used_keyword_arguments()),
        }
        try:
            res['nodes'] = abstract_nodes(cd)
        except Unmodelled as e:
            res['nodes'] = None
            res['unmodelled'] = str(e)
        return res
    except Exception as e:  # noqa
        cls, site = common.exc_site(e)
        return {'exc': cls, 'site': site}


# ------------------------------------------------------------------ direct oracle

class Sentinel:
    def __repr__(self):
        return '<S>'


def exec_def(src, expr):
    g = {'__name__': 'c11mod'}
    exec(compile(src, '<c11>', 'exec'), g)
    return eval(expr, g), g


def py_params(obj):
    sig = inspect.signature(obj)
    return sig, [(p.name, int(p.kind)) for p in sig.parameters.values()]


def make_probe(pysig):
    """a function with the parameter names and kinds of `pysig`, every parameter optional,
    returning its locals: CPython itself does the binding"""
    parts = []
    seen_kwonly_marker = False
    params = list(pysig.parameters.values())
    for i, p in enumerate(params):
        if p.kind == p.POSITIONAL_ONLY:
            parts.append('%s=_D' % p.name)
            if i + 1 == len(params) or params[i + 1].kind != p.POSITIONAL_ONLY:
                parts.append('/')
        elif p.kind == p.POSITIONAL_OR_KEYWORD:
            parts.append('%s=_D' % p.name)
        elif p.kind == p.VAR_POSITIONAL:
            parts.append('*' + p.name)
            seen_kwonly_marker = True
        elif p.kind == p.KEYWORD_ONLY:
            if not seen_kwonly_marker:
                parts.append('*')
                seen_kwonly_marker = True
            parts.append('%s=_D' % p.name)
        else:
            parts.append('**' + p.name)
    g = {'_D': None}
    exec('def probe(%s):\n    return locals()\n' % ', '.join(parts), g)
    return g['probe'], [p.name for p in params], {p.name: int(p.kind) for p in params}


def bind_one(probe, names, kinds, npos, kws, cur):
    """index of the parameter that receives the sentinel, None on TypeError.
    cur: ('pos',) or ('kw', name)"""
    S = Sentinel()
    args = [0] * npos
    kwargs = {k: 0 for k in kws}
    if cur[0] == 'pos':
        if kws:
            return 'syntax'
        args.append(S)
    else:
        if cur[1] in kwargs:
            return 'syntax'
        kwargs[cur[1]] = S
    try:
        loc = probe(*args, **kwargs)
    except TypeError:
        return None
    for i, n in enumerate(names):
        v = loc[n]
        if v is S:
            return i
        if kinds[n] == 2 and any(x is S for x in v):
            return i
        if kinds[n] == 4 and any(x is S for x in v.values()):
            return i
    raise common.InfraError('sentinel not found in %r' % (loc,))


def prefix_ok(probe, npos, kws):
    try:
        probe(*([0] * npos), **{k: 0 for k in kws})
        return True
    except TypeError:
        return False


def completions(cur, names, has_prev_kw):
    """the arguments the typed text can still become -> (list of ('pos',)|('kw', n), exact?)"""
    t = cur['t']
    if t == 'expr':
        return [('pos',)], True
    if t == 'kwOpen' or (t == 'kwArg' and cur['eqBefore']):
        return [('kw', cur['s'])], True
    if t == 'kwArg':
        pre = cur['s'][:cur['cut']]
        return [('kw', cur['s'])] + [('kw', n) for n in names if n.startswith(pre)] + \
            [('kw', pre + '_unknown_')] + ([] if has_prev_kw else [('pos',)]), False
    if t == 'name':
        pre = cur['s'][:cur['cut']]
        return ([] if has_prev_kw else [('pos',)]) + [('kw', n) for n in names if n.startswith(pre)] + \
            [('kw', pre + '_unknown_')], False
    if t == 'empty':
        return ([] if has_prev_kw else [('pos',)]) + [('kw', n) for n in names] + [('kw', '_unknown_')], False
    return None, False


def classify_cell(pykinds, names, prev, cur):
    """names the two known deviation cells (DESIGN F17 / F18) from the input alone"""
    npos = sum(1 for a in prev if a[0] == 'pos')
    nfix = sum(1 for k in pykinds if k in (0, 1))
    if cur['t'] == 'expr' and npos >= nfix and 2 not in pykinds and all(a[0] == 'pos' for a in prev):
        return 'H1-positional-without-slot'
    if (cur['t'] == 'kwOpen' or (cur['t'] == 'kwArg' and cur['eqBefore'])) and 4 in pykinds:
        if cur['s'] in names:
            i = names.index(cur['s'])
            if pykinds[i] == 1 and i < npos:
                return 'H2-keyword-already-positional'
    return 'regular'


def oracle_index(ctx, case, obj_sig, real):
    """the property's index clause on the real answer"""
    prev, cur = case['prev_specs'], case['cur']
    if any(a[0] == 'star' for a in prev):
        ctx.count('oracle:index-unjudged', None, nontrivial=False, bucket='after-star')
        return
    seen_kw = False
    kws = []
    for a in prev:
        if a[0] == 'kw':
            if a[1] in kws:
                ctx.count('oracle:index-unjudged', None, nontrivial=False, bucket='syntax-error-prefix')
                return
            kws.append(a[1])
            seen_kw = True
        elif seen_kw:
            ctx.count('oracle:index-unjudged', None, nontrivial=False, bucket='syntax-error-prefix')
            return
    npos = sum(1 for a in prev if a[0] == 'pos')
    probe, names, kinds = make_probe(obj_sig)
    comps, exact = completions(cur, names, bool(kws))
    if comps is None:
        ctx.count('oracle:index-unjudged', None, nontrivial=False, bucket='star-argument')
        return
    if not prefix_ok(probe, npos, kws):
        ctx.count('oracle:index-unjudged', None, nontrivial=False, bucket='earlier-arguments-already-fail')
        return
    results = [bind_one(probe, names, kinds, npos, kws, c) for c in comps]
    if exact and results == ['syntax']:
        ctx.count('oracle:index-unjudged', None, nontrivial=False, bucket='syntax-error-prefix')
        return
    acceptable = sorted({r for r in results if r is not None and r != 'syntax'})
    got = real['index']
    ok = (got in acceptable) if acceptable else (got is None)
    pyk = [kinds[n] for n in names]
    cell = classify_cell(pyk, names, prev, cur)
    ctx.count('oracle:index', (case['src'], case['col']), nontrivial=True,
              bucket='%s/%s/%s' % (cur['t'], 'exact' if exact else 'some-completion', cell),
              sample={'source': case['src'], 'line': case['line'], 'column': case['col'],
                      'index': got, 'python_binds': acceptable})
    if not ok:
        observed = {'index': got, 'python_binds': acceptable if acceptable else None,
                    'python_signature': str(obj_sig)}
        if got is not None and not acceptable and exact:
            # which parameter did jedi pick?
            k = pyk[got] if got < len(pyk) else None
            unused_ko = [i for i, n in enumerate(names) if pyk[i] == 3 and n not in kws]
            if k == 4 or (unused_ko and got == unused_ko[0]):
                observed['picked'] = 'first-unused-keyword-only-or-var-keyword'
        ctx.fail('oracle:index', 'index is not the parameter Python binds the argument under the cursor to',
                 {'source': case['src'], 'line': case['line'], 'column': case['col'], 'cell': cell},
                 expected=acceptable if acceptable else None, observed=observed,
                 how='jedi.Script(source).get_signatures(line, column)[0].index; ground truth: real call of the '
                     'executed definition with a sentinel in the cursor slot')


def expected_bracket(src, line, col):
    """innermost unclosed `(` before the cursor on the cursor's line (generated texts have no
    parentheses inside string literals)"""
    text = src.split('\n')[line - 1][:col]
    stack = []
    for i, ch in enumerate(text):
        if ch in '([{':
            stack.append((ch, i))
        elif ch in ')]}':
            if stack:
                stack.pop()
    while stack and stack[-1][0] != '(':
        stack.pop()
    return [line, stack[-1][1]] if stack else None


def sig_from_text(to_string):
    """re-parse `name(params) -> ann` by executing a definition made of it"""
    g = {}
    exec('def %s:\n    pass\n' % to_string, g)
    fn = [v for k, v in g.items() if k != '__builtins__'][0]
    return inspect.signature(fn)


def sig_equal(a, b):
    pa, pb = list(a.parameters.values()), list(b.parameters.values())
    if len(pa) != len(pb):
        return False
    for x, y in zip(pa, pb):
        if (x.name, x.kind) != (y.name, y.kind):
            return False
        if (x.default is inspect.Parameter.empty) != (y.default is inspect.Parameter.empty):
            return False
        if x.default is not inspect.Parameter.empty and x.default != y.default:
            return False
        if x.annotation != y.annotation:
            return False
    return True


def oracle_signature(ctx, case, real, pysig, pyparams, is_class):
    how = 'jedi.Script(source).get_signatures(line, column)[0]; ground truth: inspect.signature(%s) after exec' \
        % case['callee']
    base = {'source': case['def_src'], 'callee': case['callee'], 'feature': case.get('feature', 'plain')}
    got = [(p['name'], p['kind']) for p in real['params']]
    ctx.count('oracle:params', (case['def_src'], case['callee']), nontrivial=bool(pyparams),
              bucket='%s/n=%d' % (case['kind'], len(pyparams)))
    if got != pyparams:
        ctx.fail('oracle:params', 'parameter names/kinds differ from inspect.signature of the executed definition',
                 base, expected=[[n, KIND_NAMES[k]] for n, k in pyparams],
                 observed=[[n, KIND_NAMES[k]] for n, k in got], how=how)
    # to_string re-parses to the same signature (names, kinds, defaults, annotations, order)
    try:
        again = sig_from_text(real['to_string'])
        err = None
    except Exception as e:  # noqa
        again, err = None, repr(e)
    expected_sig = pysig
    if is_class:
        expected_sig = pysig.replace(return_annotation=inspect.Signature.empty)
    if again is None or not sig_equal(again, expected_sig) or \
            again.return_annotation != expected_sig.return_annotation:
        ctx.fail('oracle:to_string', 'to_string() does not re-parse to the signature of the executed definition',
                 base, expected=str(expected_sig), observed={'to_string': real['to_string'], 'error': err,
                                                             'reparsed': str(again) if again is not None else None},
                 how=how)
    ctx.count('oracle:to_string', (case['def_src'], case['callee']), nontrivial=True, bucket=case['kind'])


# ------------------------------------------------------------------ main stream

def build_cases(ctx):
    rng = ctx.subrng('sig')
    cases = []
    all_shapes = shapes(4)
    if ctx.quick:
        n_defs = 160
        sigs = []
        for _ in range(n_defs):
            sh = rng.choice(all_shapes + shapes(6)[::7])
            sigs.append(rng.choice(sig_variants(sh, rng, False)))
        kinds_for = lambda i: [CALLABLES[i % len(CALLABLES)]]
        calls_per = 2
    else:
        sigs = []
        for sh in all_shapes:
            sigs += sig_variants(sh, rng, True)
        for _ in range(400):
            sigs.append(rng.choice(sig_variants(rng.choice(shapes(6)), rng, False)))
        kinds_for = lambda i: CALLABLES
        calls_per = 1
    for i, sig0 in enumerate(sigs):
        for kind in kinds_for(i):
            sig = sig0
            ret = 'int' if (not kind.startswith('init') and rng.random() < 0.25) else ''
            feature = 'plain'
            if kind.endswith('_raw'):
                sig = raw_sig(sig, rng)
                names = sig_names(py_bound(sig))
                if not sig['po'] and not sig['pk']:
                    feature = 'bound-var-positional-first'
            else:
                names = sig_names(sig)
            def_src, callee, fname, dsig, bound = definition(kind, sig, ret)
            pre = def_src + 'xv = 1\nxs = ()\nkws = {}\n'
            line = pre.count('\n') + 1
            for _ in range(calls_per):
                n = rng.choice([0, 1, 1, 2, 2, 3, 3, 4, 5])
                args = gen_args(rng, names, n, wellformed=rng.random() < 0.85)
                for text, col, prev, cur, mode in cursor_cases(args, callee, rng,
                                                               all_slots=(not ctx.quick) and i % 4 == 0):
                    cases.append({'kind': kind, 'sig': sig, 'dsig': dsig, 'bound': bound, 'fname': fname,
                                  'ret': ret, 'def_src': def_src, 'callee': callee,
                                  'src': pre + text, 'line': line, 'col': col,
                                  'prev_specs': prev, 'cur': cur, 'mode': mode, 'feature': feature})
    return cases


def dedupe(cases):
    seen = set()
    out = []
    for c in cases:
        k = (c['src'], c['col'])
        if k not in seen:
            seen.add(k)
            out.append(c)
    return out


def _real_tuple(t):
    return real_case(*t)


def run_real(cases, jobs=1):
    """the real code on every case (thorough tier: spread over processes)"""
    if jobs > 1 and len(cases) > 5000:
        import multiprocessing
        with multiprocessing.Pool(jobs) as pool:
            res = pool.map(_real_tuple, [(c['src'], c['line'], c['col']) for c in cases], chunksize=250)
        for c, r in zip(cases, res):
            c['real'] = r
        return cases
    for c in cases:
        c['real'] = real_case(c['src'], c['line'], c['col'])
    return cases


def request_of(c):
    return {'op': 'case', 'sig': c['dsig'], 'bound': c['bound'], 'fname': c['fname'], 'ret': c['ret'],
            'prev': [arg_json(a) for a in c['prev_specs']], 'cur': c['cur'],
            'nodes': (c['real'].get('nodes') or []) if 'real' in c else []}


def case_key(c):
    return {'source': c['src'], 'line': c['line'], 'column': c['col']}


def compare_case(ctx, c, m, parsed_defs):
    real = c['real']
    key = (c['src'], c['col'])
    ck = case_key(c)
    bucket = '%s/%s/%s' % (c['kind'], c['mode'], c['cur']['t'])
    if 'exc' in real:
        ctx.count('raised', key, nontrivial=False, bucket='%s@%s' % (real['exc'], real['site']))
        ctx.fail('oracle:raised', 'get_signatures / Signature attribute raised inside a call', ck,
                 observed=real, how='jedi.Script(source).get_signatures(line, column)')
        return False
    if real['nsigs'] != 1:
        ctx.count('oracle:reported', key, nontrivial=True, bucket=bucket)
        ctx.fail('oracle:reported', 'no (or more than one) signature reported inside the call parentheses', ck,
                 expected=1, observed={'signatures': real['nsigs']},
                 how='len(jedi.Script(source).get_signatures(line, column))')
        return False
    diffs = []

    def cmp(stream, impl, model, nontrivial=True):
        ctx.count(stream, key, nontrivial=nontrivial, bucket=bucket,
                  sample={'case': ck, 'impl': impl})
        if impl != model:
            ctx.tie_broken('correspondence:' + stream, short({'case': ck, 'impl': impl, 'model': model}, 1500))
            diffs.append(stream)

    cmp('params', real['params'], m['params'], nontrivial=bool(real['params']))
    cmp('to_string', real['to_string'], m['to_string'])
    cmp('bracket', real['bracket'], [c['line'], len(c['callee'])])
    if real.get('nodes') is not None:
        cmp('nodes', [norm_node(x) for x in flatten(real['nodes'])], [norm_node(x) for x in m['gnodes']])
        cmp('iter_args', real['triples'], m['rtriples'])
    else:
        ctx.count('unmodelled', key, nontrivial=False, bucket=real.get('unmodelled'))
    cmp('triples', real['triples'], m['gtriples'])
    cmp('index', real['index'], m['gindex'])
    cmp('helpers', [real['count_pos'], real['used_kw']], [m['count_pos'], m['used_kw']])
    # parso's children of `parameters` vs Sig.toks (once per definition)
    dk = c['def_src']
    if dk not in parsed_defs:
        parsed_defs[dk] = True
        import parso
        mod = parso.parse(c['def_src'])
        fd = find_funcdef(mod, '__init__' if c['kind'].startswith('init') else c['fname'])
        try:
            cmp('ptoks', ptoks_of(fd), m['toks'])
        except Unmodelled as e:
            ctx.count('unmodelled', key, nontrivial=False, bucket=str(e))
    return True


def run_oracle(ctx, c, objs):
    real = c['real']
    if 'exc' in real or real['nsigs'] != 1:
        return
    ok = (c['def_src'], c['callee'])
    if ok not in objs:
        obj, _ = exec_def(c['def_src'], c['callee'])
        pysig, pyparams = py_params(obj)
        objs[ok] = (obj, pysig, pyparams, False)
        first = True
    else:
        first = False
    obj, pysig, pyparams, _ = objs[ok]
    if first:
        oracle_signature(ctx, c, real, pysig, pyparams, inspect.isclass(obj))
    # bracket_start is the position of the opening parenthesis
    exp = expected_bracket(c['src'], c['line'], c['col'])
    ctx.count('oracle:bracket', (c['src'], c['col']), nontrivial=True, bucket=c['mode'])
    line_text = c['src'].split('\n')[real['bracket'][0] - 1] if 1 <= real['bracket'][0] <= c['src'].count('\n') + 1 else ''
    ch = line_text[real['bracket'][1]:real['bracket'][1] + 1]
    if ch != '(' or real['bracket'] != exp:
        ctx.fail('oracle:bracket', 'bracket_start is not the position of the opening parenthesis of the call',
                 case_key(c), expected=exp, observed={'bracket_start': real['bracket'], 'char': ch},
                 how='jedi.Script(source).get_signatures(line, column)[0].bracket_start')
    oracle_index(ctx, c, pysig, real)


# ------------------------------------------------------------------ histories on one path

# kinds whose call text is the same: an edit can turn one into the other without touching the call
HIST_FAMILIES = [('f', ['function']), ('C().m', ['method', 'method_raw']),
                 ('C.m', ['classmethod', 'staticmethod', 'unbound', 'classmethod_raw']),
                 ('C', ['init', 'init_raw'])]
HIST_TAIL = 'xv = 1\nxs = ()\nkws = {}\n'
HIST_LAYOUTS = ['same-call', 'same-call', 'same-call', 'moved-call', 'edited-call', 'no-path', 'other-path']


class _Recorder:
    """stands in for ctx while one answer is judged by the per-request oracle: collects the failures"""
    def __init__(self):
        self.fails = []

    def count(self, *a, **k):
        pass

    def fail(self, stream, what, case, expected=None, observed=None, kind='property', how=None):
        self.fails.append({'stream': stream, 'what': what, 'expected': expected, 'observed': observed})
        return True


def gen_history(rng):
    """an editor session on one file: successive contents whose called definition differs (parameter
    list, kind of callable) while the call keeps its text - and, in layout same-call, its position.
    Every step is a complete per-request case of the main stream (same generators)."""
    callee, kinds = rng.choice(HIST_FAMILIES)
    layout = rng.choice(HIST_LAYOUTS)
    nver = rng.choice([2, 2, 3, 3, 4])
    small = shapes(4)
    vers = []
    for _ in range(nver):
        kind = rng.choice(kinds)
        sig = rng.choice(sig_variants(rng.choice(small), rng, False))
        feature = 'plain'
        if kind.endswith('_raw'):
            sig = raw_sig(sig, rng)
            names = sig_names(py_bound(sig))
        else:
            names = sig_names(sig)
        ret = 'int' if (not kind.startswith('init') and rng.random() < 0.25) else ''
        def_src, callee_, fname, dsig, bound = definition(kind, sig, ret)
        assert callee_ == callee
        vers.append({'kind': kind, 'sig': sig, 'dsig': dsig, 'bound': bound, 'fname': fname, 'ret': ret,
                     'def_src': def_src, 'names': names, 'feature': feature})
    if nver >= 3 and rng.random() < 0.4:
        vers[-1] = vers[0]          # the edit is undone
    height = max(v['def_src'].count('\n') for v in vers)
    pool = []
    for v in vers:
        pool += [n for n in v['names'] if n not in pool]
    rng.shuffle(pool)

    def one_call():
        args = gen_args(rng, pool[:4], rng.choice([0, 1, 1, 2, 2, 3, 4]), wellformed=rng.random() < 0.85)
        return rng.choice(cursor_cases(args, callee, rng, False))
    call = one_call()
    steps = []
    for i, v in enumerate(vers):
        pad = height - v['def_src'].count('\n')
        if layout == 'moved-call':
            pad += i
        if layout == 'edited-call' and i:
            call = one_call()
        text, col, prev, cur, mode = call
        pre = v['def_src'] + '\n' * pad + HIST_TAIL
        c = {k: v[k] for k in ('kind', 'sig', 'dsig', 'bound', 'fname', 'ret', 'def_src', 'feature')}
        c.update({'callee': callee, 'src': pre + text, 'line': pre.count('\n') + 1, 'col': col,
                  'prev_specs': prev, 'cur': cur, 'mode': mode,
                  'file': None if layout == 'no-path' else
                  ('mod%d.py' % i if layout == 'other-path' else 'mod.py')})
        steps.append(c)
    return {'layout': layout, 'callee': callee, 'steps': steps}


def _hist_dir():
    import tempfile
    return tempfile.mkdtemp(prefix='verif-c11-hist-', dir='/var/tmp')


def hist_play(steps, upto=None):
    """the real code on the steps in order, right after each other (well inside any time-based validity):
    the content is written to the file, then a new Script(code, path=file) is asked. -> list of answers"""
    import os
    import shutil
    d = _hist_dir()
    out = []
    try:
        for c in steps[:upto]:
            path = None
            if c['file'] is not None:
                path = os.path.join(d, c['file'])
                with open(path, 'w', encoding='utf-8') as f:
                    f.write(c['src'])
            out.append(real_case(c['src'], c['line'], c['col'], path=path))
    finally:
        shutil.rmtree(d, ignore_errors=True)
    return out


def hist_judge(c, real):
    """the per-request oracle (executed definition, inspect.signature, re-parse of to_string, real calls
    with a sentinel, position of the parenthesis) on ONE answer -> list of failures"""
    rec = _Recorder()
    if 'exc' in real:
        rec.fail('oracle:raised', 'get_signatures / Signature attribute raised inside a call', None, observed=real)
    elif real['nsigs'] != 1:
        rec.fail('oracle:reported', 'no (or more than one) signature reported inside the call parentheses', None,
                 expected=1, observed={'signatures': real['nsigs']})
    else:
        cc = dict(c)
        cc['real'] = real
        run_oracle(rec, cc, {})
    return rec.fails


def _hist_public(steps, j):
    return {'history': [{'file': c['file'], 'source': c['src'], 'line': c['line'], 'column': c['col']}
                        for c in steps[:j + 1]],
            'line': steps[j]['line'], 'column': steps[j]['col'], 'judged_step': j,
            'definition': steps[j]['def_src'], 'callee': steps[j]['callee']}


def _hist_sig(fails):
    return sorted(json.dumps([f['stream'], f['expected'], f['observed']], sort_keys=True, default=repr) for f in fails)


def stream_history(ctx, objs):
    """C11 over HISTORIES: every answer of an edit-and-ask-again session on one path is judged on its
    own against the source that Script was given (exec + inspect.signature + real calls).  A failure
    that the same source shows without any history (no path) is a per-request matter and goes through
    the ordinary oracle streams; a failure that only the history produces is reported here with the
    shortest sub-history that still produces it."""
    rng = ctx.subrng('history')
    n = ctx.size(70, 1200)
    reported = 0
    for _ in range(n):
        h = gen_history(rng)
        steps = h['steps']
        answers = hist_play(steps)
        for j, (c, real) in enumerate(zip(steps, answers)):
            changed = j > 0 and steps[j - 1]['def_src'] != c['def_src']
            ctx.count('oracle:history', (c['src'], c['col'], j, h['layout']), nontrivial=changed,
                      bucket='%s/%s/step=%d' % (h['layout'], h['callee'], j),
                      sample={'layout': h['layout'], 'step': j, 'source': c['src'], 'line': c['line'],
                              'column': c['col'], 'to_string': real.get('to_string'), 'index': real.get('index')})
            fails = hist_judge(c, real)
            if not fails:
                continue
            # the same request without history
            alone = real_case(c['src'], c['line'], c['col'])
            fails0 = hist_judge(c, alone)
            if _hist_sig(fails0) == _hist_sig(fails):
                ctx.count('oracle:history-per-request', None, nontrivial=False, bucket=fails[0]['stream'])
                cc = dict(c)
                cc['real'] = alone
                if 'exc' not in alone and alone['nsigs'] == 1:
                    run_oracle(ctx, cc, objs)       # judged (known findings included) like any single request
                continue
            if reported >= 3:
                ctx.violations.append(None)
                continue
            reported += 1
            # shortest sub-history ending in step j that still fails although the request alone does not
            best = list(range(j + 1))
            for i in range(j - 1, -1, -1):
                r = hist_play([steps[i], steps[j]])[-1]
                fr = hist_judge(c, r)
                if fr and _hist_sig(fr) != _hist_sig(fails0):
                    best, fails, real = [i, j], fr, r
                    break
            sub = [steps[i] for i in best]
            f0 = fails[0]
            ctx.fail('oracle:history',
                     'the answer of get_signatures for the edited file does not mirror the definition in the '
                     'source it was given (the same request without the earlier Script on that path is answered '
                     'correctly): ' + f0['what'],
                     dict(_hist_public(sub, len(sub) - 1), layout=h['layout']),
                     expected=f0['expected'],
                     observed={'failed_clause': f0['stream'], 'observed': f0['observed'],
                               'to_string': real.get('to_string'), 'index': real.get('index'),
                               'all_failed_clauses': [f['stream'] for f in fails],
                               'same_request_without_history': {'to_string': alone.get('to_string'),
                                                                'index': alone.get('index'),
                                                                'failed_clauses': [f['stream'] for f in fails0]}},
                     how='for each entry of input.history in order: write source to <tmpdir>/<file>, '
                         'jedi.Script(source, path=<tmpdir>/<file>).get_signatures(line, column) (no pause in '
                         'between); the last answer is compared with inspect.signature(callee) / real calls of '
                         'the executed last source. ./check C11 --replay <this file>')


class _FakeClock:
    """stands in for the module `time` inside jedi.cache: the history decides what time it is"""
    def __init__(self):
        self.ms = 1000000

    def time(self):
        return self.ms / 1000.0


# pauses between two requests, milliseconds (exact binary fractions of a second: `expiry > time.time()`
# is then the same comparison in floats and in the model's integers); validity is 3000
HIST_PAUSES = [0, 0, 125, 1500, 2875, 3000, 3125, 8000]


def stream_sigcache(ctx, reqs, metas):
    """the real helpers.cache_signatures behind the real cache.signature_time_cache (called the way
    Script.get_signatures calls it: real parso bracket leaf, real context, real code_lines) over
    histories on one path with a clock the history controls; the callee inference is replaced by a
    counter (which Script computed the value).  vs `SigCache.call` folded over the same requests:
    answer, whether an entry was stored, the matched text of its key, size of the dictionary."""
    import os
    import shutil
    import jedi
    from jedi import cache as jcache
    from jedi.api import helpers
    rng = ctx.subrng('sigcache')
    n = ctx.size(60, 800)
    dct = jcache._time_caches.get('call_signatures_validity')
    if dct is None:
        ctx.tie_broken('correspondence:sigcache', "jedi.cache._time_caches has no 'call_signatures_validity'")
        return
    clock = _FakeClock()
    current = [0]
    saved = (jcache.time, helpers.infer)
    jcache.time = clock
    helpers.infer = lambda *a, **k: current[0]
    d = _hist_dir()
    try:
        for hno in range(n):
            h = gen_history(rng)
            dct.clear()
            if rng.random() < 0.3:       # ask twice without an edit in between
                k = rng.randrange(len(h['steps']))
                h['steps'].insert(k, h['steps'][k])
            variant = rng.choice(['one-line', 'one-line', 'cursor-below', 'cursor-below-paren'])
            req_list, real_list = [], []
            for j, c in enumerate(h['steps']):
                src, line, col = c['src'], c['line'], c['col']
                if variant != 'one-line':
                    head = src[:src.rindex('\n') + 1] + c['callee'] + '('
                    tail = '\n    ' + ('(1' if variant == 'cursor-below-paren' else 'xv')
                    src, line, col = head + tail, line + 1, len(tail) - 1
                path = os.path.join(d, 'h%d' % hno, c['file']) if c['file'] is not None else None
                clock.ms += rng.choice(HIST_PAUSES)
                current[0] = j
                script = jedi.Script(src, path=path)
                cd = helpers.get_signature_details(script._module_node, (line, col))
                if cd is None:
                    ctx.count('unmodelled', None, nontrivial=False, bucket='sigcache: no call details')
                    continue
                context = script._get_module_context().create_context(cd.bracket_leaf)
                try:
                    ans = helpers.cache_signatures(script._inference_state, context, cd.bracket_leaf,
                                                   script._code_lines, (line, col))
                except IndexError:
                    ans = None
                # the value `j` exists only if THIS call ran the (stubbed) inference and stored it
                mine = [k for k, e in dct.items() if e[1] == j]
                text = None
                if mine:
                    m = mine[0][1]
                    text = m if isinstance(m, str) else m.group(0)
                real_list.append({'answer': ans, 'stored': bool(mine), 'text': text, 'size': len(dct)})
                req_list.append({'path': path, 'lines': list(script._code_lines), 'bracket': list(cd.bracket_leaf.start_pos),
                                 'cursor': [line, col], 'scriptAt': clock.ms, 'now': clock.ms, 'fresh': j})
            reqs.append({'op': 'sigcache', 'reqs': req_list})
            metas.append(('sigcache', {'layout': h['layout'], 'variant': variant,
                                       'requests': [{k: r[k] for k in ('path', 'lines', 'bracket', 'cursor', 'scriptAt', 'now')}
                                                    for r in req_list]}, real_list))
    finally:
        jcache.time, helpers.infer = saved
        dct.clear()
        shutil.rmtree(d, ignore_errors=True)


# ------------------------------------------------------------------ stream: kinds (invalid lists)

def stream_kinds(ctx, reqs, metas):
    """child lists parso's error recovery keeps as one `parameters` node although Python rejects
    them (two bare stars, parameters after **kwargs, ...): get_kind is total, the model too."""
    import jedi
    rng = ctx.subrng('kinds')
    atoms = ['a', 'b', 'c', '*', '/', '*v', '**k', '__d']
    n = ctx.size(100, 1500)
    for _ in range(n):
        toks = [rng.choice(atoms) for _ in range(rng.randint(1, 5))]
        # distinct names
        seen = set()
        toks2 = []
        for t in toks:
            if t in ('*', '/'):
                toks2.append(t)
            else:
                nm = t.lstrip('*')
                while nm in seen:
                    nm += 'x'
                seen.add(nm)
                toks2.append(t[:len(t) - len(t.lstrip('*'))] + nm)
        src = 'def f(%s): pass\nf(' % ', '.join(toks2)
        import parso
        mod = parso.parse(src)
        fds = list(mod.iter_funcdefs())
        if len(fds) != 1 or fds[0].children[2].type != 'parameters':
            ctx.count('unmodelled', src, nontrivial=False, bucket='kinds: no funcdef recovered')
            continue
        try:
            pt = ptoks_of(fds[0])
        except Unmodelled as e:
            ctx.count('unmodelled', src, nontrivial=False, bucket='kinds: ' + str(e))
            continue
        if fds[0].get_code() .strip() != src.split('\n')[0]:
            ctx.count('unmodelled', src, nontrivial=False, bucket='kinds: partial recovery')
            continue
        real = real_case(src, 2, 2)
        if 'exc' in real or real.get('nsigs') != 1:
            ctx.count('unmodelled', src, nontrivial=False, bucket='kinds: no signature')
            continue
        reqs.append({'op': 'kinds', 'toks': pt, 'bound': False, 'fname': 'f', 'ret': ''})
        metas.append(('kinds', {'source': src}, real))


# ------------------------------------------------------------------ stream: pybind

def stream_pybind(ctx, reqs, metas):
    """the Python side of index_eq_pyBind_partial against CPython itself"""
    rng = ctx.subrng('pybind')
    shs = shapes(4)
    n = ctx.size(500, 12000)
    for _ in range(n):
        sh = rng.choice(shs)
        sig = rng.choice(sig_variants(sh, rng, False))
        names = sig_names(sig)
        obj, _ = exec_def('def f(%s): pass\n' % sig_text(sig), 'f')
        pysig = inspect.signature(obj)
        probe, pnames, kinds = make_probe(pysig)
        npos = rng.randint(0, 4)
        pool = [x for x in names + ['zz'] if rng.random() < 0.4]
        kws = list(dict.fromkeys(pool))[:2]
        if rng.random() < 0.5:
            kws = []
        choices = [('kw', x) for x in names + ['zz', 'qq'] if x not in kws]
        if not kws:
            choices += [('pos',)] * max(1, len(choices) // 2)
        cur = rng.choice(choices)
        if not prefix_ok(probe, npos, kws):
            # pyBind's contract does not cover prefixes that already fail
            continue
        want = bind_one(probe, pnames, kinds, npos, kws, cur)
        reqs.append({'op': 'pybind', 'sig': sig,
                     'prev': [{'t': 'pos'}] * npos + [{'t': 'kw', 'n': k} for k in kws],
                     'cur': {'t': 'pos'} if cur[0] == 'pos' else {'t': 'kw', 'n': cur[1]}})
        metas.append(('pybind', {'def': 'def f(%s)' % sig_text(sig), 'npos': npos, 'kws': kws, 'cur': list(cur)}, want))


# ------------------------------------------------------------------ stream: pybound

def stream_pybound(ctx, reqs, metas):
    """the Python side of bound_eq_pyBound (`pyBound`) against inspect.signature of the bound object:
    every shape up to 4 parameters (thorough: 6) as method / classmethod / __init__, no extra self"""
    rng = ctx.subrng('pybound')
    for sh in shapes(ctx.size(4, 6)):
        sig = sig_variants(sh, rng, False)[0]
        kind = rng.choice(['method_raw', 'classmethod_raw', 'init_raw']) if ctx.quick else None
        for k in ([kind] if kind else ['method_raw', 'classmethod_raw', 'init_raw']):
            def_src, callee, _, _, _ = definition(k, sig, '')
            obj, _ = exec_def(def_src, callee)
            try:
                want = [[p.name, int(p.kind)] for p in inspect.signature(obj).parameters.values()]
            except ValueError:
                want = None
            reqs.append({'op': 'pybound', 'sig': sig})
            metas.append(('pybound', {'source': def_src, 'callee': callee}, want))


# ------------------------------------------------------------------ stream: docstrings

DOCS = [
    # (literal text put as first statement, feature tag)
    ('"hello"', 'plain'),
    ("'''hello\n       world\n         indented\n\n    '''", 'triple'),
    ('"""  leading and trailing  """', 'triple'),
    ('r"he\\nllo"', 'raw'),
    ('u"hello"', 'u-prefix'),
    ('"\\tx\\n\\ty"', 'tabs'),
    ('""', 'empty'),
    ('"  "', 'blank'),
    (None, 'none'),
    ('"first line\\n\\n    second para\\n      deeper"', 'escaped-newlines'),
    ('"he" "llo"', 'concatenated'),
    ('("hello")', 'parenthesised'),
    ('b"hello"', 'bytes'),
    ('f"hello"', 'fstring'),
    ('"hello"; x = 1', 'plain'),
]


def stream_docs(ctx, reqs, metas):
    import jedi
    rng = ctx.subrng('doc')
    sig = {'po': [], 'pk': [P('a'), P('b', dflt='1')], 'vp': None, 'ko': [], 'vk': None}
    for doc, tag in DOCS:
        for kind in ('function', 'method', 'init', 'class', 'staticmethod'):
            if kind == 'class':
                src = 'class C:\n' + ('    %s\n' % doc if doc else '') + '    def __init__(self, a, b=1):\n        "init doc"\n'
                callee = 'C'
            else:
                src, callee, fname, dsig, bound = definition(kind, sig, '', doc)
            full = src + callee
            line = full.count('\n') + 1
            case = {'source': src, 'expr': callee, 'feature': tag}
            how = 'jedi.Script(source + expr).infer(line, len(expr))[0].docstring(raw=True) vs inspect.getdoc'
            try:
                obj, _ = exec_def(src, callee)
            except Exception as e:  # noqa
                raise common.InfraError('docstring generator produced a bad program: %r\n%s' % (e, src))
            want = inspect.getdoc(obj) or ''
            if inspect.isclass(obj) and obj.__doc__ is None:
                want = ''
            try:
                ds = jedi.Script(full).infer(line, len(callee))
                if len(ds) != 1:
                    ctx.count('unmodelled', full, nontrivial=False, bucket='doc: %d definitions' % len(ds))
                    continue
                raw = ds[0].docstring(raw=True)
                whole = ds[0].docstring()
                sigs = [s.to_string() for s in ds[0].get_signatures()]
            except Exception as e:  # noqa
                cls, site = common.exc_site(e)
                ctx.count('oracle:doc', (src, callee), nontrivial=True, bucket=tag + '/' + kind)
                ctx.fail('oracle:doc', 'docstring() raised', case, expected=want,
                         observed={'exception': cls, 'site': site}, how=how)
                continue
            ctx.count('oracle:doc', (src, callee), nontrivial=True, bucket=tag + '/' + kind,
                      sample={'source': src, 'expr': callee, 'raw': raw})
            if raw != want:
                ctx.fail('oracle:doc', 'docstring(raw=True) differs from inspect.getdoc of the executed object',
                         case, expected=want, observed={'raw': raw}, how=how)
            # docstring() is that text preceded by the signature line(s)
            head = '\n'.join(sigs)
            lines_ok = whole.startswith(head) and whole.endswith(raw) and len(whole) >= len(head) + len(raw)
            if lines_ok:
                between = whole[len(head):len(whole) - len(raw)]
                lines_ok = between.strip('\n') == '' and (bool(between) or not (head and raw))
            if not lines_ok:
                ctx.fail('oracle:doc', 'docstring() is not the raw text preceded by the signature line(s)',
                         case, expected={'signatures': sigs, 'raw': raw}, observed={'docstring': whole}, how=how)
            reqs.append({'op': 'doc', 'sigs': sigs, 'doc': raw})
            metas.append(('doc', case, whole))



# ------------------------------------------------------------------ stream: docstring literals

DOCLIT_HOW = ('props/c11_doc.py:eval_program on the replay input: exec the definitions, '
              'jedi.Script(source).<way>(...) -> .docstring(raw=True) / .docstring() vs inspect.getdoc / '
              'inspect.signature of the executed object;  ./check C11 --replay <this file>')


def _lit_dict(lit):
    """classification of a corpus literal given as text"""
    i = 0
    while i < len(lit) and lit[i] not in '\'"':
        i += 1
    quote = lit[i:i + 3] if lit[i:i + 3] in ("'''", '"""') else lit[i:i + 1]
    return {'lit': lit, 'prefix': lit[:i], 'quote': quote, 'first_tag': 'corpus', 'first': '', 'multi': '\n' in lit}


def doclit_literals(ctx):
    import glob
    import os
    from gen import c11_doclits as DL
    lits = []
    for p in sorted(glob.glob(os.path.join(common.CORPUS_DIR, 'C11', '*.json'))):
        with open(p, encoding='utf-8') as f:
            for lit in json.load(f).get('doclits', []):
                if DL.literal_ok(lit):
                    lits.append(_lit_dict(lit))
    seen = {d['lit'] for d in lits}
    lits += [d for d in DL.literals(ctx.subrng('doclit'), ctx.quick) if d['lit'] not in seen]
    return lits


class _Background:
    """a call in a thread; used for common.parallel_map (fresh-interpreter workers evaluate the
    docstring programs) and for the Lean driver on the docstring-literal requests, both of which
    only wait for subprocesses while this process runs the other streams"""

    def __init__(self, fn, items=None):
        import threading
        self.items = items
        self.res = None
        self.err = None

        def work():
            try:
                self.res = fn()
            except BaseException as e:  # noqa
                self.err = e
        self.t = threading.Thread(target=work, daemon=True)
        self.t.start()

    def join(self):
        self.t.join()
        if self.err is not None:
            raise self.err if isinstance(self.err, common.InfraError) else common.InfraError(repr(self.err))
        return self.res


def doclit_start(ctx, lits):
    from gen import c11_doclits as DL
    items = DL.programs(lits, ctx.seed % DL.NSLOTS)
    return _Background(lambda: common.parallel_map('props.c11_doc', 'eval_program', items, jobs=14), items)


def _doclit_case(item, r):
    tr = [t for t in item['trailer'] if t['slot'] == r['slot']]
    feature = 'signature-docstring-of-classmethod' if (r['way'], r['kind']) == ('signatures', 'classmethod') \
        else 'literal'
    return {'source': item['source'], 'way': r['way'], 'slot': r['slot'], 'kind': r['kind'],
            'line': r['line'], 'column': r['column'], 'literal': r.get('lit'), 'feature': feature,
            'exec_len': item['exec_len'], 'trailer': tr, 'kinds': item['kinds']}


def _doclit_item_of_case(case):
    return {'source': case['source'], 'exec_len': case['exec_len'], 'trailer': case['trailer'],
            'kinds': case['kinds'], 'slots': [{'slot': case['slot'], 'lit': case.get('literal')}],
            'only': {'way': case['way'], 'slot': case['slot']}}


def _doclit_minimise(item, r):
    """the failing literal alone in its slot (every other slot `pass`): smaller replay if it still fails"""
    from gen import c11_doclits as DL
    from props import c11_doc
    if r.get('lit') is None:
        return item, r
    keys = [k[0] for k in DL.SLOTS]
    slots = [None] * DL.NSLOTS
    slots[keys.index(r['slot'])] = {'lit': r['lit']}
    small = DL.programs_from_slots(slots)
    small['only'] = {'way': r['way'], 'slot': r['slot']}
    try:
        recs = [x for x in c11_doc.eval_program(small) if x['fails']]
    except Exception:  # noqa
        return item, r
    for x in recs:
        if [f[0] for f in x['fails']] == [f[0] for f in r['fails']]:
            return small, x
    return item, r


def doclit_finish(ctx, bg, lits):
    results = bg.join()
    grid = ctx.hist.setdefault('doclit-literal-grid', {})
    for d in lits:
        k = '%s/%s/%s' % (d['prefix'].lower() or '-', d['quote'], d['first_tag'])
        grid[k] = grid.get(k, 0) + 1
    minimised = 0
    for item, recs in zip(bg.items, results):
        for r in recs:
            st = r['status']
            if st.startswith('unjudged'):
                ctx.count('oracle:doclit-unjudged', None, nontrivial=False,
                          bucket='%s/%s/%s' % (r['way'], r['kind'], st[9:80]))
                continue
            ctx.count('oracle:doclit', (r.get('lit'), r['way'], r['kind']), nontrivial=r.get('lit') is not None,
                      bucket='%s/%s' % (r['way'], r['kind']),
                      sample={'literal': r.get('lit'), 'way': r['way'], 'kind': r['kind'], 'raw': r.get('raw')})
            if not r['fails']:
                continue
            it, rr = item, r
            if minimised < 4 and ctx.match_known('oracle:doclit', _doclit_case(item, r), r['fails'][0][2]) is None:
                minimised += 1
                it, rr = _doclit_minimise(item, r)
            case = _doclit_case(it, rr)
            for what, exp, obs in rr['fails']:
                ctx.fail('oracle:doclit', what, case, expected=exp, observed=obs, how=DOCLIT_HOW)


def _py_literal_facts(lit):
    """(type ast.literal_eval yields: str | bytes | notLiteral, the value)"""
    import ast
    import warnings
    with warnings.catch_warnings():
        warnings.simplefilter('ignore')
        node = ast.parse(lit, mode='eval').body
    if isinstance(node, ast.Constant) and isinstance(node.value, str):
        return 'str', node.value
    if isinstance(node, ast.Constant) and isinstance(node.value, bytes):
        return 'bytes', None
    return 'notLiteral', None


def stream_doclit_model(ctx, lits, reqs, metas):
    """the real decision (clean_scope_docstring on a real parso funcdef) for every generated literal;
    compared with the Lean model in run()"""
    import warnings
    import parso
    from jedi import parser_utils
    grammar = parso.load_grammar()
    for d in lits:
        lit = d['lit']
        src = 'def f():\n    %s\n' % lit
        fd = next(grammar.parse(src).iter_funcdefs())
        node = fd.get_doc_node()
        ev, value = _py_literal_facts(lit)
        if node is None or node.value != lit:
            # f-strings are no string leaf for parso (no docstring: what Python says, too)
            ctx.count('unmodelled', lit, nontrivial=False,
                      bucket='doclit: get_doc_node finds no such leaf (%s)' % ev)
            continue
        try:
            with warnings.catch_warnings():
                warnings.simplefilter('ignore')
                real = parser_utils.clean_scope_docstring(fd)
        except Exception as e:  # noqa
            real = {'raises': type(e).__name__}
        reqs.append({'op': 'doclit', 'value': lit, 'ev': ev})
        metas.append(('doclit', d, (real, ev, inspect.cleandoc(value) if value is not None else None)))


def doclit_search(ctx, d):
    """failing-input search for a literal on which model and implementation disagree: the property
    itself (direct oracle) on one-literal programs, the literal in a function, a class and a method"""
    from gen import c11_doclits as DL
    from props import c11_doc
    keys = [k[0] for k in DL.SLOTS]
    for slot in ('func', 'Klass', 'meth'):
        slots = [None] * DL.NSLOTS
        slots[keys.index(slot)] = d
        item = DL.programs_from_slots(slots)
        item['ways'] = ['names', 'infer', 'signatures']
        for r in c11_doc.eval_program(item):
            if r['slot'] == slot and r['fails']:
                case = _doclit_case(item, r)
                for what, exp, obs in r['fails']:
                    ctx.fail('oracle:doclit', what, case, expected=exp, observed=obs, how=DOCLIT_HOW)
                return True
    return False


def stream_pyprefix(ctx, reqs, metas):
    """Python side of docstring_literal_decision against CPython itself: which prefixes the compiler
    accepts, whether a literal with that prefix becomes `__doc__`, what literal_eval yields"""
    import warnings
    letters = 'brufBRUF'
    cands = [''] + [''.join(t) for n in (1, 2, 3) for t in itertools.product(letters, repeat=n)]
    for p in cands:
        lit = p + "'x'"
        with warnings.catch_warnings():
            warnings.simplefilter('ignore')
            try:
                g = {}
                exec(compile('def f():\n    %s\n' % lit, '<p>', 'exec'), g)
                legal = True
            except SyntaxError:
                legal = False
        want = {'legal': legal}
        if legal:
            want['docstring'] = g['f'].__doc__ is not None
            want['evald'] = _py_literal_facts(lit)[0]
        reqs.append({'op': 'pyprefix', 'prefix': p})
        metas.append(('pyprefix', {'prefix': p}, want))


# ------------------------------------------------------------------ stream: fixed probes

def stream_probes(ctx):
    """the concrete inputs of DESIGN section 6 (F12, F17, F18) and the witnesses of Props/C11.lean,
    replayed on the real code through the same oracle"""
    probes = [
        ('def f(*, a): pass\n', 'f', 'f(2', [], {'t': 'expr'}),
        ('def f(a, **b): pass\n', 'f', 'f(1, 2', [('pos', '1', None)], {'t': 'expr'}),
        ('def f(a, **b): pass\n', 'f', 'f(1, a=', [('pos', '1', None)], {'t': 'kwOpen', 's': 'a'}),
        ('def f(a, /, **b): pass\n', 'f', 'f(1, a=', [('pos', '1', None)], {'t': 'kwOpen', 's': 'a'}),
    ]
    # regression inputs: corpus/C11/*.json  {"probes": [[def_src, callee, call, prev_specs, cur], ...]}
    import glob
    import os
    for p in sorted(glob.glob(os.path.join(common.CORPUS_DIR, 'C11', '*.json'))):
        with open(p, encoding='utf-8') as f:
            for d, ce, call, prev, cur in json.load(f).get('probes', []):
                probes.append((d, ce, call, [tuple(a) for a in prev], cur))
    objs = {}
    for def_src, callee, call, prev, cur in probes:
        src = def_src + call
        c = {'kind': 'function', 'def_src': def_src, 'callee': callee, 'src': src,
             'line': def_src.count('\n') + 1, 'col': len(call),
             'prev_specs': prev, 'cur': cur, 'mode': 'prefix', 'feature': 'plain'}
        c['real'] = real_case(src, c['line'], len(call))
        run_oracle(ctx, c, objs)
    # F12: `__a` is reported positional-only and renamed
    def_src = 'def f(__a, b): pass\n'
    c = {'kind': 'function', 'def_src': def_src, 'callee': 'f', 'src': def_src + 'f(', 'line': 2, 'col': 2,
         'prev_specs': [], 'cur': {'t': 'empty'}, 'mode': 'prefix', 'feature': 'dunder-parameter'}
    c['real'] = real_case(c['src'], 2, 2)
    run_oracle(ctx, c, objs)
    # a bound method whose first parameter is *args: Python keeps *args (self lands in it).
    # (formerly the findings C11-bound-star-args-dropped-*; fixed by _remove_bound_param)
    for def_src, callee, tail, prev, cur in [
            ('class C:\n    def m(*args, k=1): pass\n', 'C().m', '', [], {'t': 'empty'}),
            ('class C:\n    def __init__(*args, **kw): pass\n', 'C', '', [], {'t': 'empty'}),
            ('class C:\n    def m(*args): pass\n', 'C().m', '', [], {'t': 'empty'}),
            ('class C:\n    @classmethod\n    def m(*args, k=1): pass\n', 'C.m', '', [], {'t': 'empty'}),
            ('class C:\n    def m(*args, k=1): pass\n', 'C().m', '1, k=', [('pos', '1', None)], {'t': 'kwOpen', 's': 'k'}),
            ('class C:\n    def m(*args, k=1): pass\n', 'C().m', '1, 2', [('pos', '1', None)], {'t': 'expr'}),
            ('class C:\n    def __init__(*args, **kw): pass\n', 'C', '1, z=', [('pos', '1', None)], {'t': 'kwOpen', 's': 'z'})]:
        call = callee + '(' + tail
        c = {'kind': 'method', 'def_src': def_src, 'callee': callee, 'src': def_src + call,
             'line': def_src.count('\n') + 1, 'col': len(call), 'prev_specs': prev, 'cur': cur,
             'mode': 'prefix', 'feature': 'bound-var-positional-first'}
        c['real'] = real_case(c['src'], c['line'], c['col'])
        run_oracle(ctx, c, objs)


# ------------------------------------------------------------------ stream: forwarding wrappers

def stream_star_args_probe(ctx):
    """`*args` forwarding (`def wrapper(*args, **kwargs): return f(*args, **kwargs)`): in this sandbox
    (empty typeshed) TreeArguments.unpack -> _iterate_star_args -> `array.py__getattribute__('__iter__')`
    on the tuple instance recurses in klass.get_filters (RecursionError), so the shape cannot be
    judged here.  Kept as a probe: where it does answer, the parameters must be the wrapped ones."""
    rng = ctx.subrng('wrap')
    for i in range(ctx.size(2, 6)):
        sh = rng.choice([s for s in shapes(3)])
        sig = rng.choice(sig_variants(sh, rng, False))
        if i % 2:
            def_src = ('def deco(g):\n    def wrapper(*args, **kwargs):\n        return g(*args, **kwargs)\n'
                       '    return wrapper\n@deco\ndef inner(%s):\n    pass\n' % sig_text(sig))
            callee = 'inner'
        else:
            def_src = 'def inner(%s):\n    pass\ndef f(*args, **kwargs):\n    return inner(*args, **kwargs)\n' % sig_text(sig)
            callee = 'f'
        src = def_src + callee + '('
        real = real_case(src, src.count('\n') + 1, len(callee) + 1)
        if 'exc' in real or real.get('nsigs') != 1:
            ctx.count('oracle:wrapper', src, nontrivial=False,
                      bucket='unjudged: %s@%s' % (real.get('exc'), real.get('site')) if 'exc' in real else 'no-signature')
            continue
        g = {}
        exec('def inner(%s):\n    pass\n' % sig_text(sig), g)
        pysig, pyparams = py_params(g['inner'])
        got = [(p['name'], p['kind']) for p in real['params']]
        ctx.count('oracle:wrapper', src, nontrivial=bool(pyparams), bucket='n=%d' % len(pyparams))
        if got != pyparams:
            ctx.fail('oracle:wrapper', 'pass-through wrapper does not report the wrapped callable\'s parameters',
                     {'source': def_src, 'callee': callee, 'feature': 'wrapper'},
                     expected=[[n_, KIND_NAMES[k]] for n_, k in pyparams],
                     observed=[[n_, KIND_NAMES[k]] for n_, k in got],
                     how='jedi.Script(source + callee + "(").get_signatures()[0].params vs inspect.signature(inner)')


OWN_PARAMS = [
    # (po, pk, vp, ko) of the wrapper itself, names disjoint from NAME_POOL
    ([], [], None, []), ([], [], None, []), ([], [], None, []),
    ([], ['x'], None, []), (['x'], [], None, []), ([], [], None, ['y']), ([], ['x'], None, ['y']),
    ([], ['x'], 'rest', []), ([], [], 'rest', []), (['x'], ['z'], None, ['y']),
]


def gen_forward(rng):
    """one wrapper program that forwards **kwargs (only) -> dict"""
    inner = rng.choice(sig_variants(rng.choice(shapes(4)), rng, False))
    if rng.random() < 0.75:
        # mostly callees that a keyword-only call can satisfy (see finding C11-kwforward-required-positional-only)
        while any(p['dflt'] is None for p in inner['po']):
            inner = rng.choice(sig_variants(rng.choice(shapes(4)), rng, False))
    po, pk, vp, ko = rng.choice(OWN_PARAMS)
    kwname = rng.choice(['kwargs', 'kw'])
    own = {'po': [P(n) for n in po], 'pk': [P(n) for n in pk], 'vp': P(vp) if vp else None,
           'ko': [P(n, dflt='1') if rng.random() < 0.5 else P(n) for n in ko], 'vk': P(kwname)}
    count = rng.choice([0, 0, 0, 0, 1, 1, 2])
    inner_names = sig_names(inner)
    keys = []
    if rng.random() < 0.3:
        keys = rng.sample(inner_names + ['zz'], 1)
    given = ['1'] * count + ['%s=2' % k for k in keys]
    fwd = ', '.join(given + ['**' + kwname])
    layout = rng.choice(['plain', 'plain', 'deco', 'method', 'two'])
    second = None
    ind = lambda t: ''.join('    ' + l + '\n' for l in t.rstrip('\n').split('\n'))
    if layout == 'plain':
        src = 'def inner(%s):\n    pass\ndef f(%s):\n    return inner(%s)\n' % (sig_text(inner), sig_text(own), fwd)
        callee, fname, bound, dinner, douter = 'f', 'f', False, inner, own
    elif layout == 'deco':
        src = ('def deco(g):\n    def wrapper(%s):\n        return g(%s)\n    return wrapper\n'
               '@deco\ndef inner(%s):\n    pass\n' % (sig_text(own), fwd, sig_text(inner)))
        callee, fname, bound, dinner, douter = 'inner', 'wrapper', False, inner, own
    elif layout == 'method':
        dinner, douter = with_first(inner, 'self'), with_first(own, 'self')
        src = 'class C:\n' + ind('def inner(%s):\n    pass\ndef f(%s):\n    return self.inner(%s)\n'
                                 % (sig_text(dinner), sig_text(douter), fwd))
        callee, fname, bound = 'C().f', 'f', True
    else:
        second = rng.choice(sig_variants(rng.choice(shapes(3)), rng, False))
        src = ('def inner(%s):\n    pass\ndef other(%s):\n    pass\ndef f(%s):\n    if 1:\n        return inner(%s)\n'
               '    return other(**%s)\n' % (sig_text(inner), sig_text(second), sig_text(own), fwd, kwname))
        callee, fname, bound, dinner, douter = 'f', 'f', False, inner, own
    callees = [{'sig': dinner, 'bound': bound, 'count': count, 'keys': keys}]
    if second is not None:
        callees.append({'sig': second, 'bound': False, 'count': 0, 'keys': []})
    pure = second is None and not given
    return {'src': src, 'callee': callee, 'fname': fname, 'bound': bound, 'outer': douter, 'callees': callees,
            'inner': inner, 'own': own, 'layout': layout, 'pure': pure,
            'own_plain': not (po or pk or vp or ko)}


def oracle_kwforward(ctx, w, real):
    """exactly the calls that bind against the reported signature run without TypeError
    (bodies are `pass` / a single forwarding call: a TypeError can only come from argument binding)"""
    obj, _ = exec_def(w['src'], w['callee'])
    case = {'source': w['src'], 'callee': w['callee'],
            'feature': 'kwforward-required-positional-only'
            if any(p['dflt'] is None for p in w['inner']['po']) else 'kwforward'}
    how = ('reported = jedi.Script(source + callee + "(").get_signatures()[0].to_string(); for every call of '
           'up to 2 positional and 3 keyword arguments: inspect.Signature.bind on the re-parsed reported '
           'signature vs really calling the executed wrapper')
    ctx.count('oracle:kwforward', (w['src'], w['callee']), nontrivial=True,
              bucket='%s/%s' % (w['layout'], 'pure' if w['own_plain'] else 'own-params'),
              sample={'source': w['src'], 'callee': w['callee'], 'to_string': real['to_string']})
    try:
        rsig = sig_from_text(real['to_string'])
    except Exception as e:  # noqa
        ctx.fail('oracle:kwforward', 'to_string() of the forwarded signature does not parse', case,
                 observed={'to_string': real['to_string'], 'error': repr(e)}, how=how)
        return
    names = list(dict.fromkeys([p['name'] for p in real['params']] + sig_names(w['inner']) +
                               sig_names(w['own'])[:-1] + ['zz']))
    npos_max = len(w['own']['po']) + len(w['own']['pk']) + 1
    for npos in range(npos_max + 1):
        for r in range(0, 4):
            for kws in itertools.combinations(names, r):
                kw = {k: 0 for k in kws}
                try:
                    rsig.bind(*([0] * npos), **kw)
                    binds = True
                except TypeError:
                    binds = False
                try:
                    obj(*([0] * npos), **kw)
                    runs = True
                except TypeError:
                    runs = False
                if binds != runs:
                    ctx.fail('oracle:kwforward',
                             'a call binds against the reported signature but raises TypeError (or the reverse)',
                             case, expected={'runs': runs},
                             observed={'to_string': real['to_string'], 'call': {'positional': npos, 'keywords': list(kws)},
                                       'binds_reported': binds, 'runs': runs}, how=how)
                    return


def stream_forward(ctx, reqs, metas):
    """wrappers that forward **kwargs (only): correspondence with `processParamsKw` for every
    generated program, direct oracle for the pure pass-through ones"""
    rng = ctx.subrng('forward')
    seen = set()
    for _ in range(ctx.size(140, 2500)):
        w = gen_forward(rng)
        if w['src'] in seen:
            continue
        seen.add(w['src'])
        src = w['src'] + w['callee'] + '('
        real = real_case(src, src.count('\n') + 1, len(w['callee']) + 1)
        if 'exc' in real or real.get('nsigs') != 1:
            ctx.count('raised' if 'exc' in real else 'oracle:reported', src, nontrivial=False,
                      bucket='forward: %s@%s' % (real.get('exc'), real.get('site')) if 'exc' in real else 'forward: no signature')
            ctx.fail('oracle:kwforward', 'no single signature for a **kwargs forwarding wrapper',
                     {'source': w['src'], 'callee': w['callee'], 'feature': 'kwforward'}, observed=real,
                     how='jedi.Script(source + callee + "(").get_signatures()')
            continue
        reqs.append({'op': 'fwd', 'outer': w['outer'], 'bound': w['bound'], 'callees': w['callees'],
                     'fname': w['fname'], 'ret': ''})
        metas.append(('fwd', {'source': w['src'], 'callee': w['callee'], 'layout': w['layout'],
                              'given': [w['callees'][0]['count'], w['callees'][0]['keys']]}, (real, w)))
        if w['pure']:
            oracle_kwforward(ctx, w, real)


def stream_pyaccepts(ctx, reqs, metas):
    """`pyAccepts`, `pyRunsKwWrapper`, `kwForwarded` (the Python side of kwforward_accepts_iff_partial)
    against real calls of the definition, of a real **kwargs wrapper around it, and of a definition
    with the forwarded parameter list"""
    rng = ctx.subrng('pyaccepts')
    shs = shapes(4)
    for _ in range(ctx.size(400, 10000)):
        sig = rng.choice(sig_variants(rng.choice(shs), rng, False))
        names = sig_names(sig)
        obj, _ = exec_def('def f(%s): pass\n' % sig_text(sig), 'f')
        npos = rng.choice([0, 0, 0, 1, 2, 3, 4])
        required = [p['name'] for p in sig['pk'] + sig['ko'] if p['dflt'] is None]
        pool = names + ['zz']
        kws = [k for k in pool if rng.random() < 0.35]
        if rng.random() < 0.5:
            kws = list(dict.fromkeys(kws + required))
        wrap, _ = exec_def('def g(%s): pass\ndef f(**kwargs):\n    return g(**kwargs)\n' % sig_text(sig), 'f')
        fw = {'po': [], 'pk': [], 'vp': None, 'ko': sig['pk'] + sig['ko'], 'vk': sig['vk']}
        fobj, _ = exec_def('def f(%s): pass\n' % sig_text(fw), 'f')
        want = {}
        for key, o in (('accepts', obj), ('wrapper_runs', wrap), ('forwarded_accepts', fobj)):
            try:
                o(*([0] * npos), **{k: 0 for k in kws})
                want[key] = True
            except TypeError:
                want[key] = False
        reqs.append({'op': 'pyaccepts', 'sig': sig, 'npos': npos, 'kws': kws})
        metas.append(('pyaccepts', {'def': 'def f(%s)' % sig_text(sig), 'npos': npos, 'kws': kws}, want))


# ------------------------------------------------------------------ driver

def run_corpus(ctx, cases):
    import glob
    import os
    for p in sorted(glob.glob(os.path.join(common.CORPUS_DIR, 'C11', '*.json'))):
        with open(p, encoding='utf-8') as f:
            d = json.load(f)
        for c in d.get('cases', []):
            c['prev_specs'] = [tuple(a) for a in c['prev_specs']]
            cases.append(c)


def run(ctx):
    doclits = doclit_literals(ctx)
    bg = doclit_start(ctx, doclits)
    # the docstring-literal requests do not depend on anything below: their driver runs meanwhile
    dreqs, dmetas = [], []
    stream_doclit_model(ctx, doclits, dreqs, dmetas)
    stream_pyprefix(ctx, dreqs, dmetas)
    bgd = _Background(lambda: common.run_driver_parallel('C11', dreqs, jobs=4)) if ctx.model_ok else None
    cases = []
    run_corpus(ctx, cases)
    cases += build_cases(ctx)
    cases = dedupe(cases)
    if ctx.quick and len(cases) > 1700:
        rng = ctx.subrng('trim')
        corpus_n = sum(1 for c in cases if c.get('corpus'))
        cases = cases[:corpus_n] + rng.sample(cases[corpus_n:], 1700 - corpus_n)
    run_real(cases, jobs=1 if ctx.quick else 12)
    reqs = [request_of(c) for c in cases]
    metas = [('case', c, None) for c in cases]
    stream_kinds(ctx, reqs, metas)
    stream_pybind(ctx, reqs, metas)
    stream_pybound(ctx, reqs, metas)
    stream_docs(ctx, reqs, metas)
    objs = {}
    for c in cases:
        run_oracle(ctx, c, objs)
    stream_history(ctx, objs)
    stream_sigcache(ctx, reqs, metas)
    stream_probes(ctx)
    stream_star_args_probe(ctx)
    stream_forward(ctx, reqs, metas)
    stream_pyaccepts(ctx, reqs, metas)
    doclit_finish(ctx, bg, doclits)
    if ctx.model_ok:
        answers = common.run_driver_parallel('C11', reqs)
        parsed_defs = {}
        for (stream, meta, extra), ans in zip(metas + dmetas, answers + bgd.join()):
            if isinstance(ans, dict) and ('error' in ans or 'protocol_error' in ans):
                raise common.InfraError('driver error: %r' % ans)
            if stream == 'case':
                compare_case(ctx, meta, ans, parsed_defs)
            elif stream == 'kinds':
                real = extra
                ctx.count('kinds', meta['source'], nontrivial=True, bucket='n=%d' % len(real['params']),
                          sample={'source': meta['source'], 'impl': real['params']})
                if real['params'] != ans['params'] or real['to_string'] != ans['to_string']:
                    ctx.tie_broken('correspondence:kinds', short({'case': meta, 'impl': [real['params'], real['to_string']],
                                                                  'model': ans}, 1500))
            elif stream == 'sigcache':
                for k, (r, m) in enumerate(zip(extra, ans)):
                    stale = r['answer'] != k
                    ctx.count('sigcache', json.dumps([meta['requests'][:k + 1]], sort_keys=True), nontrivial=k > 0,
                              bucket='%s/%s/%s/%s' % (meta['layout'], meta['variant'],
                                                      'stored' if r['stored'] else 'not-stored',
                                                      'earlier-value' if stale else 'own-value'),
                              sample={'requests': meta['requests'][:k + 1], 'impl': r})
                    mm = {'answer': m['answer'], 'stored': m['stored'],
                          'text': m['text'] if m['stored'] else None, 'size': m['size']}
                    if r != mm:
                        ctx.tie_broken('correspondence:sigcache',
                                       short({'requests': meta['requests'][:k + 1], 'impl': r, 'model': mm}, 1500))
                        break
            elif stream == 'pybind':
                ctx.count('pybind', json.dumps(meta, sort_keys=True), nontrivial=True,
                          bucket='%s/%s' % (meta['cur'][0], 'none' if extra is None else 'bound'),
                          sample={'case': meta, 'cpython': extra})
                if ans != extra:
                    # the model of CPython is wrong: our machinery, not jedi
                    raise common.InfraError('pyBind disagrees with CPython: %r model=%r cpython=%r' % (meta, ans, extra))
            elif stream == 'fwd':
                real, w = extra
                ctx.count('forward', meta['source'], nontrivial=True,
                          bucket='%s/given=%s' % (meta['layout'], 'yes' if (meta['given'][0] or meta['given'][1]) else 'no'),
                          sample={'case': meta, 'impl': real['to_string']})
                if real['params'] != ans['params'] or real['to_string'] != ans['to_string']:
                    ctx.tie_broken('correspondence:forward',
                                   short({'case': meta, 'impl': [real['params'], real['to_string']], 'model': ans}, 1500))
                    if not w['pure']:
                        # failing-input search: the property's criterion on this very program
                        oracle_kwforward(ctx, w, real)
            elif stream == 'pyaccepts':
                ctx.count('pyaccepts', json.dumps(meta, sort_keys=True), nontrivial=True,
                          bucket='npos=%d/%s' % (meta['npos'], 'accepted' if extra['accepts'] else 'TypeError'),
                          sample={'case': meta, 'cpython': extra})
                if ans != extra:
                    raise common.InfraError('pyAccepts disagrees with CPython: %r model=%r cpython=%r' % (meta, ans, extra))
            elif stream == 'pybound':
                ctx.count('pybound', json.dumps(meta, sort_keys=True), nontrivial=True,
                          bucket='no-signature' if extra is None else 'n=%d' % len(extra),
                          sample={'case': meta, 'inspect': extra})
                if ans != extra:
                    raise common.InfraError('pyBound disagrees with inspect.signature of the bound object: '
                                            '%r model=%r inspect=%r' % (meta, ans, extra))
            elif stream == 'doclit':
                real, ev, cleaned = extra
                want = cleaned if ans == 'cleandoc' else '' if ans == 'empty' else None
                agree = (real == want) if want is not None else isinstance(real, dict)
                ctx.count('doclit', meta['lit'], nontrivial=bool(cleaned) or ev != 'str',
                          bucket='%s/%s/%s' % (meta['prefix'].lower() or '-', meta['quote'], ans),
                          sample={'literal': meta['lit'], 'impl': real, 'model': ans})
                if not agree:
                    ctx.tie_broken('correspondence:doclit',
                                   short({'literal': meta['lit'], 'literal_eval_type': ev, 'impl': real,
                                          'model': ans, 'model_text': want}, 1500))
                    doclit_searched = getattr(ctx, '_doclit_searched', 0)
                    if doclit_searched < 6:
                        ctx._doclit_searched = doclit_searched + 1
                        doclit_search(ctx, meta)
            elif stream == 'pyprefix':
                ctx.count('pyprefix', meta['prefix'], nontrivial=True,
                          bucket='legal' if extra['legal'] else 'illegal')
                got = {k: ans[k] for k in extra}
                if got != extra:
                    raise common.InfraError('DocLit Python side disagrees with CPython: prefix %r model=%r cpython=%r'
                                            % (meta['prefix'], ans, extra))
            elif stream == 'doc':
                ctx.count('doc', json.dumps(meta, sort_keys=True), nontrivial=True, bucket=meta['feature'])
                if ans != extra:
                    ctx.tie_broken('correspondence:doc', short({'case': meta, 'impl': extra, 'model': ans}, 1500))
    else:
        ctx.notes.append('model did not build: correspondence skipped, oracle only')
    ctx.obligations['exhaustive'] = not ctx.quick
    ctx.obligations['assumptions'] = [
        'parso: the node list handed to _iter_arguments (stream nodes checks the generator-level assumption '
        '`nodesOf` against the real tree for every case) and the children of `parameters` (stream ptoks)',
        'callee inference: which definition the call resolves to, that methods reached through an instance / '
        'classmethods / classes are reported with is_bound=True (checked per case by streams params and oracle:params)',
        'process_params is modelled for bodies that forward nothing and for bodies that forward **kwargs (only) to '
        'callees that forward nothing themselves (stream forward: which calls are found and what they resolve to is '
        'taken from the generator, the resulting parameter list is compared per case); *args forwarding cannot run in '
        'this sandbox (TreeArguments.unpack of `*args` needs the builtins stubs: RecursionError) - probe only',
        'CPython acceptance of a call enters kwforward_accepts_iff_partial as `pyAccepts` / `pyRunsKwWrapper`; '
        'stream pyaccepts compares them with real calls; `pyBound` with inspect.signature (stream pybound)',
        'docstring cleaning: the value ast.literal_eval yields and inspect.cleandoc are CPython code - the model '
        'takes the TYPE literal_eval yields (stream doclit feeds the real one, stream pyprefix checks `pyEvald` / '
        '`pyIsDocstring` / `legalPrefixes` against the compiler), the text is judged by the direct oracle only '
        '(streams oracle:doc, oracle:doclit); parso: get_doc_node hands the string leaf of the first statement',
        'single-line calls: `position[1] - name.start_pos[1]` is modelled as a natural number (cut)',
        'CPython call binding enters the theorems as `pyBind`; stream pybind compares it with real calls',
        'histories: the value of the time cache is abstract (`fresh` = the callee inferred from the asking Script\'s '
        'tree); that a freshly inferred callee mirrors the definition is the per-request part (all other streams); '
        'the two time.time() calls of one wrapper call are one clock value; stream sigcache checks key, hit/miss and '
        'dictionary against the real functions, stream oracle:history the end-to-end answers',
    ]


def replay_history(payload):
    inp = payload['input']
    j = len(inp['history']) - 1
    steps = [{'file': e['file'], 'src': e['source'], 'line': e.get('line', inp['line']),
              'col': e.get('column', inp['column'])} for e in inp['history']]
    answers = hist_play(steps)
    for k, (e, r) in enumerate(zip(inp['history'], answers)):
        print('step %d file=%r first line %r' % (k, e['file'], e['source'].split('\n')[0]))
        print('   answer: %s' % short({x: r.get(x) for x in ('exc', 'site', 'nsigs', 'to_string', 'index', 'bracket')}, 400))
    last = answers[-1]
    obj, _ = exec_def(inp['definition'], inp['callee'])
    pysig, pyparams = py_params(obj)
    print('inspect.signature(%s) of the executed last source: %s' % (inp['callee'], pysig))
    got = [(p['name'], p['kind']) for p in last['params']] if 'params' in last else None
    alone = real_case(inp['history'][j]['source'], inp['line'], inp['column'])
    print('same request without history: to_string=%r index=%r' % (alone.get('to_string'), alone.get('index')))
    print('expected:', payload.get('expected'))
    print('observed at record time:', payload.get('observed'))
    bad = got != pyparams or {x: last.get(x) for x in ('to_string', 'index', 'bracket')} != \
        {x: alone.get(x) for x in ('to_string', 'index', 'bracket')}
    print('reproduced' if bad else 'not reproduced: the last answer mirrors the definition now')
    return 1 if bad else 0


def replay(ctx, payload):
    import jedi
    inp = payload['input']
    if payload.get('stream') == 'oracle:doclit':
        from props import c11_doc
        recs = c11_doc.eval_program(_doclit_item_of_case(inp))
        bad = 0
        for r in recs:
            print('way=%s kind=%s literal=%s line=%s column=%s' % (r['way'], r['kind'], r.get('lit'), r['line'], r['column']))
            print('  docstring(raw=True) = %r' % (r.get('raw'),))
            for what, exp, obs in r['fails']:
                bad += 1
                print('  FAILS: %s\n    expected %r\n    observed %r' % (what, exp, obs))
        print('reproduced' if bad else 'not reproduced: the property holds on this input now')
        return 1 if bad else 0
    if 'history' in inp:
        return replay_history(payload)
    if 'line' in inp:
        for s in jedi.Script(inp['source']).get_signatures(inp['line'], inp['column']):
            print('index=%r bracket_start=%r to_string=%r params=%r' % (
                s.index, s.bracket_start, s.to_string(), [(p.name, p.kind.name) for p in s.params]))
    elif 'expr' in inp:
        full = inp['source'] + inp['expr']
        obj, _ = exec_def(inp['source'], inp['expr'])
        want = inspect.getdoc(obj) or ''
        if inspect.isclass(obj) and obj.__doc__ is None:
            want = ''
        bad = 0
        for d in jedi.Script(full).infer(full.count('\n') + 1, len(inp['expr'])):
            try:
                raw = d.docstring(raw=True)
                print('raw=%r' % raw)
                print('docstring=%r' % d.docstring())
            except Exception as e:  # noqa
                print('docstring() raised %r' % (e,))
                raw = None
            bad += raw != want
        print('inspect.getdoc=%r' % want)
        print('expected:', payload.get('expected'))
        print('observed at record time:', payload.get('observed'))
        print('reproduced' if bad else 'not reproduced')
        return 1 if bad else 0
    elif 'callee' in inp:
        src = inp['source'] + inp['callee'] + '('
        for s in jedi.Script(src).get_signatures(src.count('\n') + 1, len(inp['callee']) + 1):
            print('to_string=%r params=%r' % (s.to_string(), [(p.name, p.kind.name) for p in s.params]))
    print('expected:', payload.get('expected'))
    print('observed at record time:', payload.get('observed'))
    return 0

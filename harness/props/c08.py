"""C08 - answers do not depend on the editing history of a buffer.

Streams
  cache-state   every step of every generated edit history is executed on the real jedi (a new
                Script per text, same process) with probes (monkey-patched wrappers, no source
                edit) on parso's parser cache, filters._get_definition_names and
                parser_utils.get_cached_parent_scope; the same history is replayed on the Lean
                state machine (Model/Caches via Drivers/C08): item replaced <=> text changed, item
                ordinal, the cache node every lookup is keyed on, hit/miss of every distinct lookup,
                key set of the derived cache after a collection.
  tree-source   where the Script's tree comes from: a probe on parso's Grammar.parse records every
                question put to parso while a Script is constructed and parso's answer; the Script
                must ask exactly once, hold the node parso returned, and that node's content must be
                the from-scratch parse (model: obtainTree = parseBuffer, `asked` of every script step
                compared with the driver).  The premise of the property (parso's promise) is judged
                on parso's own answers, so a step in which jedi does not use parso's answer (a
                remembered node) is judged by the oracle, not excused.
  derived-value every probed lookup result vs its uncached computation on a from-scratch parse of
                the current text (python side only)
  sig-cache     entries of _time_caches['call_signatures_validity'] never hit (model: fresh key)
  oracle        the property itself: all Script queries at sampled positions after every step vs
                the same queries for the same text in another process whose caches are empty
  oracle-fresh  a sample of (history, step) points vs a brand-new interpreter per text
"""
import gc
import json
import os
import subprocess
import sys
import time

import common
from common import short

MODELS = ['Caches']
LEAN_TARGETS = ['JediModel.Props.C08', 'JediModel.Drivers.C08']
MANIFEST = dict(
    text='Lean state machine of one process (parser-cache items with generation numbers, module nodes '
         'mutated in place by the diff parser, the two derived caches keyed weakly on the item, the '
         'per-Script memo, the signature time cache with a logical clock, and where Script.__init__ takes '
         'its tree from: obtainTree/remembered with the decision treeMemo read from the source). Proved for ALL histories and '
         'all queries routed through these caches: the invariant (entries under a live item equal the '
         'direct computation; the item under the newest Script carries the current text), history '
         'independence (answer = query evaluated on a from-scratch parse = answer of a fresh process), '
         'no internal error, the tree of every Script is parso\'s answer for this construction '
         '(script_tree_from_parser), returning to an earlier text at any distance is answered like a fresh '
         'process (undo_redo_independent_partial); kernel-checked witnesses that a table of remembered '
         'module nodes (stale_if_script_remembers_trees), keying on the tree / a comparable signature '
         'key / a shared memo / cache=True for the buffer each break it. The design decisions are read '
         'from the source by the translator (Gen.C08.cfg) and the theorems are stated over them. Tie: '
         'probed correspondence of the real cache state against the model on generated edit histories '
         '(half of them revisit-rich: undo/redo along an undo stack, revert to any earlier version, toggling), '
         'a probe on parso\'s Grammar.parse for the source of every Script\'s tree (stream tree-source), '
         'plus the direct oracle (history process vs empty-cache process vs brand-new interpreter).',
    note='Modelled not verified: parso diff parser == from-scratch parse (the property\'s premise; checked '
         'per step on parso\'s own answers, steps where it fails are counted and not judged), what a lookup computes on a tree, '
         'CPython weakref/gc timing. The 10-minute environment cache is not exercised.',
    technique='Lean 4 proof over hand-written state machine + translator-extracted design decisions + '
              'probed differential correspondence + fresh-process oracle',
    design='5.C08')

SCRATCH = '/tmp/scratch-c08c09/c08'


# ======================================================================= inside worker processes

def _canon_names(ds):
    return sorted([d.name, d.line, d.column, d.type, d.module_name] for d in ds)


def _run_query(script, q):
    """q = [kind, line, col]; returns a JSON-able canonical answer"""
    kind, line, col = q
    try:
        if kind == 'infer':
            return _canon_names(script.infer(line, col))
        if kind == 'goto':
            return _canon_names(script.goto(line, col))
        if kind == 'refs':
            return _canon_names(script.get_references(line, col, scope='file'))
        if kind == 'refs_project':
            return _canon_names(script.get_references(line, col))
        if kind == 'complete':
            return [[c.name, c.complete] for c in script.complete(line, col)]
        if kind == 'sigs':
            return [[s.name, s.line, s.column, s.index, list(s.bracket_start), s.to_string()]
                    for s in script.get_signatures(line, col)]
        if kind == 'context':
            c = script.get_context(line, col)
            return [c.name, c.line, c.column, c.type, c.module_name, c.full_name]
        if kind == 'names':
            return [[d.name, d.line, d.column, d.type, d.module_name] for d in
                    script.get_names(all_scopes=True, definitions=True, references=True)]
        if kind == 'errors':
            return [[e.line, e.column, e.until_line, e.until_column] for e in script.get_syntax_errors()]
        if kind == 'help':
            return _canon_names(script.help(line, col))
        raise ValueError(kind)
    except Exception as e:  # counted, compared as an answer (both sides must agree)
        return ['EXC', type(e).__name__]


def _setup_worker():
    import jedi
    from pathlib import Path
    d = os.path.join(SCRATCH, 'cache-%d' % os.getpid())
    os.makedirs(d, exist_ok=True)
    jedi.settings.cache_directory = Path(d)
    # path-less buffers get the default project of the working directory: an empty one
    e = os.path.join(SCRATCH, 'empty')
    os.makedirs(e, exist_ok=True)
    os.chdir(e)
    return jedi


def _tree_dump(node):
    out = []

    def rec(n):
        if hasattr(n, 'children'):
            out.append((n.type, n.start_pos, n.end_pos, len(n.children)))
            for c in n.children:
                rec(c)
        else:
            out.append((n.type, n.value, n.prefix, n.start_pos))
    rec(node)
    return out


def _find_node(root, typ, start, end):
    try:
        n = root.get_leaf_for_position(start, include_prefixes=False)
    except Exception:
        return None
    if n is None:
        # start may be the start of a leaf that get_leaf_for_position attributes differently
        try:
            n = root.get_leaf_for_position(start, include_prefixes=True)
        except Exception:
            return None
    while n is not None and not (n.type == typ and n.start_pos == start and n.end_pos == end):
        n = n.parent
    return n


def _ensure_disk_file(path, text):
    """the saved version of the buffer (history and ground-truth processes may race: same content,
    same mtime, atomic replace)"""
    if os.path.exists(path):
        return
    tmp = '%s.%d.tmp' % (path, os.getpid())
    with open(tmp, 'w') as f:
        f.write(text)
    os.utime(tmp, (1500000000, 1500000000))
    os.replace(tmp, path)


class ParsoProbe:
    """records what parso itself was asked and what it returned (wrapper around Grammar.parse, no
    source edit).  The premise of the property is a promise of PARSO - the tree it hands out for a
    text equals a from-scratch parse of that text - so it is judged on parso's own results, not on
    whatever tree a Script ends up holding: a Script that does not take its tree from parso in a
    step (a remembered node, ...) is not excused by it."""
    inst = None

    def __init__(self):
        from parso.grammar import Grammar
        self.calls = None
        orig = Grammar.parse
        me = self

        def parse(self_, code=None, **kwargs):
            node = orig(self_, code, **kwargs)
            if me.calls is not None:
                # dumped now: the diff parser mutates this very object on the next re-parse
                me.calls.append({'code': code, 'path': kwargs.get('path'), 'node': node,
                                 'dump': _tree_dump(node) if isinstance(code, str) else None})
            return node
        Grammar.parse = parse

    @classmethod
    def get(cls):
        if cls.inst is None:
            cls.inst = ParsoProbe()
        return cls.inst


class _FakeTime:
    """stands in for the `time` module inside jedi/cache.py"""
    def __init__(self):
        self.now = 1700000000.0

    def time(self):
        return self.now


class Probes:
    """wrappers around the two derived caches (installed once per worker process)"""
    inst = None

    def __init__(self):
        import weakref
        from jedi.inference import filters
        from jedi.inference.value import klass
        from jedi import parser_utils
        self.filters, self.parser_utils = filters, parser_utils
        self.trace = None
        self.items = []          # weakrefs to the tracked parser cache items, index = ordinal
        self.weakref = weakref
        orig_defs = filters._get_definition_names
        orig_scope = parser_utils.get_cached_parent_scope
        self.scope_cache = None
        for cell in (orig_scope.__closure__ or ()):
            if isinstance(cell.cell_contents, weakref.WeakKeyDictionary):
                self.scope_cache = cell.cell_contents
        me = self

        def probe_defs(parso_cache_node, used_names, name_key):
            hit = False
            if parso_cache_node is not None:
                hit = name_key in filters._definition_name_cache.get(parso_cache_node, {})
            res = orig_defs(parso_cache_node, used_names, name_key)
            if me.trace is not None:
                me.trace.append(('d', parso_cache_node, used_names, name_key, hit, res))
            return res

        def probe_scope(parso_cache_node, node, include_flows=False):
            hit = False
            if parso_cache_node is not None and me.scope_cache is not None:
                hit = node in me.scope_cache.get(parso_cache_node, {})
            res = orig_scope(parso_cache_node, node, include_flows)
            if me.trace is not None:
                me.trace.append(('s', parso_cache_node, None, (node, include_flows), hit, res))
            return res

        from jedi.api import helpers
        from jedi.cache import _time_caches
        orig_sig = helpers.cache_signatures
        self.sig_trace = None
        self.infer_calls = 0
        orig_infer = helpers.infer

        def counting_infer(*a, **kw):
            me.infer_calls += 1
            return orig_infer(*a, **kw)

        helpers.infer = counting_infer

        def probe_sig(inference_state, context, bracket_leaf, code_lines, user_pos):
            dct = _time_caches.get('call_signatures_validity', {})
            vals_before = set(map(id, dct.values()))
            calls_before = me.infer_calls
            res = orig_sig(inference_state, context, bracket_leaf, code_lines, user_pos)
            if me.sig_trace is not None:
                path = context.get_root_context().py__file__()
                stored = [k for k, v in dct.items() if id(v) not in vals_before]
                # a stored key tells whether the regex matched; a hit returns a cached object
                if stored:
                    matched, hit = stored[-1][1] is not None, False
                elif path is None:
                    matched, hit = None, False
                else:
                    # only a comparable key (None component) can hit; nothing stored and no hit:
                    # an unmatched key that is not cached at all
                    matched, hit = False, me.infer_calls == calls_before    # a hit does not infer
                me.sig_trace.append([list(bracket_leaf.start_pos), matched, hit, path is None])
            return res

        helpers.cache_signatures = probe_sig
        filters._get_definition_names = probe_defs
        filters.get_cached_parent_scope = probe_scope
        klass.get_cached_parent_scope = probe_scope
        parser_utils.get_cached_parent_scope = probe_scope

    @classmethod
    def get(cls):
        if cls.inst is None:
            cls.inst = Probes()
        return cls.inst

    def ordinal(self, item, create=False):
        if item is None:
            return None
        for i, r in enumerate(self.items):
            if r() is item:
                return i
        if create:
            self.items.append(self.weakref.ref(item))
            return len(self.items) - 1
        return 'untracked'


def run_history(item):
    """Executes one edit history in this (long-lived) worker process.
    item = {hid, mode: nopath|path|disk, texts: [...], queries: [[q...] per step], probe: bool}"""
    jedi = _setup_worker()
    import parso
    from parso.cache import parser_cache
    from jedi import parser_utils
    from jedi.cache import _time_caches
    probes = Probes.get() if item.get('probe', True) else None
    pprobe = ParsoProbe.get()
    if probes:
        probes.items = []      # ordinals are per history
    # the clock of jedi/cache.py (time caches) is a logical one the history controls
    import jedi.cache as jcache
    if not isinstance(jcache.time, _FakeTime):
        jcache.time = _FakeTime()
    clock = jcache.time
    ticks = item.get('ticks') or [1] * len(item['texts'])
    mode = item['mode']
    path = None
    if mode != 'nopath':
        d = os.path.join(SCRATCH, 'h-%s' % item['hid'])
        os.makedirs(d, exist_ok=True)
        path = os.path.join(d, 'buf.py')
        if mode == 'disk':
            _ensure_disk_file(path, item['texts'][0])
    steps = []
    script = None
    tainted = []
    for si, text in enumerate(item['texts']):
        rec = {}
        script = None
        if probes:
            probes.trace = None
            probes.sig_trace = None
        clock.now += ticks[si]
        pprobe.calls = []
        try:
            script = jedi.Script(text, path=path)
        finally:
            pcalls, pprobe.calls = pprobe.calls, None
        grammar = script._inference_state.grammar
        key = script.path
        it = parser_cache.get(grammar._hashed, {}).get(key)
        rec['has_item'] = it is not None
        if probes and it is not None:
            known = probes.ordinal(it)
            rec['new_item'] = known == 'untracked'
            rec['item'] = probes.ordinal(it, create=True)
        if it is not None:
            rec['lines_ok'] = it.lines == parso.split_lines(text, keepends=True)
            rec['node_ok'] = it.node is script._module_node
        # the property's premise: the tree parso hands out (incrementally re-parsed, or its cached
        # node) equals a from-scratch parse.  Judged on every answer parso gave while this Script
        # was constructed; when parso was not asked at all its promise cannot have failed.
        fresh = parso.parse(text)
        fresh_dump = _tree_dump(fresh)
        rec['asked'] = len(pcalls)
        rec['tree_from_parso'] = any(c['node'] is script._module_node for c in pcalls)
        bad_calls = [c for c in pcalls if c['dump'] is not None and c['dump'] != (
            fresh_dump if c['code'] == text else _tree_dump(parso.parse(c['code'])))]
        tainted += [c['node'] for c in bad_calls]     # node objects parso once got wrong (kept alive)
        rec['premise_ok'] = not bad_calls and not (
            not rec['tree_from_parso'] and any(n is script._module_node for n in tainted))
        # what the Script holds (not a premise: a tree that differs although parso kept its promise
        # is exactly what the property forbids)
        rec['tree_ok'] = _tree_dump(script._module_node) == fresh_dump
        del pcalls
        # queries
        if probes:
            probes.trace = []
            probes.sig_trace = []
        rec['answers'] = [_run_query(script, q) for q in item['queries'][si]]
        if probes:
            rec['sigs'], probes.sig_trace = probes.sig_trace, None
            trace, probes.trace = probes.trace, None
            seen = {}
            bad_values = []
            direct_cache = {}
            for kind, node, used_names, k, hit, res in trace:
                if used_names is not None and used_names is not script._module_node.get_used_names():
                    continue    # another module's names (none in generated buffers)
                if kind == 'd':
                    mk = 'd:' + k
                    got = [[n.value, list(n.start_pos)] for n in res]
                    if mk not in direct_cache:
                        direct_cache[mk] = [[n.value, list(n.start_pos)] for n in
                                            fresh.get_used_names().get(k, ())
                                            if n.is_definition(include_setitem=True)]
                    want = direct_cache[mk]
                else:
                    nd, flows = k
                    if nd.get_root_node() is not script._module_node:
                        continue
                    mk = 's:%s@%s-%s' % (nd.type, list(nd.start_pos), list(nd.end_pos))
                    got = None if res is None else [res.type, list(res.start_pos)]
                    if mk not in direct_cache:
                        fn = _find_node(fresh, nd.type, nd.start_pos, nd.end_pos)
                        if fn is None:
                            direct_cache[mk] = 'unmapped'
                        else:
                            r = parser_utils.get_parent_scope(fn, flows)
                            direct_cache[mk] = None if r is None else [r.type, list(r.start_pos)]
                    want = direct_cache[mk]
                o = 'direct' if node is None else probes.ordinal(node)
                if (o, mk) not in seen:
                    seen[(o, mk)] = hit
                if want != 'unmapped' and got != want and len(bad_values) < 5:
                    bad_values.append({'lookup': mk, 'node': o, 'got': got, 'direct': want})
            rec['lookups'] = [[o, mk, hit] for (o, mk), hit in seen.items()]
            rec['n_trace'] = len(trace)
            rec['bad_values'] = bad_values
            del trace
        script = None
        if probes:
            gc.collect()
            cur = []
            dead = 0
            for kobj, d in list(probes.filters._definition_name_cache.items()):
                if kobj is it:
                    cur += ['d:' + k for k in d]
                elif probes.ordinal(kobj) != 'untracked':
                    dead += 1
            if probes.scope_cache is not None:
                for kobj, d in list(probes.scope_cache.items()):
                    if kobj is it:
                        cur += ['s:%s@%s-%s' % (n.type, list(n.start_pos), list(n.end_pos)) for n in d]
            rec['derived_cur'] = sorted(cur)
            rec['dead_items_alive'] = dead
        steps.append(rec)
    return {'hid': item['hid'], 'steps': steps}


def truth(item):
    """answers for ONE text with every cache of this process emptied first.
    item = {hid, mode, text, disk_text, queries}"""
    jedi = _setup_worker()
    from parso.cache import parser_cache
    jedi.cache.clear_time_caches(True)
    parser_cache.clear()
    gc.collect()
    path = None
    if item['mode'] != 'nopath':
        d = os.path.join(SCRATCH, 'h-%s' % item['hid'])
        os.makedirs(d, exist_ok=True)
        path = os.path.join(d, 'buf.py')
        if item['mode'] == 'disk':
            _ensure_disk_file(path, item['disk_text'])
    script = jedi.Script(item['text'], path=path)
    return [_run_query(script, q) for q in item['queries']]


# ======================================================================= generation (parent)

def sample_queries(rng, text, npos):
    """queries for one version of the buffer, positions taken from a from-scratch parse"""
    import parso
    root = parso.parse(text)
    names, parens = [], []
    leaf = root.get_first_leaf()
    while leaf is not None:
        if leaf.type == 'name':
            names.append(leaf)
        elif leaf.type == 'operator' and leaf.value == '(':
            parens.append(leaf)
        leaf = leaf.get_next_leaf()
    qs = [['names', None, None], ['errors', None, None]]
    for nm in rng.sample(names, min(npos, len(names))):
        l, c = nm.start_pos
        for kind in ('infer', 'goto', 'refs', 'context'):
            qs.append([kind, l, c])
        qs.append(['complete', l, nm.end_pos[1]])
        if len(nm.value) > 1:
            qs.append(['complete', l, c + 1])
    if names and rng.random() < 0.3:
        nm = rng.choice(names)
        qs.append(['refs_project', nm.start_pos[0], nm.start_pos[1]])
    for p in rng.sample(parens, min(2, len(parens))):
        l, c = p.end_pos
        qs.append(['sigs', l, c])
    # the very end of the buffer (where one is typing)
    lines = text.split('\n')
    qs.append(['complete', len(lines), len(lines[-1])])
    qs.append(['sigs', len(lines), len(lines[-1])])
    return qs


def gen_histories(ctx, n, rng_name='hist'):
    from gen import histories
    rng = ctx.subrng(rng_name)
    out = []
    for i in range(n):
        r = rng.random()
        length = rng.randint(1, 5) if r < 0.5 else rng.randint(6, 12) if r < 0.85 else rng.randint(13, 30)
        if ctx.quick and length > 10:
            length = rng.randint(7, 10)
        # every other history is revisit-rich: it returns to earlier states of the buffer (undo,
        # redo, revert at any distance, toggling), the others only through the rare `undo` edit
        revisit = [0.0, 0.35, 0.0, 0.6][i % 4]
        if revisit and length < 4:
            length += 3
        hist = histories.history(rng, length, revisit)
        mode = ['nopath', 'path', 'disk'][i % 3]
        texts = [t for _, t in hist]
        npos = 2 if ctx.quick else 4
        out.append({'hid': '%s-%d-%d' % (rng_name, ctx.seed, i), 'mode': mode, 'texts': texts,
                    'kinds': [k for k, _ in hist],
                    'ticks': [rng.choice([0, 1, 1, 1, 2, 2, 4, 10]) for _ in texts],
                    'queries': [sample_queries(rng, t, npos) for t in texts], 'probe': True})
    return out


def pmap(func, chunks, jobs=14, timeout=900, module='props.c08'):
    """runs props.c08.<func> over every chunk (a list of items) in its own new interpreter, at most
    `jobs` at a time; returns the list of result lists, in order"""
    import tempfile
    tmp = tempfile.mkdtemp(prefix='verif-c08-', dir='/var/tmp')
    env = dict(os.environ)
    env['PYTHONPATH'] = os.pathsep.join([common.REPO, os.path.join(common.VERIF, 'harness'), common.VERIF])
    pending = list(enumerate(chunks))
    running = []
    results = [None] * len(chunks)
    try:
        while pending or running:
            while pending and len(running) < jobs:
                i, chunk = pending.pop(0)
                inp = os.path.join(tmp, 'in%d.json' % i)
                outp = os.path.join(tmp, 'out%d.json' % i)
                with open(inp, 'w') as f:
                    json.dump(chunk, f)
                p = subprocess.Popen([sys.executable, os.path.join(common.VERIF, 'harness', 'worker.py'),
                                      module, func, inp, outp], env=env, cwd=common.VERIF,
                                     stdout=subprocess.DEVNULL, stderr=subprocess.PIPE, text=True)
                running.append((i, p, outp, time.time()))
            still = []
            for i, p, outp, t0 in running:
                if p.poll() is None:
                    if time.time() - t0 > timeout:
                        p.kill()
                        raise common.InfraError('worker %s timed out' % func)
                    still.append((i, p, outp, t0))
                    continue
                if p.returncode != 0:
                    raise common.InfraError('worker %s failed: %s' % (func, (p.stderr.read() or '')[-1500:]))
                with open(outp) as f:
                    results[i] = json.load(f)
            running = still
            if running:
                time.sleep(0.02)
        return results
    finally:
        for _, p, _, _ in running:
            if p.poll() is None:
                p.kill()
        import shutil
        shutil.rmtree(tmp, ignore_errors=True)


def chunked(items, n):
    n = max(1, min(n, len(items)))
    size = (len(items) + n - 1) // n
    return [items[i:i + size] for i in range(0, len(items), size)]


def fresh_interpreters(items, jobs=14):
    """one brand-new interpreter per item (truth()); returns the answers in order"""
    return [r[0] for r in pmap('truth', [[it] for it in items], jobs)]


# ======================================================================= model replay

def model_request(h, res):
    """the observed history as a request for Drivers/C08"""
    ids = {}
    steps = []
    ticks = h.get('ticks') or [1] * len(h['texts'])
    for si, text in enumerate(h['texts']):
        tid = ids.setdefault(text, len(ids) + 1)
        key = None if h['mode'] == 'nopath' else 'buf'
        steps.append({'t': 'tick', 'dt': ticks[si]})
        steps.append({'t': 'script', 'key': key, 'text': tid,
                      'ptime': 1500000000 if h['mode'] == 'disk' else None})
        for o, mk, hit in res['steps'][si].get('lookups', []):
            steps.append({'t': 'lookup', 'k': mk})
        for pos, matched, hit, nopath in res['steps'][si].get('sigs', []):
            steps.append({'t': 'sig', 'pos': pos[0] * 100000 + pos[1], 'matched': bool(matched), 'k': 'sig'})
        steps.append({'t': 'gc'})
    return {'op': 'history', 'cfg': {}, 'steps': steps}


def compare_model(ctx, h, res, ans):
    """model answers (list aligned with the request steps) vs the probed real state"""
    i = 0
    ids = {}
    for si, text in enumerate(h['texts']):
        tid = ids.setdefault(text, len(ids) + 1)
        rec = res['steps'][si]
        i += 1   # tick
        m = ans[i]
        i += 1
        case = {'hid': h['hid'], 'mode': h['mode'], 'step': si}
        real = {'item': rec.get('item'), 'new_item': rec.get('new_item'), 'has_item': rec['has_item'],
                'lines_ok': rec.get('lines_ok'), 'node_ok': rec.get('node_ok'),
                'asked_parso': rec.get('asked', 1) > 0}
        mitem = m.get('item') or {}
        model = {'item': mitem.get('gen'), 'new_item': m.get('new_item'), 'has_item': m.get('item') is not None,
                 'lines_ok': m.get('cur') == tid, 'node_ok': mitem.get('obj') == m.get('obj'),
                 'asked_parso': m.get('asked')}
        ctx.count('cache-state', (h['hid'], si, 'script'), nontrivial=si > 0,
                  bucket='%s/%s' % (h['mode'], 'new-item' if real['new_item'] else 'reused'),
                  sample={'mode': h['mode'], 'step': si, 'real': real})
        if real != model:
            ctx.tie_broken('correspondence:cache-state', short({'case': case, 'real': real, 'model': model,
                                                                'edit': h['kinds'][si]}, 900))
        for o, mk, hit in rec.get('lookups', []):
            m = ans[i]
            i += 1
            mo = m.get('node')
            ctx.count('cache-state', (h['hid'], si, mk), nontrivial=o != 'direct',
                      bucket='lookup-%s' % ('direct' if o == 'direct' else 'hit' if hit else 'miss'))
            if [o, hit] != [mo, m.get('hit')] or m.get('val') != tid:
                ctx.tie_broken('correspondence:cache-state',
                               short({'case': case, 'lookup': mk, 'real': [o, hit], 'model': m,
                                      'text_id': tid}, 900))
        for pos, matched, hit, nopath in rec.get('sigs', []):
            m = ans[i]
            i += 1
            ctx.count('sig-cache', (h['hid'], si, tuple(pos), matched), nontrivial=not nopath,
                      bucket='nopath' if nopath else ('matched' if matched else 'unmatched') + ('/hit' if hit else '/miss'))
            # a hit serves the value of the text that stored it: the model says which one
            if hit != m.get('hit'):
                ctx.tie_broken('correspondence:sig-cache', short({'case': case, 'bracket': pos, 'matched': matched,
                                                                  'real_hit': hit, 'model': m}, 600))
        m = ans[i]
        i += 1   # gc
        mcur = sorted(k for g, k in m.get('derived', []) if g == model['item'])
        ctx.count('cache-state', (h['hid'], si, 'gc'), nontrivial=bool(mcur), bucket='after-gc')
        if rec.get('derived_cur') is not None and rec['derived_cur'] != mcur:
            ctx.tie_broken('correspondence:cache-state',
                           short({'case': case, 'what': 'keys of the derived caches under the live item after gc',
                                  'only_real': sorted(set(rec['derived_cur']) - set(mcur))[:5],
                                  'only_model': sorted(set(mcur) - set(rec['derived_cur']))[:5]}, 900))


# ======================================================================= oracle

def judge(ctx, stream, h, si, hist_answers, truth_answers, how):
    """the property: answers after the history == answers of a process that never saw it"""
    bad = []
    for q, a, b in zip(h['queries'][si], hist_answers, truth_answers):
        ctx.count(stream, (h['hid'], si, tuple(q)), nontrivial=bool(a) and si > 0,
                  bucket='%s/%s' % (q[0], 'exc' if a[:1] == ['EXC'] else 'empty' if not a else 'answer'),
                  sample={'query': q, 'answer': a[:3]})
        if a != b:
            bad.append((q, a, b))
    return bad


def shape_of(h, q, a, b=None):
    """classifies a failing (query, history answer, fresh answer) for the known-finding matcher"""
    if q[0] == 'sigs' and h['mode'] != 'nopath':
        entries = [x for ans in (a, b) if ans and ans[0] != 'EXC' for x in ans]
        if entries and all(len(x) == 6 and x[4][0] < q[1] for x in entries):
            return 'sigs-cursor-below-bracket-line'
    return q[0]


def confirm_and_report(ctx, stream, h, si, bad):
    """failing-input search: re-run in new processes, shrink the history by dropping steps"""
    q, a, b = bad[0]
    texts = h['texts'][:si + 1]
    shape = shape_of(h, q, a, b)
    if shape == 'sigs-cursor-below-bracket-line':
        # the signature time cache keyed on (path, None, bracket position): reported unshrunk
        ctx.fail(stream, 'get_signatures serves the signature of an earlier text',
                 {'shape': shape, 'mode': h['mode'], 'texts': texts[-2:], 'query': q,
                  'ticks': (h.get('ticks') or [1] * len(h['texts']))[si - 1:si + 1]},
                 expected=b, observed=a, how='./check C08 --replay <this file>')
        return

    def fails(ts):
        item = {'hid': h['hid'] + '-shrink', 'mode': h['mode'], 'texts': ts,
                'queries': [[q] for _ in ts], 'probe': False, 'ticks': [1] * len(ts)}
        t_item = {'hid': h['hid'] + '-shrink', 'mode': h['mode'], 'text': ts[-1], 'disk_text': ts[0],
                  'queries': [q]}
        _cleanup_dir(h['hid'] + '-shrink')
        r = pmap('run_history', [[item]], 1)[0][0]
        t = fresh_interpreters([t_item])[0]
        return r['steps'][-1]['answers'][0] != t[0], r['steps'][-1]['answers'][0], t[0]

    ok, a2, b2 = fails(texts)
    if not ok:
        # only reproducible with the other queries of the history in between: report unshrunk
        ctx.fail(stream, 'answer depends on the editing history (needs the full query load to reproduce)',
                 {'shape': shape, 'mode': h['mode'], 'texts': texts, 'query': q, 'queries': h['queries'][:si + 1],
                  'ticks': (h.get('ticks') or [1] * len(h['texts']))[:si + 1]},
                 expected=b, observed=a, how='./check C08 --replay <this file>')
        return
    # drop steps greedily (the first text is the disk text in disk mode: keep it)
    keep = list(texts)
    i = 1 if h['mode'] == 'disk' else 0
    tries = 0
    while i < len(keep) - 1 and tries < 8:
        tries += 1
        cand = keep[:i] + keep[i + 1:]
        ok, _, _ = fails(cand)
        if ok:
            keep = cand
        else:
            i += 1
    ok, a2, b2 = fails(keep)
    ctx.fail(stream, 'answer depends on the editing history',
             {'shape': shape, 'mode': h['mode'], 'texts': keep, 'query': q},
             expected=b2, observed=a2, how='./check C08 --replay <this file>')


def _cleanup_dir(hid):
    import shutil
    shutil.rmtree(os.path.join(SCRATCH, 'h-%s' % hid), ignore_errors=True)


# ======================================================================= run

def load_corpus():
    d = os.path.join(common.CORPUS_DIR, 'C08')
    out = []
    if os.path.isdir(d):
        for f in sorted(os.listdir(d)):
            if f.endswith('.json'):
                with open(os.path.join(d, f)) as fh:
                    c = json.load(fh)
                c['hid'] = 'corpus-' + f[:-5]
                c.setdefault('kinds', ['corpus'] * len(c['texts']))
                c.setdefault('probe', True)
                if 'queries' not in c:
                    import random
                    rng = random.Random(f)
                    c['queries'] = [sample_queries(rng, t, 3) for t in c['texts']]
                out.append(c)
    return out


def run(ctx):
    import shutil
    shutil.rmtree(SCRATCH, ignore_errors=True)
    os.makedirs(SCRATCH, exist_ok=True)
    try:
        _run(ctx)
    finally:
        shutil.rmtree(SCRATCH, ignore_errors=True)


def _run(ctx):
    hists = load_corpus() + gen_histories(ctx, ctx.size(30, 600))
    by_id = {h['hid']: h for h in hists}
    jobs = 14
    # several histories per worker process, one after the other: later ones start from the caches
    # the earlier ones left behind (longer effective histories)
    titems = []
    for h in hists:
        for si, text in enumerate(h['texts']):
            titems.append({'hid': h['hid'], 'mode': h['mode'], 'text': text, 'disk_text': h['texts'][0],
                           'queries': h['queries'][si], '_k': [h['hid'], si]})
    order = list(range(len(titems)))
    ctx.subrng('truth-order').shuffle(order)
    shuffled = [titems[i] for i in order]
    # several histories per worker process, one after the other: later ones start from the caches
    # the earlier ones left behind (longer effective histories).  Ground truth: every (history,
    # step) text in a process that never saw the history (other processes, shuffled order, every
    # cache emptied before each text).  Disk-mode files are written by whoever comes first with the
    # same content and mtime.
    from concurrent.futures import ThreadPoolExecutor
    t0 = time.time()
    with ThreadPoolExecutor(2) as ex:
        f1 = ex.submit(pmap, 'run_history', chunked(hists, 9), 9)
        f2 = ex.submit(pmap, 'truth', chunked(shuffled, 7), 7)
        results = [r for c in f1.result() for r in c]
        tans = [r for c in f2.result() for r in c]
    common.log('[c08] histories + truth: %.1fs' % (time.time() - t0))
    truth_of = {}
    for it, a in zip(shuffled, tans):
        truth_of[tuple(it['_k'])] = a

    # ---- correspondence with the model
    if ctx.model_ok:
        reqs = [model_request(h, r) for h, r in zip(hists, results)]
        answers = common.run_driver('C08', reqs)
        for h, r, a in zip(hists, results, answers):
            if isinstance(a, dict):
                raise common.InfraError('driver error: %r' % a)
            compare_model(ctx, h, r, a)
    else:
        ctx.notes.append('model did not build: correspondence skipped, oracle only')

    # ---- python-side invariants of the probes + the oracle
    premise_broken = 0
    suspicious = []
    for h, r in zip(hists, results):
        for si, rec in enumerate(r['steps']):
            case = {'hid': h['hid'], 'mode': h['mode'], 'step': si, 'edit': h['kinds'][si]}
            ctx.count('derived-value', (h['hid'], si), nontrivial=rec.get('n_trace', 0) > 0,
                      bucket='lookups=%s' % ('0' if not rec.get('n_trace') else '1-99' if rec['n_trace'] < 100 else '>=100'))
            if not rec['premise_ok']:
                premise_broken += 1
                ctx.count('premise', (h['hid'], si), bucket='diff-parser-differs')
                continue
            ctx.count('premise', (h['hid'], si), nontrivial=si > 0, bucket='ok')
            if rec.get('bad_values'):
                ctx.tie_broken('correspondence:derived-value', short({'case': case, 'bad': rec['bad_values']}, 900))
            if rec.get('lines_ok') is False or rec.get('node_ok') is False:
                ctx.tie_broken('correspondence:cache-state',
                               short({'case': case, 'what': 'item under the Script key does not carry the current text',
                                      'lines_ok': rec.get('lines_ok'), 'node_ok': rec.get('node_ok')}))
            # the source of the Script's tree (model: obtainTree = parseBuffer, one question to parso
            # per construction, its answer is the Script's module node)
            revisit = si > 0 and h['texts'][si] in h['texts'][:si] and h['texts'][si] != h['texts'][si - 1]
            ctx.count('tree-source', (h['hid'], si), nontrivial=revisit,
                      bucket='%s/%s' % (h['mode'], 'revisit' if revisit else
                                        'same' if si and h['texts'][si] == h['texts'][si - 1] else 'new-text'))
            if rec.get('asked') != 1 or not rec.get('tree_from_parso') or not rec.get('tree_ok'):
                ctx.tie_broken('correspondence:tree-source',
                               short({'case': case, 'what': 'Script.__init__ must ask parso exactly once for the '
                                      'buffer and hold the node parso returned, whose content is the from-scratch '
                                      'parse of the text (model: obtainTree = parseBuffer)',
                                      'asked': rec.get('asked'), 'tree_from_parso': rec.get('tree_from_parso'),
                                      'tree_equals_fresh_parse': rec.get('tree_ok')}))
            bad = judge(ctx, 'oracle', h, si, rec['answers'], truth_of[(h['hid'], si)], None)
            if bad:
                suspicious.append((h, si, bad))
    if premise_broken:
        ctx.notes.append('%d steps where parso\'s diff parser did not produce the from-scratch tree '
                         '(premise of the property false there): counted, not judged' % premise_broken)
    # ---- brand-new interpreters for a sample (and for everything suspicious)
    rng = ctx.subrng('fresh')
    cand = [(h, si) for h, r in zip(hists, results) for si, rec in enumerate(r['steps'])
            if si > 0 and rec['premise_ok']]
    sample = rng.sample(cand, min(len(cand), ctx.size(10, 400)))
    fitems = [{'hid': h['hid'], 'mode': h['mode'], 'text': h['texts'][si], 'disk_text': h['texts'][0],
               'queries': h['queries'][si]} for h, si in sample]
    t0 = time.time()
    fans = fresh_interpreters(fitems)
    common.log('[c08] fresh interpreters: %.1fs' % (time.time() - t0))
    res_of = {r['hid']: r for r in results}
    for (h, si), fa in zip(sample, fans):
        bad = judge(ctx, 'oracle-fresh', h, si, res_of[h['hid']]['steps'][si]['answers'], fa, None)
        if bad and not any(x[0] is h and x[1] == si for x in suspicious):
            suspicious.append((h, si, bad))
        # the empty-cache worker must itself agree with the brand-new interpreter
        if truth_of[(h['hid'], si)] != fa:
            ctx.notes.append('empty-cache worker and brand-new interpreter disagree on %s step %d' % (h['hid'], si))
    seen_shapes = {}
    for h, si, bad in suspicious:
        sh = shape_of(h, bad[0][0], bad[0][1], bad[0][2])
        seen_shapes[sh] = seen_shapes.get(sh, 0) + 1
        if seen_shapes[sh] > (3 if sh != 'sigs-cursor-below-bracket-line' else 50):
            continue
        nviol = len(ctx.violations)
        confirm_and_report(ctx, 'oracle', h, si, bad)
        if len(ctx.violations) > nviol:
            ctx.tie_broken('oracle:history-vs-fresh', short({'hid': h['hid'], 'step': si, 'query': bad[0][0],
                                                             'history': bad[0][1], 'fresh': bad[0][2]}, 900))
    ctx.obligations['assumptions'] = [
        'parso diff parser result == from-scratch parse (premise of the property; checked per step by a '
        'tree dump comparison of every answer parso gives while the Script is constructed, failing steps are counted in stream `premise` and not judged)',
        '`parse` and `compute` are parameters of the model: what a lookup computes on a tree is not modelled; '
        'stream derived-value compares every probed lookup with its uncached computation on a fresh parse',
        'weak dictionaries: an entry disappears when its item is collected (model op `gc`; harness calls '
        'gc.collect() after dropping the previous Script)',
        'the 10-minute default-environment cache (jedi/api/environment.py) is not exercised',
    ]


def replay(ctx, payload):
    inp = payload['input']
    item = {'hid': 'replay', 'mode': inp['mode'], 'texts': inp['texts'],
            'queries': inp.get('queries') or [[inp['query']] for _ in inp['texts']], 'probe': False,
            'ticks': inp.get('ticks')}
    os.makedirs(SCRATCH, exist_ok=True)
    _cleanup_dir('replay')
    r = pmap('run_history', [[item]], 1)[0][0]
    t = fresh_interpreters([{'hid': 'replay', 'mode': inp['mode'], 'text': inp['texts'][-1],
                             'disk_text': inp['texts'][0], 'queries': item['queries'][-1]}])[0]
    print('query   :', inp['query'])
    print('history :', r['steps'][-1]['answers'][-len(t):])
    print('fresh   :', t)
    print('recorded: expected', payload.get('expected'), 'observed', payload.get('observed'))
    return 1 if r['steps'][-1]['answers'][-len(t):] != t else 0

"""C05, stream `kwparam`: the property itself on generated single-module programs whose parameters
are passed by keyword at call sites (gen/kwparams.py).

For every identifier occurrence `s` of the program that has a lexical meaning (the keywords that
end up as keys of a `**` dictionary are strings: no start points, but they count when jedi reports
or rewrites them):
  R(s) = Script(source).get_references(line, col, scope='file')
  (s)  s is among R(s)
  (c)  partition: R(r) = R(s) for every reported occurrence r that is a start point itself
  (a)  rename(new_name=fresh) replaces exactly the occurrences of R(s) by the fresh name
  (b)  the rewritten program prints what the original printed (and ends the same way)
  (d)  renaming the fresh name back from the same occurrence restores the text byte for byte.
"""
from gen import kwparams as K

FRESH = K.FRESH
EMPTY_PROJECT = '/var/tmp/verif-c05-empty-project'


def replace_at(src, positions, old, new):
    lines = src.split('\n')
    for (l, c) in sorted(set(map(tuple, positions)), reverse=True):
        s = lines[l - 1]
        if s[c:c + len(old)] != old:
            raise ValueError('no %r at %r' % (old, (l, c)))
        lines[l - 1] = s[:c] + new + s[c + len(old):]
    return '\n'.join(lines)


def keywords_in_binding_scopes(src):
    """spellings S such that some call `f(S=...)` stands directly in a scope (module, function,
    lambda, class body) that binds S itself (parameter, assignment, def, class)"""
    import ast
    out = set()

    def bound(scope):
        names = set()
        if isinstance(scope, (ast.FunctionDef, ast.AsyncFunctionDef, ast.Lambda)):
            a = scope.args
            for x in a.posonlyargs + a.args + a.kwonlyargs + [a.vararg, a.kwarg]:
                if x is not None:
                    names.add(x.arg)
        body = scope.body if isinstance(scope.body, list) else []
        stack = list(body)
        while stack:
            n = stack.pop()
            if isinstance(n, (ast.FunctionDef, ast.AsyncFunctionDef, ast.ClassDef)):
                names.add(n.name)
                continue
            if isinstance(n, ast.Lambda):
                continue
            if isinstance(n, ast.Name) and isinstance(n.ctx, ast.Store):
                names.add(n.id)
            stack.extend(ast.iter_child_nodes(n))
        return names

    def calls_of(scope):
        """keywords of the calls that stand in this scope itself (defaults and decorators of a
        nested def belong to this scope, its body does not)"""
        found = []
        body = scope.body if isinstance(scope.body, list) else [scope.body]
        stack = list(body)
        while stack:
            n = stack.pop()
            if isinstance(n, (ast.FunctionDef, ast.AsyncFunctionDef)):
                stack.extend(n.args.defaults + [d for d in n.args.kw_defaults if d is not None] + n.decorator_list)
                continue
            if isinstance(n, ast.Lambda):
                stack.extend(n.args.defaults + [d for d in n.args.kw_defaults if d is not None])
                continue
            if isinstance(n, ast.ClassDef):
                stack.extend(n.bases + n.decorator_list)
                continue
            if isinstance(n, ast.Call):
                found.extend(k.arg for k in n.keywords if k.arg)
            stack.extend(ast.iter_child_nodes(n))
        return found

    tree = ast.parse(src)
    for scope in ast.walk(tree):
        if isinstance(scope, (ast.Module, ast.FunctionDef, ast.AsyncFunctionDef, ast.Lambda, ast.ClassDef)):
            b = bound(scope)
            out |= {k for k in calls_of(scope) if k in b}
    return out


def shape_of(prog, name, merged=None):
    """syntactic class of the start (what known findings are matched by): decided on the program
    text alone"""
    shapes = []
    if name in prog.get('collide', []):
        shapes.append('call-keyword-spelled-like-star-or-positional-only-parameter-of-the-callee')
    if name in (merged if merged is not None else keywords_in_binding_scopes(prog['source'])):
        shapes.append('call-keyword-in-a-scope-that-binds-the-same-spelling')
    return shapes


def judge_program(prog, only=None):
    """all clauses for every start of one program (or the start `only` = [line, col]);
    returns {'records': [{'case', 'n_refs', 'fails': [(what, expected, observed)]}], 'raised': [..]}"""
    import os
    import common
    import jedi
    os.makedirs(EMPTY_PROJECT, exist_ok=True)
    project = jedi.Project(EMPTY_PROJECT)
    src = prog['source']
    dictkeys = {tuple(k) for k in prog.get('dictkeys', [])}
    toks = K.tokens(src)
    starts = [t for t in toks if (t[0], t[1]) not in dictkeys]
    index = {(l, c) for (l, c, _) in starts}
    out = {'records': [], 'raised': [], 'skipped': None}
    base = K.run_output(src)
    if base[1] is not None:
        out['skipped'] = 'original program does not run: %r' % (base,)
        return out
    memo = {}
    merged = keywords_in_binding_scopes(src)

    def refs_of(l, c):
        if (l, c) not in memo:
            try:
                rs = jedi.Script(src, project=project).get_references(l, c, scope='file')
                memo[(l, c)] = sorted([d.line, d.column] for d in rs)
            except Exception as e:
                cls, site = common.exc_site(e)
                out['raised'].append('get_references:%s@%s' % (cls, site))
                memo[(l, c)] = None
        return memo[(l, c)]

    for (l, c, s) in starts:
        if only is not None and [l, c] != list(only)[:2]:
            continue
        rs = refs_of(l, c)
        if rs is None or any(r[0] is None for r in rs):
            continue
        case = {'source': src, 'line': l, 'column': c, 'name': s, 'new_name': FRESH, 'dictkeys': prog.get('dictkeys', []),
                'collide': prog.get('collide', []), 'program': 'kwparam'}
        shapes = shape_of(prog, s, merged)
        case['shape'] = '+'.join(shapes) or 'plain'
        case['keyword_spelled_like_unbindable_parameter'] = 'call-keyword-spelled-like-star-or-positional-only-parameter-of-the-callee' in shapes
        case['keyword_in_binding_scope'] = 'call-keyword-in-a-scope-that-binds-the-same-spelling' in shapes
        rec = {'case': case, 'n_refs': len(rs), 'fails': []}
        out['records'].append(rec)
        if [l, c] not in rs:
            rec['fails'].append(('the occurrence under the cursor is not among its own references', [l, c], rs))
            continue
        # (c) partition
        for r in rs:
            if tuple(r) in index:
                other = refs_of(*r)
                if other is not None and other != rs:
                    rec['fails'].append(('references are not a partition: asking from a reported occurrence gives another set',
                                         rs, {'from': list(r), 'refs': other}))
                    break
        # (a) exactness
        try:
            ref = jedi.Script(src, project=project).rename(l, c, new_name=FRESH)
            files = ref.get_changed_files()
            new_code = list(files.values())[0].get_new_code() if files else src
        except Exception as e:
            cls, site = common.exc_site(e)
            out['raised'].append('rename:%s@%s' % (cls, site))
            continue
        try:
            expected = replace_at(src, rs, s, FRESH)
        except ValueError as e:
            rec['fails'].append(('a reported reference is not an occurrence of the identifier', s, {'refs': rs, 'error': str(e)}))
            continue
        if new_code != expected:
            rec['fails'].append(('rename does not rewrite exactly the reported references', expected, new_code))
            continue
        # (b) behaviour
        nb = K.run_output(new_code)
        if nb != base:
            changed = [[i, b] for i, (a, b) in enumerate(zip(src.split('\n'), new_code.split('\n')), 1) if a != b]
            rec['fails'].append(('renamed program behaves differently', {'original run': base},
                                 {'rewritten run': nb, 'references': rs, 'rewritten lines': changed}))
        # (d) rename back from the same occurrence
        shift = sum(len(FRESH) - len(s) for r in rs if r[0] == l and r[1] < c)
        try:
            back = jedi.Script(new_code, project=project).rename(l, c + shift, new_name=s)
            files = back.get_changed_files()
            back_code = list(files.values())[0].get_new_code() if files else new_code
            if back_code != src:
                diff = [[i, a, b] for i, (a, b) in enumerate(zip(src.split('\n'), back_code.split('\n')), 1) if a != b]
                rec['fails'].append(('renaming back does not restore the text', src, {'lines that differ': diff}))
        except Exception as e:
            cls, site = common.exc_site(e)
            out['raised'].append('rename-back:%s@%s' % (cls, site))
    return out


def analyse(item):
    """worker entry; item = {'seed': str, 'plans': [plan, ...]} or {'program': prog}"""
    import random
    res = []
    if 'program' in item:
        progs = [item['program']]
    else:
        rng = random.Random(item['seed'])
        progs = [K.gen_program(rng, plan) for plan in item['plans']]
    for prog in progs:
        out = judge_program(prog)
        out['features'] = prog.get('features', [])
        out['kinds'] = prog.get('kinds', [])
        out['tag'] = item.get('tag', 'random')
        res.append(out)
    return res


def replay(payload):
    """re-runs the clauses for the recorded start occurrence; exit code 1 = reproduced"""
    import json
    inp = payload['input']
    prog = {'source': inp['source'], 'dictkeys': inp.get('dictkeys', []), 'collide': inp.get('collide', [])}
    print(inp['source'])
    print('## cursor: line %d column %d (%s), rename to %s' % (inp['line'], inp['column'], inp.get('name'),
                                                             inp.get('new_name', FRESH)))
    out = judge_program(prog, only=[inp['line'], inp['column']])
    if out['skipped']:
        print(out['skipped'])
        return 0
    bad = 0
    for rec in out['records']:
        for what, exp, obs in rec['fails']:
            bad += 1
            print('FAILS: %s' % what)
            print('  expected: %s' % json.dumps(exp)[:3000])
            print('  observed: %s' % json.dumps(obs)[:3000])
    if out['raised']:
        print('raised:', out['raised'])
    if not bad:
        print('all clauses hold for this occurrence (recorded: %s)' % payload.get('what'))
    return 1 if bad else 0


# one fixed program per known finding (the same KNOWN-FINDING line on every seed)
WITNESSES = [
    {'source': 'def spread(item, **depth):\n    return [item] + sorted(depth)\n\n\nprint(spread(1, depth=2))\n',
     'dictkeys': [[5, 16]], 'collide': ['depth'], 'features': ['witness:varkw-collide']},
    {'source': 'def spread(depth, /, **opts):\n    return [depth] + sorted(opts)\n\n\nprint(spread(1, depth=2))\n',
     'dictkeys': [[5, 16]], 'collide': ['depth'], 'features': ['witness:posonly-collide']},
    {'source': 'def spread(item, *depth, **opts):\n    return [item, len(depth)] + sorted(opts)\n\n\nprint(spread(1, 5, depth=2))\n',
     'dictkeys': [[5, 19]], 'collide': ['depth'], 'features': ['witness:varargs-collide']},
]

CLAUSE = {
    'the occurrence under the cursor is not among its own references': 'self',
    'references are not a partition: asking from a reported occurrence gives another set': 'partition',
    'a reported reference is not an occurrence of the identifier': 'exactness',
    'rename does not rewrite exactly the reported references': 'exactness',
    'renamed program behaves differently': 'behaviour',
    'renaming back does not restore the text': 'rename-back',
}
WITNESSES.append(
    {'source': 'def inner(depth):\n    return depth + 1\n\n\ndef outer(depth):\n    return inner(depth=3) * depth\n\n\nprint(outer(depth=2))\n',
     'dictkeys': [], 'collide': [], 'features': ['witness:keyword-in-binding-scope']})


def goto_chunk(cases):
    """worker entry (stream kwgoto): what Script.goto answers on the keyword of each call, as
    indices of the callee's parameters (-1 = something that is not a parameter of the def)"""
    import os
    import common
    import jedi
    os.makedirs(EMPTY_PROJECT, exist_ok=True)
    project = jedi.Project(EMPTY_PROJECT)
    out = []
    for c in cases:
        try:
            ds = jedi.Script(c['source'], project=project).goto(c['line'], c['col'])
        except Exception as e:
            cls, site = common.exc_site(e)
            out.append({'raised': '%s@%s' % (cls, site)})
            continue
        idx = []
        for d in ds:
            pos = [d.line, d.column]
            idx.append(c['params'].index(pos) if pos in c['params'] else -1)
        out.append({'goto': sorted(idx)})
    return out

"""C17, streams `files` and `scriptparse`: histories of ONE project file.

The property speaks about every Name that points into the analysed buffer OR A PROJECT FILE.  A
project file has a history: it is written, analysed from disk (`jedi.Script(path=p)`, jedi reads the
file itself), edited in an editor whose unsaved buffer is analysed (`jedi.Script(code, path=p)`),
saved, replaced by a backup that keeps its old modification time (`mv`, `cp -p`, `rsync -t`,
`tar x`), written twice within one time stamp, removed, and the process that analyses it is
restarted.  Between the file on disk and the tree a Script works on sit parso's caches, keyed by the
PATH and validated by time stamps.

stream `files` (direct oracle, fresh-interpreter workers): a history is a list of JSON-able steps
over one path in a fresh directory

  {'op': 'write', 'version': i, 'mtime': 'new' | 'same' | 'old' | 'now'}
  {'op': 'remove'}
  {'op': 'disk'}                      jedi.Script(path=p)          judged against the file's text NOW
  {'op': 'buffer', 'version': i}      jedi.Script(versions[i], path=p)   judged against versions[i]
  {'op': 'restart'}                   a new process: parso's in-memory cache is empty, pickles stay

and every analysis is judged by the property's own criterion on the text it analyses (read from disk
by the oracle itself): get_names(all_scopes, definitions, references) = the identifier tokens of
Python's tokenize, each once, is_definition() = the binding tokens of ast; for every Name returned by
get_names and by a few position queries: text at (line, column) is the name, the definition range
encloses it, get_line_code() is that very line.

stream `scriptparse` (correspondence): Model.ScriptParse.run - `Script.__init__`'s parse call with
the cache policy the translator read, on top of a transcription of parso's `Grammar.parse` /
`load_module` / `try_to_save_module` - against the real `jedi.Script(...)` and the real
`grammar.parse(code=, path=, cache=, diff_cache=, cache_path=)` on generated histories with explicit
time stamps: which version's text the returned tree carries (`get_code()`) and which text the Script
keeps as `_code`."""
import os
import random
import re
import shutil
import tempfile
import time

import common
from gen import c17_histories as H
from gen import texts

T0 = 1600000000            # explicit modification times start here (2020), far from the wall clock
MODES = ['new', 'new', 'new', 'same', 'same', 'old', 'old', 'now']
HEADERS = ['# header\n', 'import os\n', 'LIMIT = 10\n', '# -- \u00fcbersicht --\n', '\n\n',
           'def helper(first, second):\n    return first\n\n\n', 'class Early:\n    attr = 1\n\n']


# ------------------------------------------------------------------ generators

def _encodable(t):
    try:
        return t.encode('utf-8').decode('utf-8') == t and not t.startswith('\ufeff') and '\x00' not in t
    except UnicodeError:
        return False


def gen_versions(rng):
    """2-4 distinct texts of one module: a program and edited forms of it (lines put in front,
    identifiers renamed, statements dropped) or an unrelated program"""
    fam, base = H.gen_text(rng)
    base = base.lstrip('\ufeff')
    vs = [base]
    for _ in range(rng.randint(1, 3)):
        src = rng.choice(vs)
        r = rng.random()
        if r < 0.45:
            nl = '\r\n' if '\r\n' in src else '\n'
            new = ''.join(h.replace('\n', nl) for h in rng.sample(HEADERS, rng.randint(1, 3))) + src
        elif r < 0.65:
            words = sorted({w for (_, _, w) in H.ident_positions(src)})
            if words:
                w = rng.choice(words)
                new = re.sub(r'(?<![\w])%s(?![\w])' % re.escape(w), w + '_renamed', src)
            else:
                new = 'x = 1\n' + src
        elif r < 0.8:
            ls = src.split('\n')
            k = rng.randrange(len(ls))
            new = '\n'.join(ls[:k] + ls[k + 1:]) if len(ls) > 1 else src + '\nlast = 0\n'
        else:
            new = H.gen_text(rng)[1].lstrip('\ufeff')
        if new not in vs and _encodable(new):
            vs.append(new)
    vs = [v for v in vs if _encodable(v)]
    if len(vs) < 2:
        vs = ['first = 1\nsecond = first\n', '# moved\n\nfirst = 1\nthird = 3\nsecond = first + third\n']
    return fam, vs


def gen_file_history(rng, nversions):
    ops = [{'op': 'write', 'version': 0, 'mtime': 'new'}]
    exists = True
    analyses = 0
    for _ in range(rng.randint(4, 9)):
        r = rng.random()
        if r < 0.30:
            ops.append({'op': 'buffer', 'version': rng.randrange(nversions)})
            analyses += 1
        elif r < 0.62:
            ops.append({'op': 'disk'})
            analyses += 1
        elif r < 0.90 or not exists:
            ops.append({'op': 'write', 'version': rng.randrange(nversions), 'mtime': rng.choice(MODES)})
            exists = True
        elif r < 0.96:
            ops.append({'op': 'restart'})
        else:
            ops.append({'op': 'remove'})
            exists = False
    if exists and ops[-1]['op'] != 'disk':
        ops.append({'op': 'disk'})
    return ops


def label(op):
    o = op['op']
    if o == 'write':
        return 'write(v%d,mtime=%s)' % (op['version'], op['mtime'])
    if o == 'buffer':
        return 'Script(v%d,path=p)' % op['version']
    if o == 'disk':
        return 'Script(path=p)'
    return o + '()'


# ------------------------------------------------------------------ the direct oracle

def forget_in_memory(path=None):
    """what a new process starts with: parso's in-memory parser cache has no entry (for `path`)"""
    from parso import cache as pcache
    for d in pcache.parser_cache.values():
        if path is None:
            d.clear()
        else:
            for k in [k for k in d if k is not None and str(k) == str(path)]:
                del d[k]


def judge_script(script, path, text, rng):
    """the property on one Script that analyses `text`; -> (failure | None, judged objects, oracle used)"""
    from props.c17 import check_result_object
    from props import c17_hist
    rec = c17_hist.Rec()
    stats = {}
    lab = 'get_names(a=T,d=T,r=T)'
    names = script.get_names(all_scopes=True, definitions=True, references=True)
    oracle = c17_hist.name_oracle(text)
    if oracle is not None:
        v = c17_hist.judge_names(oracle, (True, True, True), names)
        if v is not None:
            return {'what': v[0], 'expected': v[1], 'observed': v[2], 'method': lab}, rec.judged, True
    for n in names[:c17_hist.MAX_OBJECTS]:
        check_result_object(rec, path, text, lab, n, stats)
        if rec.fails:
            return dict(rec.fails[0]), rec.judged, oracle is not None
    words = H.ident_positions(text)
    for (line, col, w) in rng.sample(words, min(len(words), 2)):
        for q in ('goto', 'get_references'):
            op = {'op': q, 'line': line, 'column': col + len(w) // 2}
            try:
                res = c17_hist.execute(script, op, [])
            except Exception:
                continue                      # totality is C01's statement
            for obj in list(res or [])[:8]:
                check_result_object(rec, path, text, H.label(op), obj, stats)
                if rec.fails:
                    return dict(rec.fails[0]), rec.judged, oracle is not None
    return None, rec.judged, oracle is not None


class Sandbox:
    """a fresh directory with one module file and its own parso cache directory"""

    def __init__(self, tag):
        import jedi
        self.dir = tempfile.mkdtemp(prefix='verif-c17f-', dir='/var/tmp')
        self.path = os.path.join(self.dir, 'mod_%s.py' % tag)
        self.cache = os.path.join(self.dir, 'parso-cache')
        os.makedirs(self.cache)
        self.saved = jedi.settings.cache_directory
        jedi.settings.cache_directory = self.cache
        self.mtime = T0

    def write(self, text, mode):
        had = os.path.exists(self.path)
        with open(self.path, 'wb') as f:
            f.write(text.encode('utf-8'))
        if mode == 'now':
            self.mtime = int(os.path.getmtime(self.path)) + 1
            return
        if mode == 'new' or not had:
            self.mtime += 10
        elif mode == 'old':
            self.mtime -= 5
        os.utime(self.path, (self.mtime, self.mtime))

    def close(self):
        import jedi
        jedi.settings.cache_directory = self.saved
        forget_in_memory(self.path)
        shutil.rmtree(self.dir, ignore_errors=True)


def run_file_history(versions, ops, tag='x', seed='0', verbose=None):
    """-> {'steps': [...], 'fail': None | {'step', 'what', 'expected', 'observed', 'method'}, 'judged', 'raised'}"""
    import jedi
    from props.c01 import exc_key
    out = {'steps': [], 'fail': None, 'judged': 0, 'raised': {}, 'analyses': 0, 'with_oracle': 0}
    box = Sandbox(tag)
    try:
        for i, op in enumerate(ops):
            o = op['op']
            rng = random.Random('%s/%d' % (seed, i))
            note = ''
            if o == 'write':
                box.write(versions[op['version']], op['mtime'])
            elif o == 'remove':
                if os.path.exists(box.path):
                    os.remove(box.path)
            elif o == 'restart':
                forget_in_memory()
            else:
                if o == 'disk':
                    try:
                        with open(box.path, 'rb') as f:
                            text = f.read().decode('utf-8')       # the text that is on disk at this moment
                    except OSError:
                        text = None
                else:
                    text = versions[op['version']]
                try:
                    script = jedi.Script(path=box.path) if o == 'disk' else jedi.Script(text, path=box.path)
                except Exception as e:
                    k = '%s@%s' % exc_key(e)
                    if not (text is None and isinstance(e, OSError)):      # no file: nothing to analyse
                        out['raised'][k] = out['raised'].get(k, 0) + 1
                    note = 'raised ' + k
                    script = None
                if script is not None and text is not None:
                    try:
                        f, judged, used = judge_script(script, box.path, text, rng)
                    except Exception as e:
                        k = '%s@%s' % exc_key(e)
                        out['raised'][k] = out['raised'].get(k, 0) + 1    # totality is C01's statement
                        f, judged, used = None, 0, False
                        note = 'raised ' + k
                    out['judged'] += judged
                    out['analyses'] += 1
                    out['with_oracle'] += bool(used)
                    if f is not None:
                        out['fail'] = dict(f, step=i)
                        note = '<-- %s: %s' % (f['what'], common.short(f['observed'], 400))
                    else:
                        note = note or 'faithful (%d objects judged)' % judged
            out['steps'].append(label(op))
            if verbose:
                verbose('%2d %-28s %s' % (i, label(op), note))
            if out['fail'] is not None:
                break
    finally:
        box.close()
    return out


def shrink(versions, ops, what, tag, seed, budget=30):
    cur = list(ops)
    i = len(cur) - 2
    while i >= 0 and budget > 0:
        cand = cur[:i] + cur[i + 1:]
        budget -= 1
        r = run_file_history(versions, cand, tag, seed)
        if r['fail'] is not None and r['fail']['what'] == what and r['fail']['step'] == len(cand) - 1:
            cur = cand
        i -= 1
    return cur


def file_history_item(seed):
    """worker of common.parallel_map: one module with 2-4 versions, one history of its file"""
    rng = random.Random(seed)
    fam, versions = gen_versions(rng)
    ops = gen_file_history(rng, len(versions))
    tag = re.sub(r'\W', '_', seed)
    r = run_file_history(versions, ops, tag, seed)
    rec = {'kind': 'file', 'seed': seed, 'family': fam, 'versions': versions, 'labels': r['steps'], 'judged': r['judged'],
           'analyses': r['analyses'], 'with_oracle': r['with_oracle'], 'raised': r['raised'], 'fails': []}
    f = r['fail']
    if f is not None:
        upto = ops[:f['step'] + 1]
        small = shrink(versions, upto, f['what'], tag, seed)
        again = run_file_history(versions, small, tag, seed)['fail']
        if again is not None and again['what'] == f['what'] and again['step'] == len(small) - 1:
            f, upto = again, small
        rec['fails'].append(dict(f, history=upto))
    return rec


def item(seed):
    """dispatcher for the one pool of workers: query histories on one Script / histories of one file"""
    if '-file-' in seed:
        return file_history_item(seed)
    from props import c17_hist
    return c17_hist.history_item(seed)


HOW = ('in a fresh directory: run the steps of `file_history` in order on ONE path p (write = versions[i] with the '
       'given modification time, Script(path=p) / Script(versions[i], path=p) = a new jedi.Script); the last step is '
       'the analysis whose answer is not faithful to the text it analyses (./check C17 --replay <this file>)')


def judge_record(ctx, rec):
    labels = rec['labels']
    for i, lab in enumerate(labels):
        if lab.startswith('Script('):
            before = [l.split('(')[0] + ('(path' if 'path=p' in l and l.startswith('Script(path') else '')
                      for l in labels[:i]]
            kind = 'disk' if lab == 'Script(path=p)' else 'buffer'
            hist = ('after-buffer' if any(l.startswith('Script(v') for l in labels[:i]) else '') + \
                   ('/after-disk' if 'Script(path=p)' in labels[:i] else '') + \
                   ('/rewritten-not-newer' if any(('mtime=same' in l or 'mtime=old' in l) for l in labels[1:i]) else '')
            ctx.count('files', (rec['seed'], i), nontrivial=bool(before), bucket='%s:%s' % (kind, hist or 'first'),
                      sample={'versions': rec['versions'], 'file_history': labels} if i == len(labels) - 1 else None)
    for k, n in rec['raised'].items():
        for _ in range(n):
            ctx.count('raised', None, nontrivial=False, bucket=k)
    for f in rec['fails']:
        hist = f['history']
        case = {'versions': rec['versions'], 'file_history': hist, 'calls': [label(o) for o in hist],
                'family': rec['family'], 'seed': rec['seed'], 'shape': hist[-1]['op']}
        ctx.fail('files', f['what'], case, expected=f['expected'], observed=f['observed'], how=HOW)


def corpus_cases(ctx):
    """corpus/C17/*.json with a `file_history`: run first, in process; every analysis of the history is judged
    (a failure does not end it: the history is re-run from the start up to each later analysis)"""
    import json
    cdir = os.path.join(common.CORPUS_DIR, 'C17')
    if not os.path.isdir(cdir):
        return
    for fn in sorted(os.listdir(cdir)):
        with open(os.path.join(cdir, fn), encoding='utf-8') as fh:
            d = json.load(fh)
        if 'file_history' not in d:
            continue
        tag = 'corpus_' + re.sub(r'\W', '_', fn)
        r = run_file_history(d['versions'], d['file_history'], tag, fn)
        rec = {'kind': 'file', 'seed': fn, 'family': 'corpus', 'versions': d['versions'], 'labels': r['steps'],
               'raised': r['raised'], 'fails': []}
        if r['fail'] is not None:
            rec['fails'].append(dict(r['fail'], history=d['file_history'][:r['fail']['step'] + 1]))
        judge_record(ctx, rec)


def replay(ctx, inp, payload):
    vs = inp['versions']
    for k, v in enumerate(vs):
        print('version %d:' % k)
        for i, l in enumerate(v.splitlines(), 1):
            print('  %2d| %s' % (i, l))
    print('steps on ONE path p in a fresh directory:')
    r = run_file_history(vs, inp['file_history'], 'replay', inp.get('seed', '0'), verbose=print)
    print('recorded: %s | expected %s | observed %s' % (payload.get('what'), common.short(payload.get('expected'), 300),
                                                       common.short(payload.get('observed'), 600)))
    if r['fail'] is not None:
        print('REPRODUCED at step %d: %s' % (r['fail']['step'], r['fail']['what']))
        return 1
    print('not reproduced on this checkout (%s)' % common.REPO)
    return 0


# ------------------------------------------------------------------ correspondence: Model.ScriptParse

PAST, NOW, FUTURE = 0, 1000, 2000          # ranks: explicit old mtimes < the wall clock of step i < explicit future mtimes
TINY = ['a = 1\n', 'def f(x):\n    return x\n', '# c\nb = 2\nc = b\n', 'class K:\n    y = 3\n', 'import os\nz = os\n',
        'a = 1\nb = a\n', '\n\nq = 0\n', 'def g():\n    pass\ng()\n']


def gen_parse_history(rng):
    n = rng.randint(2, 4)
    ops = []
    exists = False
    for _ in range(rng.randint(3, 9)):
        r = rng.random()
        if r < 0.3 or (not ops):
            band = FUTURE if rng.random() < 0.25 else PAST
            ops.append({'op': 'write', 'version': rng.randrange(n), 'mtime': band + rng.randint(1, 6)})
            exists = True
        elif r < 0.36:
            ops.append({'op': 'remove'})
            exists = False
        elif r < 0.44:
            ops.append({'op': 'restart'})
        elif r < 0.72:
            ops.append({'op': 'script', 'code': rng.randrange(n) if rng.random() < 0.45 else None})
        else:
            ops.append({'op': 'parse', 'cache': rng.random() < 0.6, 'diff': rng.random() < 0.6,
                        'code': rng.randrange(n) if rng.random() < 0.5 else None})
    ops.append({'op': 'script', 'code': None if exists else 0})
    return n, ops


def stream_scriptparse(ctx, reqs):
    """the real Script.__init__ / grammar.parse on histories with explicit time stamps; the model gets the same
    history with texts as version numbers and times as ranks"""
    import jedi
    rng = ctx.subrng('scriptparse')
    cases = []
    wall = time.time()
    texts_ = list(TINY)
    grammar = jedi.Script('').\
        _inference_state.grammar
    for k in range(ctx.size(60, 1500)):
        n, ops = gen_parse_history(rng)
        vs = rng.sample(texts_, n)
        box = Sandbox('sp%d' % k)
        impl, mops = [], []
        try:
            for i, op in enumerate(ops):
                o = op['op']
                now = NOW + i
                if o == 'write':
                    with open(box.path, 'wb') as f:
                        f.write(vs[op['version']].encode('utf-8'))
                    m = op['mtime']
                    real = wall - 10 ** 6 + m if m < NOW else wall + 10 ** 6 + (m - FUTURE)
                    os.utime(box.path, (real, real))
                    mops.append({'op': 'write', 'content': op['version'], 'mtime': m})
                    impl.append(None)
                elif o == 'remove':
                    if os.path.exists(box.path):
                        os.remove(box.path)
                    mops.append({'op': 'remove'})
                    impl.append(None)
                elif o == 'restart':
                    forget_in_memory(box.path)
                    mops.append({'op': 'restart'})
                    impl.append(None)
                else:
                    code = None if op['code'] is None else vs[op['code']]
                    try:
                        if o == 'script':
                            s = jedi.Script(code, path=box.path)
                            tree, kept = s._module_node.get_code(), s._code
                        else:
                            if code is None:
                                with open(box.path, 'rb') as f:
                                    kept = f.read().decode('utf-8')
                                tree = grammar.parse(path=box.path, cache=op['cache'], diff_cache=op['diff'],
                                                     cache_path=box.cache).get_code()
                            else:
                                kept = code
                                tree = grammar.parse(code=code, path=box.path, cache=op['cache'],
                                                     diff_cache=op['diff'], cache_path=box.cache).get_code()
                        impl.append([vs.index(tree) if tree in vs else -1, vs.index(kept) if kept in vs else -1])
                    except FileNotFoundError:
                        impl.append('no-file')
                    m = dict(op, now=now)
                    mops.append(m)
        finally:
            box.close()
        reqs.append({'op': 'scripthist', 'ops': mops})
        cases.append((('scriptparse', k, tuple(vs), tuple(label_parse(o) for o in ops)), impl))
    return cases


def label_parse(op):
    o = op['op']
    if o == 'write':
        return 'write(v%d,mtime=%d)' % (op['version'], op['mtime'])
    if o == 'script':
        return 'Script(%s,path=p)' % ('v%d' % op['code'] if op['code'] is not None else '')
    if o == 'parse':
        return 'parse(%s,cache=%s,diff_cache=%s)' % ('v%d' % op['code'] if op['code'] is not None else '',
                                                     op['cache'], op['diff'])
    return o + '()'


def compare_scriptparse(ctx, key, impl, ans):
    _, k, vs, labels = key
    model = [None if a is None else ('no-file' if a == 'no-file' else list(a)) for a in ans]
    stale = any(isinstance(x, list) and x[0] != x[1] for x in impl)
    ctx.count('scriptparse', key, nontrivial=sum(1 for x in impl if isinstance(x, list)) > 1,
              bucket='stale-tree-served' if stale else 'len=%d' % len(labels),
              sample={'versions': list(vs), 'history': list(labels), 'answers': impl})
    if model == impl:
        return
    ctx.tie_broken('correspondence:scriptparse', common.short({'versions': vs, 'history': labels, 'impl': impl,
                                                               'model': model}, 900))
    # failing-input search: does a Script of this history work on a tree that is not the tree of its text?
    for i, (lab, x) in enumerate(zip(labels, impl)):
        if lab.startswith('Script(') and isinstance(x, list) and x[0] != x[1]:
            ctx.fail('scriptparse', 'the tree of a Script is not the tree of the text it analyses',
                     {'versions': list(vs), 'parse_history': list(labels[:i + 1]), 'shape': 'script'},
                     expected='_module_node.get_code() == _code', observed={'tree_is_version': x[0], 'code_is_version': x[1]},
                     how='the steps of parse_history on one path (explicit mtimes: < 1000 far in the past, > 2000 in the '
                         'future); compare script._module_node.get_code() with script._code')
            break

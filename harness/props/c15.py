"""C15 - inference gives up instead of recursing or exploding.

Streams
  detector   recursion.ExecutionRecursionDetector driven with push/pop traces (exhaustive short
             traces under small limits, random long traces under the source limits) vs
             Model.Recursion.runTrace, decision by decision; the budget property itself is
             recomputed on the real decisions (direct oracle)
  decorator  execution_recursion_decorator around synthetic, arbitrarily recursive "functions"
             over random call graphs vs Model.Recursion.exec (bodies entered, final counters)
  memo       cache._memoize_default around synthetic recursive functions over random graphs
             (cycles, several roots on one memo, with and without default) vs Model.Recursion.eval
  gencache   cache.inference_state_method_generator_cache on the same graphs (oracle only:
             terminates, each generator body created at most once per key, replay equal)
  guard      recursion.execution_allowed alone on small graphs vs Model.Recursion.evalGuard
  limit      syntax_tree._limit_value_infers around a counting function vs Model.Recursion.limitRun
  e2e        generated self-referential programs and scaling families through the public API under
             a watchdog, counting entries of the wrapped _infer_node body per context:
             no RecursionError, no hang, per-context entries <= cap (theorem node_cap), growth of
             the families polynomial (doubling ratio) and under the model bound
  mro        ClassValue.py__mro__ of the last class of random acyclic class hierarchies (several,
             repeated and shared bases) vs Model.Mro.mroWith: the listing, and the number of
             elements drawn from all py__mro__ iterators vs the model's loop iterations
  star       ModuleValue.star_imports() on generated star-import graphs (rings, self imports, two
             rings, random, DAGs; several roots on one inference state) vs Model.StarImports.starEval:
             listing and wrapper calls per root.  Oracle (inside e2e): generated projects whose modules
             star-import / import each other in cycles of length 1..k, accepted by the real interpreter in
             a fresh process; infer/goto/complete/get_references at uses of foreign names in EVERY module;
             star-import families (chain, nested diamonds, ring): elements handed out by star_imports
             and function calls (sys.setprofile) grow at most cubically
  scaling    (besides the families of e2e) inheritance families - chains, nested diamonds, mixin
             ladders, lattices, trees, shared mixins; complete after `x.m_`, infer / goto of an attribute
             of the root class - each family in a child process (gen/c15_inherit_child.py) that
             counts elements drawn from ClassMixin.py__mro__ iterators, _infer_node entries, function
             calls (sys.setprofile) and CPU time: work(2n) <= 8 work(n) + slack for each measure, cut
             off at that bound; a CPU cut-off must repeat on 3 attempts (the counters are exact)
"""
import itertools
import json
import os
import shutil
import signal
import subprocess
import sys
import tempfile
import time

import common
from common import short
from gen import c15_programs as P
from gen import c15_inherit_child as IC

MODELS = ['Recursion', 'Mro', 'StarImports']
MANIFEST = dict(
    text='Theorems over a transcription of ExecutionRecursionDetector.push/pop, '
         'execution_recursion_decorator, execution_allowed, _memoize_default and _limit_value_infers: '
         'along any push/pop trace at most total_limit non-builtin executions are admitted, at most '
         'per_function_limit per function, admitted depth <= recursion_limit, nesting <= per-function '
         'recursion limit (exec_budget, for arbitrary limits); the decorator run over ANY call graph '
         '(infinite/mutual recursion) needs <= recursion_limit nested calls, restores the stack and enters '
         '<= total_limit bodies (decorator_terminates); memoisation with a stored default terminates on '
         'every finite graph with each body entered at most once, calls <= 1+|E| '
         '(memo_eval_terminates_linear; without default it diverges on a self loop - kernel-checked); the '
         'on-stack guard alone bounds depth by |V| but not work (2^n witness); _limit_value_infers enters a '
         'context at most 300 times per Script (node_cap); the listing ClassMixin.py__mro__ over ANY '
         'inheritance relation on n classes contains no class twice, so its length is <= n (mro_linear), '
         'one body does <= |bases| n loop iterations and all bodies together <= |E| n (mro_work_poly), '
         'acyclic hierarchies never exhaust the stack (mro_terminates); recording the direct base instead '
         'of the yielded class lists 2^(k+2)-3 entries on k nested diamonds (kernel-checked witness); '
         'ModuleMixin.star_imports over ANY star-import relation on n modules (cycles of any length) returns '
         'with nesting <= n, <= n bodies and <= 1+|E| calls as long as the memoiser stores a default '
         '(star_imports_terminates, source instance star_imports_terminates_src over the decorator argument '
         'and recursion test read from module.py); without the default a 2-module cycle diverges '
         '(star_imports_no_default_diverges); the listing is not de-duplicated: 2^(k+2)-4 entries on k nested '
         'star-import diamonds (star_imports_exponential_witness). '
         'Tie: translator (limits, cap, statement sequences of push/pop/decorator/memoize/py__mro__; the '
         'appended, tested and yielded element of py__mro__ are the same variable) + decision-by-decision '
         'correspondence on the real objects + end-to-end runs of generated cyclic programs and scaling '
         'families (definition chains/diamonds/trees in-process, inheritance families in child processes '
         'counting MRO entries, _infer_node entries, function calls and CPU time) under a watchdog; stream star: '
         'real ModuleValue.star_imports vs Model.StarImports on generated star-import graphs, and generated '
         'multi-module star-import cycle projects (accepted by the real interpreter) queried in every module.',
    note='Modelled not verified: that every inference path of jedi is built only from these combinators '
         '(sampled by streams e2e and scaling); the lazily interleaved generator cache (oracle only), hence '
         'cyclic inheritance in py__mro__; builtins/typing exemptions are flags of the pushed execution.',
    technique='Lean 4 proof over hand-written model + translator-generated constants + differential correspondence',
    design='5.C15')
LEAN_TARGETS = ['JediModel.Props.C15', 'JediModel.Drivers.C15']


# ----------------------------------------------------------------- fakes for the detector

class FakeRoot:
    def __init__(self, builtin, typing):
        self._b, self._t = builtin, typing

    def is_builtins_module(self):
        return self._b

    def py__name__(self):
        return 'typing' if self._t else 'mod'


class FakeFuncdef:
    def __init__(self, i):
        self.i = i

    def __repr__(self):
        return '<funcdef %d>' % self.i


class FakeState:
    """stands for an InferenceState as far as recursion.py / cache.py use it"""
    def __init__(self):
        from jedi.inference import recursion
        self.memoize_cache = {}
        self.recursion_detector = recursion.RecursionDetector()
        self.execution_recursion_detector = recursion.ExecutionRecursionDetector(self)
        self.inferred_element_counts = {}
        self.builtins_module = object()


class FakeExecution:
    def __init__(self, state, funcdef, builtin, typing):
        self.inference_state = state
        self.tree_node = funcdef
        self._root = FakeRoot(builtin, typing)

    def get_root_context(self):
        return self._root


class Limits:
    """temporarily replaces the four module-level settings of recursion.py"""
    NAMES = ['recursion_limit', 'total_function_execution_limit', 'per_function_execution_limit',
             'per_function_recursion_limit']

    def __init__(self, values=None):
        self.values = values

    def __enter__(self):
        from jedi.inference import recursion
        self.mod = recursion
        self.old = [getattr(recursion, n) for n in self.NAMES]
        if self.values is not None:
            for n, v in zip(self.NAMES, self.values):
                setattr(recursion, n, v)
        return self

    def __exit__(self, *a):
        for n, v in zip(self.NAMES, self.old):
            setattr(self.mod, n, v)

    @staticmethod
    def current():
        from jedi.inference import recursion
        return [getattr(recursion, n) for n in Limits.NAMES]


def limits_json(vals):
    return {'rec': vals[0], 'total': vals[1], 'perfn': vals[2], 'perfnrec': vals[3]}


# ----------------------------------------------------------------- stream: detector

def run_trace_impl(ops):
    """ops: list of (fn, builtin, typing) | 'pop'. Returns the model-shaped observation."""
    st = FakeState()
    det = st.execution_recursion_detector
    fds = {}
    ev = []
    for op in ops:
        if op == 'pop':
            try:
                det.pop_execution()
                ev.append('pop')
            except IndexError:
                ev.append('IndexError')
        else:
            f, b, t = op
            fd = fds.setdefault(f, FakeFuncdef(f))
            lim = det.push_execution(FakeExecution(st, fd, b, t))
            ev.append([bool(lim), det._recursion_level, det._parent_execution_funcs.count(fd)])
    fns = sorted(fds)
    return {'ev': ev, 'level': det._recursion_level,
            'parents': [fd.i for fd in det._parent_execution_funcs],
            'execCount': det._execution_count,
            'counts': [det._funcdef_execution_counts.get(fds[f], 0) for f in fns]}, fns


def budget_oracle(ctx, ops, obs, lim, how):
    """the property itself on the real decisions: admitted non-exempt executions stay in budget"""
    rec, total, perfn, perfnrec = lim
    admitted = 0
    per = {}
    case = {'limits': lim, 'ops': ops}
    bad = []
    for op, e in zip(ops, obs['ev']):
        if op == 'pop':
            continue
        f, b, t = op
        limit_reached, level, nested = e
        if limit_reached or b:
            continue
        admitted += 1
        if level > rec:
            bad.append('non-builtin execution admitted at depth %d > recursion_limit %d' % (level, rec))
        if not t:
            per[f] = per.get(f, 0) + 1
            if nested > perfnrec:
                bad.append('function admitted with %d nested occurrences > per_function_recursion_limit %d'
                           % (nested, perfnrec))
    if admitted > total:
        bad.append('%d non-builtin executions admitted > total_function_execution_limit %d' % (admitted, total))
    for f, k in per.items():
        if k > perfn:
            bad.append('function %d admitted %d times > per_function_execution_limit %d' % (f, k, perfn))
    for b_ in bad[:1]:
        ctx.fail('detector', b_, case, expected='within budget', observed=obs['ev'], how=how)
    return not bad


def stream_detector(ctx, reqs):
    rng = ctx.subrng('detector')
    cases = []
    how = 'harness/props/c15.py:run_trace_impl(ops) under Limits(limits)'
    # exhaustive short traces under small limits
    small = [(2, 3, 2, 1), (1, 2, 1, 1), (3, 4, 2, 2)]
    alphabet = [(0, False, False), (1, False, False), (2, True, False), (1, False, True), 'pop']
    maxlen = ctx.size(5, 7)
    all_traces = [list(t) for n in range(1, maxlen + 1) for t in itertools.product(alphabet, repeat=n)]
    if ctx.quick:
        all_traces = [t for t in all_traces if len(t) <= 4] + rng.sample(
            [t for t in all_traces if len(t) > 4], 1500)
    for lim in small:
        with Limits(lim):
            for ops in all_traces:
                obs, fns = run_trace_impl(ops)
                budget_oracle(ctx, ops, obs, list(lim), how)
                cases.append((('detector', list(lim), ops), obs))
                reqs.append({'op': 'trace', 'limits': limits_json(lim), 'fns': fns,
                             'ops': [o if o == 'pop' else list(o) for o in ops]})
    # random / adversarial long traces under the limits found in the source
    src_lim = Limits.current()
    for i in range(ctx.size(120, 2000)):
        style = rng.choice(['deep', 'wide', 'mixed', 'bracketed', 'typing'])
        ops = []
        depth = 0
        nf = rng.choice([1, 2, 3, 8, 40, 300])
        for _ in range(rng.randint(1, rng.choice([30, 120, 700]))):
            if style == 'deep':
                p_push = 0.9
            elif style == 'wide':
                p_push = 0.5
            else:
                p_push = 0.6
            if rng.random() < p_push or (style == 'bracketed' and depth == 0):
                f = rng.randrange(nf)
                b = rng.random() < (0.15 if style != 'typing' else 0.05)
                t = rng.random() < (0.5 if style == 'typing' else 0.05)
                ops.append((f, b, t))
                depth += 1
            else:
                ops.append('pop')
                depth = max(0, depth - 1)
        obs, fns = run_trace_impl(ops)
        budget_oracle(ctx, ops, obs, src_lim, how)
        cases.append((('detector', src_lim, ops), obs))
        reqs.append({'op': 'trace', 'fns': fns, 'ops': [o if o == 'pop' else list(o) for o in ops]})
    return cases


# ----------------------------------------------------------------- stream: decorator

def run_decorator_impl(body, builtin, typing, root):
    from jedi.inference import recursion
    st = FakeState()
    fds = [FakeFuncdef(i) for i in range(len(body))]
    entered = [0]

    class Ex(FakeExecution):
        @recursion.execution_recursion_decorator(default='DEFAULT')
        def run(self):
            entered[0] += 1
            i = self.tree_node.i
            for c in body[i]:
                Ex(st, fds[c], builtin[c], typing[c]).run()
            return 'DONE'
    try:
        Ex(st, fds[root], builtin[root], typing[root]).run()
    except RecursionError:
        return {'error': 'fuel'}
    det = st.execution_recursion_detector
    return {'ok': entered[0], 'level': det._recursion_level, 'execCount': det._execution_count}


def stream_decorator(ctx, reqs):
    rng = ctx.subrng('decorator')
    cases = []
    small = [None, (3, 12, 3, 1), (4, 30, 2, 2), (6, 9, 6, 2)]
    for i in range(ctx.size(150, 3000)):
        lim = rng.choice(small)
        n = rng.randint(1, 7)
        fan = rng.choice([1, 2, 2, 3])
        body = [[rng.randrange(n) for _ in range(rng.randint(0, fan))] for _ in range(n)]
        builtin = [False] * n
        typing = [rng.random() < 0.15 for _ in range(n)]
        if lim is None and rng.random() < 0.7:
            # keep the real-limit runs cheap: fan-out 1-2
            body = [b[:2] for b in body]
        root = rng.randrange(n)
        with Limits(lim):
            cur = Limits.current()
            t0 = time.time()
            obs = run_decorator_impl(body, builtin, typing, root)
            dt = time.time() - t0
        case = {'limits': cur, 'body': body, 'typing': typing, 'root': root}
        # direct oracle: no RecursionError, bodies <= total limit, stack restored
        if 'error' in obs:
            ctx.fail('decorator', 'RecursionError under execution_recursion_decorator', case, observed=obs)
        elif obs['ok'] > cur[1] or obs['level'] != 0:
            ctx.fail('decorator', 'more bodies entered than total_function_execution_limit, or stack not restored',
                     case, expected={'bodies<=': cur[1], 'level': 0}, observed=obs)
        cases.append((('decorator', case), obs))
        reqs.append({'op': 'exec', 'limits': limits_json(cur), 'body': body, 'builtin': builtin,
                     'typing': typing, 'fuel': cur[0] + 1, 'root': root})
    return cases


# ----------------------------------------------------------------- graphs for memo / guard

def random_graph(rng, nmax):
    n = rng.randint(1, nmax)
    style = rng.choice(['sparse', 'dense', 'dag', 'ring', 'selfloops'])
    deps = []
    for v in range(n):
        if style == 'dag':
            cand = list(range(v))
            k = rng.randint(0, min(3, len(cand)))
            deps.append([rng.choice(cand) for _ in range(k)] if cand else [])
        elif style == 'ring':
            d = [(v + 1) % n]
            if rng.random() < 0.3:
                d.append(rng.randrange(n))
            deps.append(d)
        elif style == 'selfloops':
            deps.append([v] + [rng.randrange(n) for _ in range(rng.randint(0, 2))])
        else:
            k = rng.randint(0, 2 if style == 'sparse' else 5)
            deps.append([rng.randrange(n) for _ in range(k)])
    return n, deps, style


def set_combine(v, vals):
    s = {v}
    for x in vals:
        s |= set(x)
    return sorted(s)


def seq_combine(v, vals):
    out = [v]
    for x in vals:
        out += list(x)
    return out[:8]


def run_memo_impl(deps, default, combine, roots):
    from jedi.inference import cache
    st = FakeState()
    holder = type('Holder', (), {})()
    holder.inference_state = st
    comb = set_combine if combine == 'set' else seq_combine
    counters = {'bodies': 0, 'calls': 0}
    kw = {} if default is None else {'default': tuple(default)}

    @cache._memoize_default(**kw)
    def f(obj, v):
        counters['bodies'] += 1
        return tuple(comb(v, [call(c) for c in deps[v]]))

    def call(v):
        counters['calls'] += 1
        return f(holder, v)
    out = []
    for r in roots:
        counters['bodies'] = counters['calls'] = 0
        try:
            res = call(r)
        except RecursionError:
            out.append({'error': 'fuel'})
            break
        out.append({'r': list(res), 'bodies': counters['bodies'], 'calls': counters['calls']})
    return out


def stream_memo(ctx, reqs):
    rng = ctx.subrng('memo')
    cases = []
    for i in range(ctx.size(500, 8000)):
        n, deps, style = random_graph(rng, 40 if rng.random() < 0.5 else 8)
        combine = rng.choice(['set', 'seq'])
        roots = [rng.randrange(n) for _ in range(rng.randint(1, 5))]
        if rng.random() < (0.15 if style == 'dag' else 0.03):
            default = None      # _NO_DEFAULT: diverges (RecursionError) iff a cycle is reachable
        else:
            default = [] if rng.random() < 0.7 else [99]
        obs = run_memo_impl(deps, default, combine, roots)
        case = {'deps': deps, 'default': default, 'combine': combine, 'roots': roots}
        # direct oracle (with a default): terminates, each body at most once over the whole sequence
        if default is not None:
            if any('error' in o for o in obs):
                ctx.fail('memo', 'RecursionError in _memoize_default with a default', case, observed=obs)
            else:
                edges = sum(len(d) for d in deps)
                if sum(o['bodies'] for o in obs) > n or any(o['calls'] > 1 + edges for o in obs):
                    ctx.fail('memo', 'a memoised body ran more than once per key (work not linear)', case,
                             expected={'bodies<=': n, 'calls<=': 1 + edges}, observed=obs)
        cases.append((('memo', case, style), obs))
        req = {'op': 'memo', 'deps': deps, 'combine': combine, 'roots': roots,
               'fuel': n + 1 if default is not None else 400}
        if default is not None:
            req['default'] = default
        reqs.append(req)
    return cases


def stream_gencache(ctx):
    """inference_state_method_generator_cache: oracle only (see module docstring)"""
    from jedi.inference import cache
    rng = ctx.subrng('gencache')
    for i in range(ctx.size(200, 3000)):
        n, deps, style = random_graph(rng, 30)
        st = FakeState()
        created = {}

        class Node:
            def __init__(self, v):
                self.v = v
                self.inference_state = st

            def __hash__(self):
                return hash(self.v)

            def __eq__(self, o):
                return self.v == o.v

            @cache.inference_state_method_generator_cache()
            def items(self):
                # the shape of the one real user, ClassValue.py__mro__: yield self, then the
                # elements of the children's (memoised) generators that were not seen yet
                created[self.v] = created.get(self.v, 0) + 1
                seen = [self.v]
                yield self.v
                for c in deps[self.v]:
                    for x in Node(c).items():
                        if x not in seen:
                            seen.append(x)
                            yield x
        roots = [rng.randrange(n) for _ in range(rng.randint(1, 4))]
        case = {'deps': deps, 'roots': roots}
        outs = []
        try:
            for r in roots:
                it = Node(r).items()
                outs.append(list(itertools.islice(it, 100000)))
            again = [list(itertools.islice(Node(r).items(), 100000)) for r in roots]
        except RecursionError as e:
            ctx.fail('gencache', 'RecursionError in inference_state_method_generator_cache', case,
                     observed=repr(e))
            continue
        ctx.count('gencache', (tuple(map(tuple, deps)), tuple(roots)), nontrivial=style != 'dag',
                  bucket=style, sample={'deps': deps, 'roots': roots, 'lens': [len(o) for o in outs]})
        if any(len(o) >= 100000 for o in outs):
            ctx.fail('gencache', 'memoised generator does not terminate', case, observed=[len(o) for o in outs])
        if max(created.values() or [0]) > 1:
            ctx.fail('gencache', 'a memoised generator body was created more than once for one key', case,
                     expected=1, observed=created)
        if again != outs:
            ctx.fail('gencache', 'replaying a memoised generator gives different elements', case,
                     expected=outs, observed=again)


# ----------------------------------------------------------------- stream: guard

def run_guard_impl(deps, root):
    from jedi.inference import recursion
    st = FakeState()
    nodes = [FakeFuncdef(i) for i in range(len(deps))]
    bodies = [0]

    def ev(v):
        with recursion.execution_allowed(st, nodes[v]) as allowed:
            if allowed:
                bodies[0] += 1
                for c in deps[v]:
                    ev(c)
    try:
        ev(root)
    except RecursionError:
        return {'error': 'fuel'}
    if st.recursion_detector.pushed_nodes:
        return {'error': 'stack-not-restored'}
    return {'ok': bodies[0]}


def stream_guard(ctx, reqs):
    rng = ctx.subrng('guard')
    cases = []
    for i in range(ctx.size(300, 4000)):
        n, deps, style = random_graph(rng, 7)
        deps = [d[:3] for d in deps]
        root = rng.randrange(n)
        obs = run_guard_impl(deps, root)
        case = {'deps': deps, 'root': root}
        if 'error' in obs:
            ctx.fail('guard', 'execution_allowed did not stop a re-entrant evaluation', case, observed=obs)
        cases.append((('guard', case, style), obs))
        reqs.append({'op': 'guard', 'deps': deps, 'root': root, 'fuel': n})
    return cases


# ----------------------------------------------------------------- stream: limit

class FakeContext:
    def __init__(self, st, node, generous):
        self.inference_state = st
        self.tree_node = node
        self.parent_context = None if generous or node.i % 2 else object()
        self._generous = generous

    def get_value(self):
        return self.inference_state.builtins_module if self._generous else object()


def run_limit_impl(calls, cap_override=None):
    from jedi.inference import syntax_tree
    st = FakeState()
    nodes = {}
    marker = object()

    def body(context):
        return marker
    wrapped = syntax_tree._limit_value_infers(body)
    out = []
    for n, g in calls:
        node = nodes.setdefault(n, FakeFuncdef(n))
        out.append(wrapped(FakeContext(st, node, g)) is marker)
    return out


def stream_limit(ctx, reqs, cap, factor):
    rng = ctx.subrng('limit')
    cases = []
    for i in range(ctx.size(60, 600)):
        k = rng.randint(1, 4)
        style = rng.choice(['hammer', 'mixed', 'generous'])
        calls = []
        m = rng.choice([5, 50, cap + 5, 2 * cap + 10])
        for _ in range(m):
            n = 0 if style == 'hammer' and rng.random() < 0.9 else rng.randrange(k)
            g = (style == 'generous' and n == 0)
            calls.append((n, g))
        obs = run_limit_impl(calls)
        case = {'calls_len': len(calls), 'style': style, 'k': k, 'seed_index': i}
        # direct oracle: a non-builtin context is entered at most `cap` times
        for n in range(k):
            entered = sum(1 for (c, g), o in zip(calls, obs) if c == n and o and not g)
            if entered > max(1, cap) and not any(g for c, g in calls if c == n):
                ctx.fail('limit', '_limit_value_infers let a context be inferred more than the cap', case,
                         expected={'entered<=': cap}, observed={'node': n, 'entered': entered})
        cases.append((('limit', case, [list(c) for c in calls]), obs))
        reqs.append({'op': 'limit', 'cap': cap, 'factor': factor, 'calls': [list(c) for c in calls]})
    return cases


# ----------------------------------------------------------------- stream: mro (correspondence)

def random_hierarchy(rng):
    """acyclic class hierarchy K0..K{n-1}: bases[i] = explicit bases of K_i (earlier classes only;
    several, shared, now and then repeated)"""
    n = rng.randint(1, 12)
    style = rng.choice(['random', 'dense', 'chain', 'diamonds', 'lattice'])
    bases = []
    for i in range(n):
        if i == 0:
            bases.append([])
        elif style == 'chain':
            bases.append([i - 1] if rng.random() < 0.9 else [])
        elif style == 'diamonds':
            # i % 3 == 0: join of the two before; else child of the last join
            bases.append([i - 2, i - 1] if i % 3 == 0 else [i - 1 - (i - 1) % 3])
        elif style == 'lattice':
            lvl = (i - 1) // 2
            below = [0] if lvl == 0 else [2 * lvl - 1, 2 * lvl]
            bases.append([b for b in below if b < i])
        else:
            k = rng.randint(0, min(i, 2 if style == 'random' else 4))
            b = rng.sample(range(i), k)
            if b and rng.random() < 0.08:
                b.append(rng.choice(b))         # class X(A, A)
            bases.append(b)
    return n, bases, style


def hierarchy_source(n, bases):
    lines = []
    for i in range(n):
        lines.append("class K%d%s:\n    a%d = %d" % (i, "(%s)" % ", ".join("K%d" % b for b in bases[i])
                                                     if bases[i] else "", i, i))
    return "\n".join(lines) + "\n"


def run_mro_impl(counter, n, bases, root):
    """list(K_root.py__mro__()) on a fresh Script; classes as numbers, `object` = n"""
    import jedi
    src = hierarchy_source(n, bases) + "K%d" % root
    line, col = P.last_pos(src)
    names = jedi.Script(src).infer(line, col)
    if len(names) != 1 or names[0].type != 'class':
        return {'error': 'infer gave %r' % [d.description for d in names]}
    value = names[0]._name._value
    counter.reset()
    out = []
    for c in value.py__mro__():
        nm = c.py__name__()
        if nm == 'object':
            out.append(n)
        elif nm.startswith('K') and nm[1:].isdigit():
            out.append(int(nm[1:]))
        else:
            out.append(nm)
    return {'out': out, 'items': counter.items}


def mro_model_view(case, ans):
    """the model's answer in the shape of run_mro_impl: the listing, and the elements handed out by
    ClassMixin.py__mro__ iterators = the root's listing + for every class whose body ran (each once:
    generator cache) one element per inner-loop iteration over a base that is a ClassValue (the
    compiled `object` has a py__mro__ of its own, which the hook does not see)"""
    if not isinstance(ans, dict) or 'out' not in ans:
        return ans
    n, mb = case['n'], case['model_bases']
    items = len(ans['out'])
    for c in ans['out']:
        if c == n:
            continue
        b = ans['bodies'][c]
        if 'steps' not in b:
            return {'error': 'body %d: %r' % (c, b)}
        items += b['steps'] - mb[c].count(n)
    return {'out': ans['out'], 'items': items}


def stream_mro(ctx, reqs):
    rng = ctx.subrng('mro')
    cases = []
    try:
        counter = IC.MroCounter().__enter__()
    except LookupError as e:
        ctx.tie_broken('hook:ClassMixin.py__mro__', str(e))
        return cases
    try:
        fixed = [(7, [[], [0], [0], [1, 2], [3], [3], [4, 5]], 'diamonds'),
                 (4, [[], [0], [0], [1, 2]], 'diamonds'),
                 (5, [[], [], [0, 1], [0, 1], [2, 3]], 'lattice'),
                 (3, [[], [0], [1, 0]], 'random'), (3, [[], [0, 0], [1, 1]], 'random')]
        for i in range(len(fixed) + ctx.size(60, 1500)):
            n, bases, style = fixed[i] if i < len(fixed) else random_hierarchy(rng)
            root = n - 1 if i < len(fixed) or rng.random() < 0.7 else rng.randrange(n)
            model_bases = [b if b else [n] for b in bases] + [[]]
            case = {'n': n, 'bases': bases, 'root': root, 'model_bases': model_bases}
            try:
                obs = run_mro_impl(counter, n, bases, root)
            except RecursionError as e:
                ctx.fail('mro', 'py__mro__ of an acyclic hierarchy raises RecursionError', case,
                         observed={'dominant_frame': dominant_frame(e)})
                continue
            except Exception as e:
                cls, site = common.exc_site(e)
                ctx.count('raised', ('mro', i), nontrivial=False, bucket='%s@%s' % (cls, site))
                continue
            cases.append((('mro', case, style), obs))
            reqs.append({'op': 'mro', 'bases': model_bases, 'root': root, 'fuel': n + 2})
    finally:
        counter.__exit__()
    return cases


# ----------------------------------------------------------------- stream: scaling (inheritance)

INHERIT = dict(ratio=8, item_slack=64, call_slack=200000, cpu_slack=10.0, cpu_abs=30.0, cpu_attempts=3)
CHILD = os.path.join(os.path.dirname(os.path.abspath(IC.__file__)), 'c15_inherit_child.py')


def inherit_sizes(ctx):
    return [2, 3, 4, 6, 8, 12, 16] if ctx.quick else list(range(1, 33)) + [40, 48, 64]


def inherit_cfg(fam, sizes):
    return dict(INHERIT, repo=common.REPO, family=fam, sizes=sizes)


def start_inherit(ctx, families=None, sizes=None):
    """one child per family, all at once; they run while the in-process streams do"""
    procs = []
    for fam in families or sorted(P.INHERIT_FAMILIES):
        err = tempfile.TemporaryFile(mode='w+')
        p = subprocess.Popen([sys.executable, CHILD, json.dumps(inherit_cfg(fam, sizes or inherit_sizes(ctx)))],
                             stdout=subprocess.PIPE, stderr=err, text=True)
        procs.append((fam, p, err))
    return procs, time.time()


def read_child(p, err, deadline):
    killed = False
    try:
        out, _ = p.communicate(timeout=max(1.0, deadline - time.time()))
    except subprocess.TimeoutExpired:
        p.kill()
        killed = True
        out, _ = p.communicate()
    err.seek(0)
    etxt = err.read()
    err.close()
    rows = []
    for ln in out.splitlines():
        try:
            rows.append(json.loads(ln))
        except ValueError:
            pass
    return rows, killed, etxt


def judge_inherit(ctx, fam, rows, killed, etxt, waited, cap):
    R, I, CS = INHERIT['ratio'], INHERIT['item_slack'], INHERIT['call_slack']
    mk = P.INHERIT_FAMILIES[fam]
    how = ('python harness/gen/c15_inherit_child.py \'{"family": "%s", "sizes": [n/2, n], ...}\' '
           '(= ./check C15 --replay <this file>): jedi.Script(source).<query>(line, column) with '
           'ClassMixin.py__mro__ wrapped by gen.c15_inherit_child.MroCounter' % fam)

    def case_of(n, q):
        src, _, attr = mk(n)
        for q2, text, line, col in P.inherit_queries(src, attr):
            if q2 == q:
                return {'family': fam, 'n': n, 'query': q, 'source': text, 'line': line, 'column': col}
    done = {}
    started = None
    ended = False
    for r in rows:
        ev = r.get('ev')
        if ev == 'hook-missing':
            ctx.tie_broken('hook:ClassMixin.py__mro__', r.get('detail', ''))
            return
        if ev == 'start':
            started = r
        elif ev == 'done':
            done[(r['n'], r['q'])] = r
            started = None
        elif ev in ('end', 'stopped'):
            ended = True
    if killed:
        if started is None:
            raise common.InfraError('inheritance child %s killed by the watchdog outside a query: %s'
                                    % (fam, etxt[-1500:]))
        ctx.fail('scaling', 'query on an inheritance family did not return within %.0f s' % waited,
                 case_of(started['n'], started['q']), expected='returns',
                 observed={'outcome': 'hang', 'measured_before': {'%d/%s' % k: v['items'] for k, v in done.items()}},
                 how=how)
    elif not ended:
        raise common.InfraError('inheritance child %s died: %s' % (fam, etxt[-2000:]))
    work = {}
    for (n, q), r in sorted(done.items()):
        half = done.get((n // 2, q)) if n % 2 == 0 else None
        ok = r['outcome'] == 'ok'
        ctx.count('scaling', (fam, n, q), nontrivial=ok and r['results'] > 0, bucket=fam,
                  sample={'family': fam, 'n': n, 'query': q, 'classes': r['classes'], 'mro_items': r['items'],
                          'listings': r['listings'], 'longest_listing': r['maxlen'], 'entries': r['entries'],
                          'calls': r.get('calls'), 'cpu_seconds': r['cpu'], 'results': r['results']})
        work.setdefault(q, {})[n] = [r['items'], r['entries'], r.get('calls'), r['cpu']]
        case = case_of(n, q)
        if r['outcome'] == 'RecursionError':
            ctx.fail('scaling', 'query on an inheritance family raises RecursionError', case,
                     expected='no RecursionError', observed={'outcome': 'RecursionError', 'error': r['error']}, how=how)
        elif r['outcome'] == 'raised':
            ctx.count('raised', (fam, n, q), nontrivial=False, bucket=str(r['error']).split(':')[0])
        elif r['outcome'] == 'items-cap' or (ok and half and n >= 8 and half['outcome'] == 'ok'
                                             and r['items'] > R * half['items'] + I):
            ctx.fail('scaling', 'MRO entries listed grow faster than any cubic between n and 2n', case,
                     expected={'items(2n)<=': R * half['items'] + I},
                     observed={'items(n)': half['items'], 'items(2n)' + ('>' if not ok else ''): r['items'],
                               'classes': r['classes'], 'longest_listing_so_far': r['maxlen'],
                               'all': {str(k[0]): v['items'] for k, v in sorted(done.items()) if k[1] == q}},
                     how=how)
        elif r['outcome'] == 'calls-cap' or (ok and half and n >= 8 and half['outcome'] == 'ok'
                                             and r.get('calls') is not None and half.get('calls') is not None
                                             and r['calls'] > R * half['calls'] + CS):
            ctx.fail('scaling', 'function calls made by the query grow faster than any cubic between n and 2n', case,
                     expected={'calls(2n)<=': R * half['calls'] + CS},
                     observed={'calls(n)': half['calls'], 'calls(2n)' + ('>' if not ok else ''): r['calls'],
                               'classes': r['classes'], 'mro_items': r['items'],
                               'all': {str(k[0]): v.get('calls') for k, v in sorted(done.items()) if k[1] == q}},
                     how=how + '; calls = `call` + `c_call` events of sys.setprofile')
        elif r['outcome'] == 'cpu-cap':
            ctx.fail('scaling', 'CPU time grows faster than any cubic between n and 2n' if half else
                     'query on an inheritance family needs more than %.0f s CPU' % INHERIT['cpu_abs'], case,
                     expected={'cpu_seconds<=': r['cpu_cap']},
                     observed={'cpu(n)': half['cpu'] if half else None,
                               'cpu(2n) cut off by the CPU timer on every attempt after': r.get('cpu_attempts'),
                               'classes': r['classes'], 'mro_items_so_far': r['items']}, how=how)
        elif ok and half and half['outcome'] == 'ok' and n >= 8 and r['entries'] is not None \
                and half['entries'] is not None and r['entries'] > R * half['entries'] + I:
            ctx.fail('scaling', 'work grows faster than any cubic between n and 2n', case,
                     expected={'work(2n)<=': R * half['entries'] + I},
                     observed={'work(n)': half['entries'], 'work(2n)': r['entries']},
                     how='count entries of the _infer_node body for n and 2n')
        # model bound (theorems node_cap / bounded_work), as for the families of stream e2e: the
        # entries are spread over at most 1 + classes + methods contexts of this module
        if ok and r['entries'] is not None and r['entries'] > max(1, cap) * (2 + 2 * r['classes']):
            ctx.fail('scaling', 'more inference-body entries than cap x contexts', case,
                     expected={'<=': cap * (2 + 2 * r['classes'])}, observed={'entries': r['entries']}, how=how)
    ctx.hist.setdefault('scaling-work', {})[fam] = {
        q: {str(n): v for n, v in sorted(w.items())} for q, w in work.items()}


def collect_inherit(ctx, started, cap):
    procs, t0 = started
    deadline = t0 + ctx.size(240, 1800)
    pending = []
    for fam, p, err in procs:
        rows, killed, etxt = read_child(p, err, deadline)
        pending.append((fam, rows, killed, etxt))
    for fam, rows, killed, etxt in pending:
        judge_inherit(ctx, fam, rows, killed, etxt, deadline - t0, cap)


# ----------------------------------------------------------------- stream: e2e

class Watchdog(BaseException):
    pass


class InferCounter:
    """counts entries of the *body* of syntax_tree._infer_node / infer_expr_stmt (the function
    wrapped by _limit_value_infers), per context tree node, by swapping the closure cell"""
    def __init__(self):
        self.per_ctx = {}
        self.total = 0
        self.generous = set()

    def __enter__(self):
        from jedi.inference import syntax_tree
        self.cells = []
        for name in ('_infer_node', 'infer_expr_stmt'):
            f = getattr(syntax_tree, name)
            # peel debug.increase_indent (and any other decorator) until the cap wrapper is found
            lim = f
            while 'inferred_element_counts' not in lim.__code__.co_names:
                nxt = [c.cell_contents for c in (lim.__closure__ or ())
                       if hasattr(c.cell_contents, '__code__')]
                if not nxt:
                    raise common.TieBroken('syntax_tree.%s is no longer wrapped by _limit_value_infers' % name)
                lim = nxt[0]
            cell = lim.__closure__[0]
            orig = cell.cell_contents
            self.cells.append((cell, orig))
            cell.cell_contents = self._counting(orig)
        return self

    def _counting(self, orig):
        def counting(context, *a, **k):
            key = id(context.tree_node)
            self.per_ctx[key] = self.per_ctx.get(key, 0) + 1
            self.total += 1
            if context.parent_context is None:
                try:
                    if context.get_value() is context.inference_state.builtins_module:
                        self.generous.add(key)
                except Exception:
                    pass
            return orig(context, *a, **k)
        return counting

    def reset(self):
        self.per_ctx = {}
        self.total = 0
        self.generous = set()

    def __exit__(self, *a):
        for cell, orig in self.cells:
            cell.cell_contents = orig


def guarded(fn, seconds):
    """run fn() under a wall-clock watchdog. Returns (kind, value, seconds)"""
    def handler(signum, frame):
        raise Watchdog()
    old = signal.signal(signal.SIGALRM, handler)
    signal.setitimer(signal.ITIMER_REAL, seconds)
    t0 = time.time()
    try:
        try:
            v = fn()
            return 'ok', v, time.time() - t0
        finally:
            signal.setitimer(signal.ITIMER_REAL, 0)
    except Watchdog:
        return 'hang', None, time.time() - t0
    except RecursionError as e:
        return 'RecursionError', e, time.time() - t0
    except Exception as e:
        return 'raised', e, time.time() - t0
    finally:
        signal.setitimer(signal.ITIMER_REAL, 0)
        signal.signal(signal.SIGALRM, old)


CONFIRMED_HANGS = [0]


def guarded_confirmed(ctx, fn, seconds, reset=None):
    """guarded(), but a wall-clock limit alone is no verdict on a loaded machine: a query that hits
    it is run again with three times the limit; a real hang repeats.  After three confirmed hangs
    in one run further ones are reported without the second attempt."""
    k, v, dt = guarded(fn, seconds)
    if k == 'hang' and CONFIRMED_HANGS[0] < 3:
        if reset is not None:
            reset()
        k, v, dt = guarded(fn, 3 * seconds)
        if k == 'hang':
            CONFIRMED_HANGS[0] += 1
        else:
            ctx.count('slow', None, nontrivial=False, bucket='over %.0f s wall once, then %s in %.1f s' % (seconds, k, dt))
    return k, v, dt


def dominant_frame(e):
    """the jedi frame (file:function) that occurs most often in the traceback of a RecursionError"""
    import traceback
    freq = {}
    for fr in traceback.extract_tb(e.__traceback__):
        fn = fr.filename.replace('\\', '/')
        if '/jedi/' in fn:
            k = '%s:%s' % (fn.split('/jedi/')[-1], fr.name)
            freq[k] = freq.get(k, 0) + 1
    if not freq:
        return ''
    top = max(freq.values())
    return sorted(k for k, v in freq.items() if v == top)[0]


QUERIES = ['infer', 'goto', 'complete', 'get_references', 'get_signatures', 'help']


def run_query(script, q, line, col):
    r = getattr(script, q)(line, col)
    # touch the lazily computed public attributes as an editor would
    out = []
    for d in r[:50]:
        out.append((d.name, d.type))
    return out


def e2e_one(ctx, counter, label, src, positions, cap, timeout, kind, path=None, project=None, meta=None,
            queries=None):
    import jedi
    results = []
    for (line, col) in positions:
        for q in queries or QUERIES:
            counter.reset()
            kw = {}
            if path is not None:
                kw = {'path': path, 'project': project}

            def go():
                return run_query(jedi.Script(src, **kw), q, line, col)
            how = "jedi.Script(source).%s(%d, %d)" % (q, line, col)
            case = {'label': label, 'source': src, 'query': q, 'line': line, 'column': col}
            if meta:
                case.update(meta)
                how = ('files written to a directory d; jedi.Script(source, path=d/<module>, project=jedi.Project(d, '
                       'sys_path=[d], smart_sys_path=False)).%s(%d, %d)' % (q, line, col))
            k, v, dt = guarded_confirmed(ctx, go, timeout, counter.reset)
            nonbuiltin = [n for key, n in counter.per_ctx.items() if key not in counter.generous]
            worst = max(nonbuiltin or [0])
            ctx.count('e2e', (src, q, line, col), nontrivial=counter.total > 0,
                      bucket='%s/%s' % (kind, k),
                      sample={'label': label, 'query': q, 'line': line, 'column': col,
                              'infer_node_entries': counter.total, 'outcome': k, 'source': src[:400]})
            if k == 'hang':
                ctx.fail('e2e', 'query did not return within %.0f s' % timeout, case,
                         expected='returns', observed={'outcome': 'hang', 'entries': counter.total}, how=how)
            elif k == 'RecursionError':
                ctx.fail('e2e', 'query raised RecursionError', case, expected='no RecursionError',
                         observed={'outcome': 'RecursionError', 'dominant_frame': dominant_frame(v)}, how=how)
            elif k == 'raised':
                cls, site = common.exc_site(v)
                # totality is C01's business: counted, not judged
                ctx.count('raised', (label, q), nontrivial=False, bucket='%s@%s' % (cls, site))
            if worst > max(1, cap):
                ctx.fail('e2e', 'one context entered the capped inference body more often than the cap', case,
                         expected={'entries_per_context<=': cap}, observed={'entries': worst}, how=how)
            results.append((q, k, counter.total, dt))
    return results


def stream_e2e(ctx, cap):
    import jedi
    rng = ctx.subrng('e2e')
    timeout = ctx.size(20, 60)
    with InferCounter() as counter:
        # fixed cyclic shapes: all queries at the last position (and at every name in thorough)
        for label, src in P.FIXED:
            positions = [P.last_pos(src)] + P.EXTRA_POSITIONS.get(label, [])
            if not ctx.quick:
                positions += [p for p in name_positions(src) if p not in positions]
            e2e_one(ctx, counter, label, src, positions[:ctx.size(3, 30)], cap, timeout, 'fixed')
        # corpus: minimised past inputs and upstream's own recursion test file
        cdir = os.path.join(common.CORPUS_DIR, 'C15')
        for fn in sorted(os.listdir(cdir)) if os.path.isdir(cdir) else []:
            with open(os.path.join(cdir, fn), encoding='utf-8') as f:
                item = json.load(f)
            pos = item.get('positions') or name_positions(item['source'])
            if ctx.quick and len(pos) > 40:
                pos = rng.sample(pos, 40)
            saved = list(QUERIES)
            try:
                if ctx.quick:
                    QUERIES[:] = ['infer', 'complete']
                e2e_one(ctx, counter, 'corpus:' + fn, item['source'], [tuple(p) for p in pos], cap, timeout, 'corpus')
            finally:
                QUERIES[:] = saved
        # random definition graphs
        for i in range(ctx.size(25, 400)):
            src, uses, meta = P.gen_graph_program(rng, 40)
            pos = [(l, c) for (l, c, _) in uses]
            if ctx.quick:
                pos = pos[:2]
            e2e_one(ctx, counter, 'graph-%d' % i, src, pos, cap, timeout,
                    'graph-cyclic' if meta['cyclic'] else 'graph-acyclic')
        # import cycles
        for i in range(ctx.size(3, 30)):
            files, main = P.import_cycle_project(rng, rng.randint(1, 5))
            d = tempfile.mkdtemp(prefix='c15proj')
            try:
                for fn, txt in files.items():
                    with open(os.path.join(d, fn), 'w') as f:
                        f.write(txt)
                proj = jedi.Project(d)
                lines = main.split('\n')
                pos = [(len(lines), len(lines[-1])), (len(lines) - 1, len(lines[-2]))]
                e2e_one(ctx, counter, 'import-cycle-%d:%s' % (i, sorted(files.items())), main, pos, cap, timeout,
                        'import-cycle', path=os.path.join(d, 'main.py'), project=proj)
            finally:
                shutil.rmtree(d, ignore_errors=True)
        # star-import graphs: cycles through several modules, queries in every module; families
        stream_star(ctx, counter, cap, timeout)
        # cap probe: a module-level chain long enough to need more than `cap` entries in one context
        if cap <= 2000:
            src = P.wide_tuple(cap + 100)
            e2e_one(ctx, counter, 'cap-probe-wide', src, [P.last_pos(src)], cap, timeout, 'cap-probe')
        # probes that keep the known findings honest (see known_findings.d/C15.json)
        src = P.fam_assign_chain(400)
        e2e_one(ctx, counter, 'deep-chain', src, [P.last_pos(src)], cap, timeout, 'deep-chain')
        src = "x = [1]\nx.foo"
        e2e_one(ctx, counter, 'builtin-container-attribute', src, [(2, 5)], cap, timeout, 'sandbox')
        # scaling families
        sizes = [1, 2, 3, 4, 6, 8, 12, 16, 24, 32, 48, 64] if ctx.quick else list(range(1, 65))
        for fam, mk in sorted(P.FAMILIES.items()):
            work = {}
            for n in sizes:
                src = mk(n)
                line, col = P.last_pos(src)
                counter.reset()
                k, v, dt = guarded_confirmed(ctx, lambda: run_query(jedi.Script(src), 'infer', line, col), timeout,
                                             counter.reset)
                work[n] = counter.total
                contexts = max(1, len(counter.per_ctx))
                ctx.count('scaling', (fam, n), nontrivial=True, bucket=fam,
                          sample={'family': fam, 'n': n, 'entries': counter.total, 'seconds': round(dt, 3)})
                case = {'family': fam, 'n': n, 'source': src}
                how = 'jedi.Script(gen.c15_programs.FAMILIES[family](n)).infer(*last_pos)'
                if k in ('hang', 'RecursionError'):
                    ctx.fail('scaling', 'query on a scaling family %s' % ('hangs' if k == 'hang' else 'raises RecursionError'),
                             case, observed={'outcome': k}, how=how)
                # model bound (theorems node_cap / bounded_work): entries <= cap * contexts
                nonb = sum(c for key, c in counter.per_ctx.items() if key not in counter.generous)
                if nonb > max(1, cap) * contexts:
                    ctx.fail('scaling', 'more inference-body entries than cap x contexts', case,
                             expected={'<=': cap * contexts}, observed={'entries': nonb}, how=how)
            # polynomial growth: doubling the size multiplies the work by at most 8 (cubic) + slack
            for n in sizes:
                if 2 * n in work and n >= 4 and work[2 * n] > 8 * work[n] + 64:
                    ctx.fail('scaling', 'work grows faster than any cubic between n and 2n',
                             {'family': fam, 'n': n, 'source': mk(2 * n)},
                             expected={'work(2n)<=': 8 * work[n] + 64},
                             observed={'work(n)': work[n], 'work(2n)': work[2 * n], 'all': work},
                             how='count entries of the _infer_node body for n and 2n')
            ctx.hist.setdefault('scaling-work', {})[fam] = work



# ----------------------------------------------------------------- stream: star (import graphs)

STAR_QUERIES = ['infer', 'goto', 'complete', 'get_references']


def write_project(files):
    d = tempfile.mkdtemp(prefix='c15star')
    for fn, txt in files.items():
        with open(os.path.join(d, fn), 'w') as f:
            f.write(txt)
    return d


def real_python_imports(d, files):
    """the generated project is a legitimate program: a fresh interpreter imports every module"""
    mods = ['main'] + sorted(fn[:-3] for fn in files if fn != 'main.py')
    p = subprocess.run([sys.executable, '-S', '-c', 'import ' + ', '.join(mods)], cwd=d, capture_output=True,
                       text=True, env=dict(os.environ, PYTHONPATH=d, PYTHONDONTWRITEBYTECODE='1'))
    return p.returncode == 0, p.stderr[-400:]


class StarCounter:
    """elements of the lists handed out by ModuleMixin.star_imports (every call, cached or not) and
    Python-level function calls (sys.setprofile) while a query runs"""
    def __init__(self):
        from jedi.inference.value import module
        self.cls = module.ModuleMixin
        if 'star_imports' not in self.cls.__dict__:
            raise common.TieBroken('ModuleMixin.star_imports', 'the method is gone')
        self.items = self.calls = self.star_calls = 0

    def __enter__(self):
        self.orig = self.cls.__dict__['star_imports']
        orig = self.orig
        me = self

        def star_imports(self_, *a, **k):
            r = orig(self_, *a, **k)
            me.star_calls += 1
            me.items += len(r)
            return r
        self.cls.star_imports = star_imports
        return self

    def profile(self, frame, event, arg):
        if event == 'call':
            self.calls += 1

    def measure(self, fn, timeout):
        self.items = self.calls = self.star_calls = 0
        sys.setprofile(self.profile)
        try:
            return guarded(fn, timeout)
        finally:
            sys.setprofile(None)

    def __exit__(self, *a):
        self.cls.star_imports = self.orig


def star_model_view(imports, root):
    """request for the Lean model: imports[v] = modules star-imported by v, in statement order"""
    return {'op': 'star', 'imports': imports, 'roots': root, 'fuel': len(imports) + 1}


def run_star_impl(files, order, roots):
    """ModuleValue.star_imports() of the modules `roots` (one after the other on ONE inference state,
    as the queries of one Script do), modules as indices into `order`; with the number of bodies
    entered and wrapper calls per root (counted on the undecorated function / the wrapper)"""
    import jedi
    from jedi.inference.value import module as module_mod
    d = write_project(files)
    try:
        proj = jedi.Project(d, sys_path=[d], smart_sys_path=False)
        src = ''.join('import %s\n' % m for m in order)
        script = jedi.Script(src, path=os.path.join(d, 'zz_main.py'), project=proj)
        vals = {}
        for i, m in enumerate(order):
            names = script.infer(i + 1, 7 + len(m))
            if len(names) != 1 or names[0].type != 'module':
                return {'error': 'module %s inferred as %r' % (m, [n.description for n in names])}
            vals[m] = names[0]._name._value
        index = {str(v.py__file__()): i for i, (m, v) in enumerate((m, vals[m]) for m in order)}
        cls = module_mod.ModuleMixin
        wrapper = cls.__dict__['star_imports']
        counters = {'calls': 0}

        def counting(self_, *a, **k):
            counters['calls'] += 1
            return wrapper(self_, *a, **k)
        cls.star_imports = counting
        out = []
        try:
            for r in roots:
                counters['calls'] = 0
                try:
                    res = vals[order[r]].star_imports()
                except RecursionError:
                    out.append({'error': 'fuel'})
                    break
                out.append({'r': [index.get(str(v.py__file__()), -1) for v in res], 'calls': counters['calls']})
        finally:
            cls.star_imports = wrapper
        return out
    finally:
        shutil.rmtree(d, ignore_errors=True)


def random_star_graph(rng):
    n = rng.randint(1, 7)
    style = rng.choice(['ring', 'random', 'dag', 'self', 'two-rings'])
    imp = [[] for _ in range(n)]
    for v in range(n):
        if style == 'ring':
            imp[v] = [(v + 1) % n] + ([rng.randrange(n)] if rng.random() < 0.3 else [])
        elif style == 'dag':
            imp[v] = rng.sample(range(v), rng.randint(0, min(v, 3)))
        elif style == 'self':
            imp[v] = [v] + [rng.randrange(n) for _ in range(rng.randint(0, 2))]
        elif style == 'two-rings':
            h = max(1, n // 2)
            imp[v] = [(v + 1) % h if v < h else h + (v + 1 - h) % (n - h)] + ([0] if rng.random() < 0.3 else [])
        else:
            imp[v] = [rng.randrange(n) for _ in range(rng.randint(0, 3))]
    return n, imp, style


def stream_star_corr(ctx, reqs):
    """correspondence: the real ModuleValue.star_imports on generated star-import graphs vs
    Model.StarImports.starEval (listing per root, wrapper calls per root)"""
    rng = ctx.subrng('starcorr')
    cases = []
    for i in range(ctx.size(40, 600)):
        n, imp, style = random_star_graph(rng)
        order = ['s%d' % v for v in range(n)]
        files = {'s%d.py' % v: ''.join('from s%d import *\n' % w for w in imp[v]) + 'class S%d: pass\n' % v
                 for v in range(n)}
        roots = [rng.randrange(n) for _ in range(rng.randint(1, 3))]
        case = {'imports': imp, 'roots': roots}
        try:
            obs = run_star_impl(files, order, roots)
        except Exception as e:
            cls, site = common.exc_site(e)
            ctx.count('raised', ('star', i), nontrivial=False, bucket='%s@%s' % (cls, site))
            continue
        if isinstance(obs, list) and any('error' in o for o in obs):
            ctx.fail('star', 'ModuleValue.star_imports() raises RecursionError on a star-import graph',
                     dict(case, files=files), expected='returns', observed=obs,
                     how='harness/props/c15.py:run_star_impl(files, order, roots)')
        cases.append((('star', case, style), obs))
        reqs.append({'op': 'star', 'imports': imp, 'roots': roots, 'fuel': n + 1})
    return cases


def stream_star(ctx, counter, cap, timeout):
    """generated projects whose modules star-import / import each other in cycles: the real
    interpreter imports them (fresh process); every query at uses in EVERY module returns"""
    import jedi
    rng = ctx.subrng('star')
    for i in range(ctx.size(8, 120)):
        k = rng.choice([1, 2, 2, 3, 3, 4, 5, 6])
        files, uses, meta = P.star_project(rng, k)
        d = write_project(files)
        try:
            legit, err = real_python_imports(d, files)
            ctx.count('star-project', (tuple(sorted(files.items())),), nontrivial=legit and meta['star_cycle_len'] >= 2,
                      bucket='star-cycle-len=%d/%s' % (meta['star_cycle_len'], 'imports-ok' if legit else 'python-rejects'),
                      sample={'files': files, 'real_python': 'ok' if legit else err})
            proj = jedi.Project(d, sys_path=[d], smart_sys_path=False)
            for fn in sorted(files):
                pos = [(l, c) for (l, c, _t) in uses[fn]]
                if ctx.quick and len(pos) > 2:
                    pos = rng.sample(pos, 2)
                e2e_one(ctx, counter, 'star-project-%d' % i, files[fn], pos, cap, timeout,
                        'star-cycle-len=%d' % meta['star_cycle_len'], path=os.path.join(d, fn), project=proj,
                        meta={'module': fn, 'files': files}, queries=STAR_QUERIES)
        finally:
            shutil.rmtree(d, ignore_errors=True)
    # scaling families over star imports: elements handed out by star_imports and function calls
    try:
        sc = StarCounter().__enter__()
    except (common.TieBroken, ImportError, AttributeError) as e:
        ctx.tie_broken('hook:ModuleMixin.star_imports', str(e))
        return
    try:
        sizes = [2, 4, 8, 16] if ctx.quick else [1, 2, 3, 4, 5, 6, 7, 8, 10, 12, 14, 16, 20, 24, 32, 48, 64]
        for fam, mk in sorted(P.STAR_FAMILIES.items()):
            work = {}
            for n in sizes:
                files, main = mk(n)
                d = write_project(files)
                try:
                    proj = jedi.Project(d, sys_path=[d], smart_sys_path=False)
                    line, col = P.last_pos(main)
                    stop = False
                    for q in ('infer', 'complete'):
                        k, v, dt = sc.measure(lambda: run_query(jedi.Script(
                            main, path=os.path.join(d, 'main.py'), project=proj), q, line, col), timeout)
                        w = [sc.items, sc.calls]
                        work.setdefault(q, {})[n] = w
                        ctx.count('scaling', (fam, n, q), nontrivial=k == 'ok' and bool(v), bucket=fam,
                                  sample={'family': fam, 'n': n, 'query': q, 'modules': len(files),
                                          'star_items': sc.items, 'star_calls': sc.star_calls, 'calls': sc.calls,
                                          'seconds': round(dt, 3), 'outcome': k})
                        case = {'family': fam, 'n': n, 'query': q, 'source': main, 'line': line, 'column': col,
                                'module': 'main.py', 'files': files if len(files) <= 12 else
                                'gen.c15_programs.STAR_FAMILIES[%r](%d)[0]' % (fam, n)}
                        how = ('files = gen.c15_programs.STAR_FAMILIES[family](n)[0] written to d; jedi.Script(source, '
                               'path=d/main.py, project=jedi.Project(d, sys_path=[d], smart_sys_path=False)).%s(%d, %d), '
                               'counting len() of every list returned by ModuleMixin.star_imports and `call` events '
                               'of sys.setprofile' % (q, line, col))
                        if k in ('hang', 'RecursionError'):
                            ctx.fail('scaling', 'query on a star-import family %s'
                                     % ('hangs' if k == 'hang' else 'raises RecursionError'), case,
                                     observed={'outcome': k, 'dominant_frame': dominant_frame(v) if k != 'hang' else None},
                                     how=how)
                            stop = True
                        elif k == 'raised':
                            cls_, site = common.exc_site(v)
                            ctx.count('raised', (fam, n, q), nontrivial=False, bucket='%s@%s' % (cls_, site))
                        half = work[q].get(n // 2) if n % 2 == 0 else None
                        if k == 'ok' and half and n >= 8:
                            for idx, nm, slack in ((0, 'module lists handed out by star_imports', 64),
                                                   (1, 'function calls made by the query', 200000)):
                                if w[idx] > 8 * half[idx] + slack:
                                    ctx.fail('scaling', '%s grow faster than any cubic between n and 2n' % nm, case,
                                             expected={'work(2n)<=': 8 * half[idx] + slack},
                                             observed={'work(n)': half[idx], 'work(2n)': w[idx],
                                                       'all': {str(m): x[idx] for m, x in sorted(work[q].items())}},
                                             how=how)
                                    stop = True
                                    break
                        if stop:
                            break
                finally:
                    shutil.rmtree(d, ignore_errors=True)
                if stop:
                    break       # larger members only cost more
            ctx.hist.setdefault('scaling-work', {})[fam] = {q: {str(n): x for n, x in sorted(w.items())}
                                                             for q, w in work.items()}
    finally:
        sc.__exit__()


def name_positions(src):
    import re
    out = []
    for li, line in enumerate(src.split('\n'), 1):
        for m in re.finditer(r'[A-Za-z_]\w*', line):
            out.append((li, m.end()))
    return out


# ----------------------------------------------------------------- driver

def compare(ctx, cases, answers):
    for (key, impl), ans in zip(cases, answers):
        stream = key[0]
        if isinstance(ans, dict) and 'protocol_error' in ans:
            raise common.InfraError('driver protocol error: %r' % ans)
        if stream == 'mro':
            ans = mro_model_view(key[1], ans)
            ctx.count('mro', (key[1]['bases'], key[1]['root']), bucket=key[2],
                      nontrivial=isinstance(impl.get('out'), list) and len(set(impl['out'])) >= 4,
                      sample={'bases': key[1]['bases'], 'root': key[1]['root'], 'impl': impl})
        if stream == 'detector':
            nontriv = any(isinstance(e, list) and e[0] for e in impl['ev'])
            ctx.count('detector', (key[1], key[2]), nontrivial=nontriv,
                      bucket='len<=8' if len(key[2]) <= 8 else 'long',
                      sample={'limits': key[1], 'ops': key[2][:12], 'decisions': impl['ev'][:12]})
        elif stream == 'decorator':
            ctx.count('decorator', key[1], nontrivial=impl.get('ok', 0) > 1, bucket='n=%d' % len(key[1]['body']),
                      sample={'case': key[1], 'result': impl})
        elif stream == 'memo':
            ctx.count('memo', key[1], nontrivial=key[2] != 'dag', bucket='%s/%s' % (key[2], key[1]['combine']),
                      sample={'case': key[1], 'result': impl[:2]})
        elif stream == 'guard':
            ctx.count('guard', key[1], nontrivial=impl.get('ok', 0) > 1, bucket=key[2],
                      sample={'case': key[1], 'result': impl})
        elif stream == 'star':
            ctx.count('star', (key[1]['imports'], key[1]['roots']), bucket=key[2],
                      nontrivial=key[2] != 'dag' and isinstance(impl, list) and any(len(o.get('r', [])) > 1 for o in impl),
                      sample={'case': key[1], 'impl': impl})
        elif stream == 'limit':
            ctx.count('limit', (key[1]['seed_index'], tuple(map(tuple, key[2]))), nontrivial=not all(impl),
                      bucket=key[1]['style'], sample={'case': key[1], 'refused': impl.count(False)})
        if ans != impl:
            ctx.tie_broken('correspondence:' + stream,
                           short({'case': key[1:], 'impl': impl, 'model': ans}, 1500))
            # the failing-input search ran already: every stream evaluates the property itself on
            # the real object for every generated input (budget_oracle & co.)


def run(ctx):
    from translator import extract
    CONFIRMED_HANGS[0] = 0
    reqs = []
    cases = []
    cap, factor = 300, 100
    try:
        src = extract.Src(common.REPO, 'jedi/inference/syntax_tree.py')
        fn = src.find('_limit_value_infers.wrapper')
        import ast
        for n in ast.walk(fn):
            if isinstance(n, ast.Assign) and ast.unparse(n.targets[0]) == 'maximum':
                cap = ast.literal_eval(n.value)
            if isinstance(n, ast.AugAssign) and ast.unparse(n.target) == 'maximum':
                factor = ast.literal_eval(n.value)
    except Exception:
        pass
    t0 = [time.time()]

    def lap(name):
        if os.environ.get('VERIF_C15_TIMING'):
            sys.stderr.write('[c15 timing] %-10s %.1f s\n' % (name, time.time() - t0[0]))
        t0[0] = time.time()
    lap('pre-run %.1f s; start' % (time.time() - ctx.t0))
    inherit = start_inherit(ctx)
    cases += stream_detector(ctx, reqs)
    lap('detector')
    cases += stream_decorator(ctx, reqs)
    lap('decorator')
    cases += stream_memo(ctx, reqs)
    lap('memo')
    cases += stream_guard(ctx, reqs)
    cases += stream_limit(ctx, reqs, cap, factor)
    lap('guard+limit')
    cases += stream_mro(ctx, reqs)
    lap('mro')
    cases += stream_star_corr(ctx, reqs)
    lap('starcorr')
    # the Lean driver works on the requests in background processes while the end-to-end streams run
    from concurrent.futures import ThreadPoolExecutor
    pool = ThreadPoolExecutor(1)
    future = pool.submit(common.run_driver_parallel, 'C15', reqs) if ctx.model_ok else None
    try:
        stream_gencache(ctx)
        lap('gencache')
        try:
            stream_e2e(ctx, cap)
        except common.TieBroken as e:
            ctx.tie_broken('hook:' + e.what, e.detail)
        lap('e2e')
        collect_inherit(ctx, inherit, cap)
        lap('inherit')
    finally:
        for _fam, p_, _err in inherit[0]:
            if p_.poll() is None:
                p_.kill()
        answers = None
        try:
            if future is not None:
                answers = future.result()
        finally:
            pool.shutdown(wait=True)
    if answers is not None:
        lap('driver')
        compare(ctx, cases, answers)
        lap('compare')
    else:
        ctx.notes.append('model did not build: correspondence skipped, oracle only')
    ctx.obligations['assumptions'] = [
        'every inference path of jedi is assumed to be built from the modelled combinators (detector + '
        'decorator, execution_allowed, _memoize_default, _limit_value_infers); stream e2e samples this with '
        'generated cyclic programs and scaling families under a watchdog',
        'builtins / typing exemptions enter the model as flags of the pushed execution',
        'inference_state_method_generator_cache (lazy, interleaved generators) is not modelled in Lean; '
        'stream gencache checks termination, at-most-once body creation and replay equality directly',
        'Python-level nesting depth is the model\'s fuel; RecursionError / a hang is Err.fuel',
        'Model.Mro covers acyclic class hierarchies whose bases infer to one class each (stream mro); '
        'cyclic inheritance is cut by the generator cache\'s sentinel, which is not modelled in Lean '
        '(stream gencache, fixed shapes self-/cyclic-inheritance of stream e2e); that the cost of a query '
        'on an instance is polynomial in the MRO work is sampled by the inheritance families of stream '
        'scaling (MRO entries listed, _infer_node entries, function calls, CPU seconds)',
    ]


def replay(ctx, payload):
    import jedi
    inp = payload['input']
    if isinstance(inp, dict) and inp.get('family') in P.INHERIT_FAMILIES:
        n = inp['n']
        sizes = sorted({s_ for s_ in (n // 4, n // 2, n) if s_ >= 1})
        started = start_inherit(ctx, [inp['family']], sizes)
        for fam, p, err in started[0]:
            rows, killed, etxt = read_child(p, err, time.time() + 300)
            for r in rows:
                if r.get('ev') == 'done' and r['q'] == inp.get('query', r['q']):
                    print('n=%-3d %-8s classes=%-3d outcome=%-9s mro_items=%-7d longest_listing=%-6d '
                          'infer_node_entries=%s calls=%s cpu=%.2fs (item cap %s, call cap %s, cpu cap %.1fs)'
                          % (r['n'], r['q'], r['classes'], r['outcome'], r['items'], r['maxlen'], r['entries'],
                             r.get('calls'), r['cpu'], r['item_cap'], r.get('call_cap'), r['cpu_cap']))
            if killed:
                print('child killed after 300 s')
            if etxt.strip():
                print(etxt[-1500:])
    elif isinstance(inp, dict) and 'imports' in inp and 'files' in inp:
        print(run_star_impl(inp['files'], ['s%d' % v for v in range(len(inp['imports']))], inp['roots']))
    elif isinstance(inp, dict) and 'files' in inp and 'query' in inp:
        files = inp['files'] if isinstance(inp['files'], dict) else P.STAR_FAMILIES[inp['family']](inp['n'])[0]
        d = write_project(files)
        try:
            proj = jedi.Project(d, sys_path=[d], smart_sys_path=False)
            with StarCounter() as sc:
                k, v, dt = sc.measure(lambda: run_query(jedi.Script(
                    inp['source'], path=os.path.join(d, inp['module']), project=proj), inp['query'], inp['line'],
                    inp['column']), 120)
                print('outcome:', k, 'value:', v if k == 'ok' else repr(v), 'seconds: %.2f' % dt,
                      'elements handed out by star_imports:', sc.items, 'function calls:', sc.calls)
        finally:
            shutil.rmtree(d, ignore_errors=True)
    elif 'source' in inp and 'query' in inp:
        with InferCounter() as counter:
            k, v, dt = guarded(lambda: run_query(jedi.Script(inp['source']), inp['query'], inp['line'],
                                                 inp['column']), 60)
            print('outcome:', k, 'value:', v if k == 'ok' else repr(v), 'seconds: %.2f' % dt,
                  'entries:', counter.total, 'max per context:', max(counter.per_ctx.values() or [0]))
    elif 'family' in inp:
        src = P.FAMILIES[inp['family']](inp['n'])
        with InferCounter() as counter:
            k, v, dt = guarded(lambda: run_query(jedi.Script(src), 'infer', *P.last_pos(src)), 60)
            print('outcome:', k, 'seconds: %.2f' % dt, 'entries:', counter.total)
    elif 'ops' in inp:
        with Limits(tuple(inp['limits'])):
            ops = [o if o == 'pop' else tuple(o) for o in inp['ops']]
            print(run_trace_impl(ops)[0])
    else:
        print('input:', inp)
    print('expected:', payload.get('expected'), 'observed at record time:', payload.get('observed'))
    return 0

"""C07 - refactoring results are self-consistent and touch nothing until applied.

Every case = one scratch world under /tmp/scratch-c07c06/, one refactoring request on it.  A world is
a directory W with the files, a Project path inside it (W itself, W/proj, W/ws/proj) and the
directories that are on sys.path: the files a refactoring changes and moves can lie inside the
project, below it, outside of it (gen/refactor_layouts.py).

Streams
  render     parso tree + node->str map of every ChangedFile, dumped; Lean `render` must equal
             get_new_code(), Lean `code` must equal the file's text
  diff       difflib's grouped opcodes for (old, new) -> `Valid` decided in Lean, Lean `diffText`
             must equal ChangedFile.get_diff() byte for byte, Lean `applyPatch (format ..)` must
             give the (normalised) new lines
  fs         directory snapshots before / after inspection / after apply vs the Lean FS machine
  until      Script.extract_variable's until-position prologue vs Lean `untilPos`
  oracle-*   the property itself on the real code, independent of the model:
             patch (own unified-diff parser/applier on get_diff() text), names (every `---`/`+++`
             header and `rename from/to` line of get_diff(), read back against the project path, names
             exactly the keys of get_changed_files() / the pairs of get_renames(); after apply() every
             `+++` name is a file that holds get_new_code() and every renamed-away `---` name is gone),
             layout (which of inside/outside the project x changed/moved/changed+moved a case covers),
             inspect (nothing on disk changes before apply; every inspect method - Refactoring.get_renames /
             get_changed_files / get_diff, ChangedFile.get_new_code / get_diff - answers, judged one by one),
             inspect-methods (which part of the domain each answer covers: Script with / without a path x
             result with / without file renames x buffer alone / + files on disk),
             apply (disk afterwards = announced contents and names, nothing else; a result that changes a
             buffer without a path cannot come true: apply() refuses with RefactoringError and writes nothing),
             bytes (text outside the rewritten nodes preserved, by absolute offsets; the text in front of
             each rewritten node - its parso prefix: line break, comment / blank lines, indentation - must
             survive inside the replacement, only whole new lines may be inserted into it),
             exceptions (only RefactoringError / ValueError)
"""
import difflib
import json
import os
import re
import shutil
import traceback

import common
from common import short
from gen import refactor_gen, refactor_layouts, refactor_shapes

MODELS = ['Diff', 'RefactorFS', 'Tree']
MANIFEST = dict(
    text='Theorems: render with the empty map is the code; code and render decompose into the same chunk '
         'sequence and differ only at mapped nodes (render_local); for ANY opcode list that is Valid for '
         '(old lines, new lines) the formatted hunks applied to the old lines give exactly the new lines, both '
         '@@ ranges checked (patch_roundtrip), formatting is total, the diff text is empty iff there is no '
         'group and then old = new; get_diff normalisation appends at most one newline; inspection requests '
         'leave the FS model unchanged, apply (phase order and newline= taken from the source by the '
         'translator) leaves exactly get_new_code() at every changed path and nothing else, then renames; '
         'apply on a path-less Script refuses with RefactoringError (for both phase orders the translator knows; '
         'with the refusal in front nothing is written - apply_refusal_writes_nothing_partial - and the order of '
         'the source as it is writes the files in front of the path-less entry first: '
         'apply_refusal_half_applied_witness = known finding C07-pathless-apply-half-applied); calculate_to_path, '
         'read statement by statement (None guard, fold / first-match loop), keeps the key None of a Script without '
         'a path for ANY list of file renames (to_path_none_stays_none, to_path_total) and the section of such a '
         'buffer shows the empty name in both headers (pathless_section_names_nothing); the until-position prologue raises no '
         'IndexError under a stated range hypothesis (kernel-checked counter-witness for the unrestricted '
         'statement = F3) and none at all once the range check exists. Tie: translator constants + '
         'correspondence on real refactorings (rename, inline, extract_variable, extract_function) over '
         'generated projects with LF/CRLF/CR endings, with/without final newline, unicode identifiers, '
         'module renames; Scripts without a path (unsaved buffers: fresh texts and unsaved copies of files on disk) '
         'whose renames of modules / packages / namespace packages carry file renames, alone or together with changed '
         'files on disk; worlds on disk whose files lie inside the Project path, below it, outside of it (sibling '
         'directories on sys_path / added_sys_path, one with the project name as a string prefix) with modules, '
         'packages, nested packages and namespace packages over two roots that are changed only, moved only, '
         'changed AND moved (modules that refer to themselves / their own package); the `---`/`+++` header '
         'computation of ChangedFile.get_diff and the rename lines of Refactoring.get_diff are transcribed with '
         'the attribute names read from the source (diff_header_from / diff_header_to / '
         'announced_name_holds_contents / rename_lines_name_renames: a from/to mix-up breaks the build); '
         'direct oracle with an independent patch applier, every header and rename line of get_diff() read back '
         'against the project path and compared with get_changed_files() / get_renames() / the disk after apply(), directory snapshots and a byte-level '
         'check that the text between and in front of the rewritten nodes (line breaks, comment and blank lines, '
         'indentation, LF/CRLF/CR) is preserved with nothing but whole inserted lines.',
    note='Modelled not verified: difflib (parameter: opcode list, Valid decided per run), parso tree construction, '
         'pathlib ordering, os.rename/open succeeding, text<->bytes encoding (utf-8). The node maps themselves '
         '(which nodes a refactoring rewrites) are C05/C06 business.',
    technique='Lean 4 proof over hand-written model + translator-generated constants + differential correspondence',
    design='5.C07')
LEAN_TARGETS = ['JediModel.Props.C07', 'JediModel.Drivers.C07']

SCRATCH = os.environ.get('VERIF_SCRATCH', '/tmp/scratch-c07c06')
ALLOWED_EXC = ('RefactoringError', 'ValueError')


def load_own_known(ctx, pid):
    """known_findings.d/<pid>.json is merged into known_findings.json at commit time
    (tools/mkknown.py); reading it here keeps a worktree self-contained."""
    p = os.path.join(common.VERIF, 'known_findings.d', pid + '.json')
    try:
        with open(p, encoding='utf-8') as f:
            d = json.load(f)
    except FileNotFoundError:
        return
    have = {k['id'] for k in ctx.known}
    for k in d.get('findings', []):
        if k['id'] not in have and k.get('property') == pid:
            ctx.known.append(k)


# ------------------------------------------------------------------ text helpers (own code)

def split_keepends(s):
    """breaks after \\n, \\r\\n, lone \\r; '' -> ['']; text ending in a terminator gets a final ''"""
    out, cur, i, n = [], [], 0, len(s)
    while i < n:
        c = s[i]
        cur.append(c)
        if c == '\n':
            out.append(''.join(cur)); cur = []
        elif c == '\r':
            if i + 1 < n and s[i + 1] == '\n':
                cur.append('\n'); i += 1
            out.append(''.join(cur)); cur = []
        i += 1
    out.append(''.join(cur))
    return out


def norm_lines(s):
    ls = split_keepends(s)
    if ls[-1] != '':
        ls[-1] += '\n'
    return ls


class PatchError(Exception):
    pass


class _Done(Exception):
    """leaves a block early"""


_HUNK = re.compile(r'^@@ -(\d+)(?:,(\d+))? \+(\d+)(?:,(\d+))? @@\n$')


def parse_unified(text):
    """-> list of files: dict(old=, new=, hunks=[(s1,l1,s2,l2,[(tag,line)])]) ; raises PatchError"""
    lines = split_keepends(text)
    if lines and lines[-1] == '':
        lines.pop()
    files = []
    i = 0
    cur = None
    while i < len(lines):
        ln = lines[i]
        if ln.startswith('--- ') and i + 1 < len(lines) and lines[i + 1].startswith('+++ ') \
                and (cur is None or not cur['hunks'] or cur['hunks'][-1]['need'] == (0, 0)):
            if not ln.endswith('\n') or not lines[i + 1].endswith('\n'):
                raise PatchError('header line not terminated by \\n: %r' % ln)
            cur = {'old': ln[4:-1], 'new': lines[i + 1][4:-1], 'hunks': []}
            files.append(cur)
            i += 2
            continue
        m = _HUNK.match(ln)
        if m and (cur is not None) and (not cur['hunks'] or cur['hunks'][-1]['need'] == (0, 0)):
            s1, l1, s2, l2 = int(m.group(1)), m.group(2), int(m.group(3)), m.group(4)
            l1 = 1 if l1 is None else int(l1)
            l2 = 1 if l2 is None else int(l2)
            cur['hunks'].append({'s1': s1, 'l1': l1, 's2': s2, 'l2': l2, 'lines': [], 'need': (l1, l2)})
            i += 1
            continue
        if cur is None or not cur['hunks']:
            raise PatchError('unexpected line outside a hunk: %r' % ln)
        h = cur['hunks'][-1]
        a, b = h['need']
        tag = ln[:1]
        if tag == ' ' or (tag == '' and a > 0 and b > 0 and i == len(lines) - 1):
            # the context line for a final '' (no terminator) is ' ' which get_diff rstrips: it can only
            # be the very last line of the diff
            a, b = a - 1, b - 1
            tag = ' '
        elif tag == '-':
            a -= 1
        elif tag == '+':
            b -= 1
        else:
            raise PatchError('bad line tag in hunk: %r' % ln)
        if a < 0 or b < 0:
            raise PatchError('hunk longer than its header says: %r' % ln)
        h['need'] = (a, b)
        h['lines'].append((tag, ln[1:]))
        i += 1
    for f in files:
        for h in f['hunks']:
            if h['need'] == (1, 1) and False:
                pass
            if h['need'] != (0, 0):
                # a trailing context '' whose ' ' was stripped by rstrip(' ')
                if h is f['hunks'][-1] and f is files[-1] and h['need'] == (1, 1):
                    h['lines'].append((' ', ''))
                    h['need'] = (0, 0)
                else:
                    raise PatchError('hunk shorter than its header says: %r' % (h,))
    return files


def apply_hunks(hunks, old):
    out = []
    pos = 0
    for h in hunks:
        start = h['s1'] - 1 if h['l1'] else h['s1']
        if start < pos or start > len(old):
            raise PatchError('hunk starts at %d, already at %d / %d' % (start, pos, len(old)))
        out += old[pos:start]
        pos = start
        nstart = h['s2'] - 1 if h['l2'] else h['s2']
        if nstart != len(out):
            raise PatchError('hunk +range starts at %d but %d lines were produced' % (nstart, len(out)))
        for tag, ln in h['lines']:
            if tag in ' -':
                if pos >= len(old) or old[pos] != ln:
                    raise PatchError('context/removed line %r does not match old line %r'
                                     % (ln, old[pos] if pos < len(old) else None))
                pos += 1
                if tag == ' ':
                    out.append(ln)
            else:
                out.append(ln)
    out += old[pos:]
    return out


# ------------------------------------------------------------------ tree dump

def dump_tree(root):
    ids = {}
    counter = [0]

    def rec(n):
        i = counter[0]
        counter[0] += 1
        ids[id(n)] = i
        if hasattr(n, 'children'):
            return ['N', i, n.type, [rec(c) for c in n.children]]
        return ['L', i, n.type, n.prefix, n.value]
    return rec(root), ids


def node_spans(root):
    """{id(node): (start offset incl. prefix, end offset)} by walking the leaves"""
    spans = {}
    off = [0]

    def rec(n):
        s = off[0]
        if hasattr(n, 'children'):
            for c in n.children:
                rec(c)
        else:
            off[0] += len(n.prefix) + len(n.value)
        spans[id(n)] = (s, off[0])
    rec(root)
    return spans


def first_leaf_of(n):
    while hasattr(n, 'children'):
        n = n.children[0]
    return n


def line_start_offset(text, line):
    """offset of the first character of 1-based `line` (None when out of range)"""
    off = 0
    for i, l in enumerate(split_keepends(text), 1):
        if i == line:
            return off
        off += len(l)
    return None


def prefix_groups(root, node_map, old):
    """maximal rewritten nodes, merged when they touch: [(start incl. prefix, start of the first token,
    end, replacement text, [(start, end) of the prefixes of the 2nd.. merged nodes])]"""
    spans = node_spans(root)
    mapped = sorted(((spans[id(nd)], nd, s) for nd, s in node_map.items()), key=lambda x: (x[0][0], -x[0][1]))
    groups, pos = [], 0
    for (s, e), nd, text in mapped:
        if s < pos:
            continue                    # inside a node that is replaced as a whole
        vstart = s + len(first_leaf_of(nd).prefix)
        if groups and groups[-1][2] == s:
            g = groups[-1]
            groups[-1] = (g[0], g[1], e, g[3] + text, g[4] + [(s, vstart)])
        else:
            groups.append((s, vstart, e, text, []))
        pos = e
    return groups


def prefix_preserved(prefix, repl):
    """Is the text in front of a rewritten node - `prefix`: line breaks, blank lines, comment lines,
    indentation - still in front of what replaces it?  The replacement `repl` (it starts where the
    prefix started) may insert whole new lines between the lines of the prefix, nothing else; when
    the node is deleted together with the rest of its line the indentation of that line may go too.
    -> None | description of what is lost"""
    pl = split_keepends(prefix)         # l_1 .. l_m, the last one is the partial line (indentation)
    rl = split_keepends(repl)
    j = -1
    for i, l in enumerate(pl[:-1]):
        k = next((k for k in range(j + 1, len(rl)) if rl[k] == l), None)
        if k is None:
            return 'line %d of the text in front of the rewritten node, %r, is not in the new text' % (i + 1, l)
        j = k
    last = pl[-1]
    rest = rl[j + 1:]
    if ''.join(rest) == '':
        return None                     # nothing follows: the node and its line are deleted
    if len(pl) == 1:
        ok = rest[0].startswith(last)
    else:
        ok = any(r.startswith(last) for r in rest)
    return None if ok else 'the indentation %r in front of the rewritten node is not in the new text' % last


# ------------------------------------------------------------------ file system

def snapshot(root):
    snap = {}
    for d, dirs, files in os.walk(root):
        dirs[:] = [x for x in dirs if x != '__pycache__']
        for f in files:
            p = os.path.join(d, f)
            with open(p, 'rb') as fh:
                snap[os.path.relpath(p, root)] = fh.read().decode('utf-8', 'surrogateescape')
    return snap


def write_files(root, files):
    for rel, text in files.items():
        p = os.path.join(root, rel)
        os.makedirs(os.path.dirname(p), exist_ok=True)
        with open(p, 'wb') as f:
            f.write(text.encode('utf-8'))


def parts(p):
    p = str(p)
    comps = [c for c in p.split('/') if c not in ('', '.')]
    return (['/'] if p.startswith('/') else []) + comps


# ------------------------------------------------------------------ cases

EOLS = ['\n', '\n', '\r\n', '\r']


def gen_project(rng, kind):
    """-> (files {rel: text}, main rel path)"""
    eol = rng.choice(EOLS)
    uni = rng.random() < 0.35
    final = rng.random() < 0.6
    src = refactor_gen.gen_source(rng, unicode_names=uni, eol=eol, final_newline=final, rich=rng.random() < 0.7)
    files = {'mod.py': src}
    if kind == 'multi':
        # a second module that uses names of the first, and a package
        import parso
        names = [n.name.value for n in parso.parse(src).iter_funcdefs()]
        tops = re.findall(r'(?m)^([^\W\d]\w*) = ', src)
        use = (names + tops)[:2] or ['mod']
        eol2 = rng.choice(EOLS)
        lines = ['from mod import ' + ', '.join(use), 'import mod', 'import pkg', 'from pkg import sub', '']
        lines += ['r%d = %s' % (i, u) for i, u in enumerate(use)]
        lines += ['q = mod.%s' % use[0], 's = sub.val + pkg.top']
        files['other.py'] = eol2.join(lines) + (eol2 if rng.random() < 0.7 else '')
        files['pkg/__init__.py'] = 'top = 1\n'
        files['pkg/sub.py'] = 'import pkg\nval = 2\nw = pkg.top\n'
        files['pkgextra.py'] = 'import pkg\nz = pkg.top\n'
    return files, 'mod.py'


def candidate_positions(src):
    """positions worth asking about, found with python's own tokenizer-free scan (parso is used only to
    enumerate inputs, never to judge)"""
    import parso
    mod = parso.parse(src)
    names, exprs = [], []
    leaf = mod.get_first_leaf()
    while leaf is not None:
        if leaf.type == 'name':
            names.append(leaf.start_pos)
        leaf = leaf.get_next_leaf()

    def rec(n):
        if hasattr(n, 'children'):
            if n.type in ('arith_expr', 'term', 'atom', 'comparison', 'or_test', 'and_test', 'not_test', 'test',
                          'factor', 'power', 'atom_expr', 'shift_expr', 'expr', 'xor_expr', 'and_expr',
                          'expr_stmt', 'simple_stmt', 'return_stmt', 'if_stmt', 'for_stmt', 'funcdef'):
                exprs.append((n.start_pos, n.end_pos, n.type))
            for c in n.children:
                rec(c)
    rec(mod)
    return names, exprs


def gen_request(rng, src, main_rel):
    names, exprs = candidate_positions(src)
    nlines = len(split_keepends(src))
    r = rng.random()
    wild = rng.random() < 0.12

    def wild_pos():
        return rng.randint(-1, nlines + 2), rng.randint(-1, 12)
    if r < 0.28 and names:
        line, col = rng.choice(names)
        if wild:
            line, col = wild_pos()
        return {'kind': 'rename', 'line': line, 'column': col,
                'new_name': rng.choice(['renamed', 'ωmega', 'x', 'r2'])}
    if r < 0.5 and names:
        line, col = rng.choice(names)
        if wild:
            line, col = wild_pos()
        return {'kind': 'inline', 'line': line, 'column': col}
    kind = 'extract_variable' if r < 0.78 else 'extract_function'
    if not exprs:
        return {'kind': kind, 'line': 1, 'column': 0, 'new_name': 'ex', 'until_line': None, 'until_column': None}
    # expressions that are the first token of a continuation line carry a multi-line prefix
    # (line break, comment lines): prefer them a third of the time
    src_lines = src.splitlines()
    cont = [e for e in exprs if e[0][0] <= len(src_lines)
            and src_lines[e[0][0] - 1][:e[0][1]].strip() == '' and e[0][1] > 0
            and e[2] not in ('expr_stmt', 'simple_stmt', 'return_stmt', 'if_stmt', 'for_stmt', 'funcdef')]
    pool = cont if cont and rng.random() < 0.35 else exprs
    (l1, c1), (l2, c2), _ = rng.choice(pool)
    req = {'kind': kind, 'line': l1, 'column': c1, 'new_name': rng.choice(['ex', 'extracted', 'ñew']),
           'until_line': l2, 'until_column': c2}
    k = rng.random()
    if k < 0.3:
        req['until_line'] = req['until_column'] = None
    elif k < 0.4:
        req['until_line'] = None
    elif k < 0.5:
        req['until_column'] = None
    elif k < 0.6:
        # a range that is not a node: from one candidate's start to another's end
        (_, _), (l2, c2), _ = rng.choice(exprs)
        req['until_line'], req['until_column'] = l2, c2
    if wild:
        w = rng.random()
        if w < 0.4:
            req['until_line'] = rng.choice([0, -1, -3, nlines + 1, nlines + 3, nlines, 5])
            if rng.random() < 0.6:
                req['until_column'] = None
        elif w < 0.6:
            req['until_column'] = rng.choice([-1, 99, 0])
        else:
            req['line'], req['column'] = wild_pos()
    return req


def module_rename_request(rng):
    t = rng.random()
    if t < 0.4:
        return {'kind': 'rename', 'file': 'other.py', 'line': 2, 'column': 7, 'new_name': 'modnew'}   # import mod
    if t < 0.7:
        return {'kind': 'rename', 'file': 'other.py', 'line': 3, 'column': 7, 'new_name': 'pk'}       # import pkg
    return {'kind': 'rename', 'file': 'other.py', 'line': 4, 'column': 16, 'new_name': 'subnew'}      # sub


def call_refactoring(script, req):
    k = req['kind']
    if k == 'rename':
        return script.rename(req['line'], req['column'], new_name=req['new_name'])
    if k == 'inline':
        return script.inline(req['line'], req['column'])
    kw = {}
    if req.get('until_line') is not None:
        kw['until_line'] = req['until_line']
    if req.get('until_column') is not None:
        kw['until_column'] = req['until_column']
    f = script.extract_variable if k == 'extract_variable' else script.extract_function
    return f(req['line'], req['column'], new_name=req['new_name'], **kw)


def sandbox_quirk(e):
    """exceptions caused by the empty typeshed of this sandbox (DESIGN section 3), not by jedi"""
    for fr in traceback.extract_tb(e.__traceback__):
        fn = fr.filename.replace('\\', '/')
        if '/inference/compiled/' in fn or '/gradual/typeshed' in fn or fr.name in (
                'builtin_from_name', '_load_from_typeshed', 'py__class__'):
            return True
    return False


HOW = ("write input.files under an empty directory W; P = W/<input.project>; project = jedi.Project(P, "
       "sys_path=[W/d for d in input.sys_path], added_sys_path=[W/d for d in input.added_sys_path], "
       "smart_sys_path=False); s = jedi.Script(path=W/<input.file>, project=project) - or, when input.file "
       "is null, the unsaved buffer jedi.Script(input.request.code, path=None, project=project); "
       "r = s.<kind>(line, column, **args); compare r.get_diff() (every `--- a`/`+++ b` header and "
       "`rename from/to` line joined to P), r.get_changed_files()[p].get_new_code(), r.get_renames(), "
       "the directory W before/after r.apply()  (or: ./check C07 --replay <this file>)")


class RecCtx:
    """records what run_case reports, so that cases can run in worker processes
    (common.parallel_map) and be fed to the real Ctx in order afterwards"""

    def __init__(self):
        self.events = []
        self.violations = []

    def count(self, stream, case_key=None, nontrivial=True, sample=None, bucket=None):
        self.events.append(['count', stream, case_key, nontrivial, sample, bucket])

    def fail(self, stream, what, case, expected=None, observed=None, kind='property', how=None):
        self.events.append(['fail', stream, what, case, expected, observed, kind, how])

    def tie_broken(self, name, detail=''):
        self.events.append(['tie', name, detail])


def feed(ctx, events):
    for e in events:
        if e[0] == 'count':
            key = e[2]
            if isinstance(key, list):
                key = tuple(key)
            ctx.count(e[1], key, nontrivial=e[3], sample=e[4], bucket=e[5])
        elif e[0] == 'fail':
            ctx.fail(e[1], e[2], e[3], expected=e[4], observed=e[5], kind=e[6], how=e[7])
        else:
            ctx.tie_broken(e[1], e[2])


def inside(path, base):
    """component-wise: is `path` the directory `base` or below it"""
    path, base = os.path.normpath(str(path)), os.path.normpath(str(base))
    return path == base or path.startswith(base.rstrip('/') + '/')


def resolve(shown, project_path):
    """a name as the diff shows it -> the file it names: relative names are relative to the project,
    absolute names are themselves"""
    return os.path.normpath(os.path.join(project_path, shown))


def moved_to(path, renames):
    """where the renames (absolute pairs, in order) leave `path`, component-wise"""
    path = os.path.normpath(str(path))
    for a, b in renames:
        a, b = os.path.normpath(str(a)), os.path.normpath(str(b))
        if path == a or path.startswith(a + '/'):
            path = b + path[len(a):]
    return path


_RENAME = re.compile(r'rename from (.*)\nrename to (.*)\n')


def split_whole_diff(text):
    """Refactoring.get_diff() -> ([(from, to)] of the leading `rename` lines, the rest of the text,
    [(old, new)] of every file section in the rest: a `--- a` line, a `+++ b` line, a `@@` line)"""
    pairs, pos = [], 0
    while True:
        m = _RENAME.match(text, pos)
        if not m:
            break
        pairs.append((m.group(1), m.group(2)))
        pos = m.end()
    rest = text[pos:]
    lines = split_keepends(rest)
    heads = []
    for i in range(len(lines) - 2):
        a, b, c = lines[i:i + 3]
        if a.startswith('--- ') and b.startswith('+++ ') and c.startswith('@@ ') \
                and a.endswith('\n') and b.endswith('\n') and not a.endswith('\r\n'):
            heads.append((a[4:-1], b[4:-1]))
    return pairs, rest, heads


def layout_of(case):
    return case.get('project', ''), case.get('sys_path', ['']), case.get('added_sys_path', [])


def run_case(ctx, n, files, main_rel, req, do_apply, reqs, pending, verbose=False, layout=None):
    """runs one request on the real code, evaluates the direct oracle, queues model requests"""
    import jedi
    from jedi.api.exceptions import RefactoringError
    root = os.path.join(SCRATCH, 'run-%d' % os.getpid(), 'c%d' % n)
    shutil.rmtree(root, ignore_errors=True)
    os.makedirs(root)
    case = {'files': files, 'file': req.get('file', main_rel), 'request': req, 'apply': do_apply}
    # a Script without a path (an unsaved buffer): `file` is None, the text is request.code
    pathless = case['file'] is None
    src_text = req['code'] if pathless else files[case['file']]
    src_key = (src_text, json.dumps(req, sort_keys=True))
    if layout:
        case.update({k: layout[k] for k in ('project', 'sys_path', 'added_sys_path') if k in layout})
    proj_rel, sys_rel, added_rel = layout_of(case)
    P = os.path.normpath(os.path.join(root, proj_rel))

    def mask(x):
        """scratch directory -> <W> in everything that is reported"""
        if isinstance(x, str):
            return x.replace(root, '<W>')
        if isinstance(x, (list, tuple)):
            return [mask(y) for y in x]
        if isinstance(x, dict):
            return {mask(k): mask(v) for k, v in x.items()}
        return x

    def rel_w(p):
        return os.path.relpath(str(p), root)
    try:
        write_files(root, files)
        os.makedirs(P, exist_ok=True)
        for d in list(sys_rel) + list(added_rel):
            os.makedirs(os.path.join(root, d), exist_ok=True)
        snap0 = snapshot(root)
        target = None if pathless else os.path.join(root, case['file'])
        project = jedi.Project(P, sys_path=[os.path.normpath(os.path.join(root, d)) for d in sys_rel],
                               added_sys_path=[os.path.normpath(os.path.join(root, d)) for d in added_rel],
                               smart_sys_path=False)
        try:
            script = jedi.Script(src_text, path=None, project=project) if pathless else \
                jedi.Script(path=target, project=project)
            ref = call_refactoring(script, req)
            exc = None
        except (RefactoringError, ValueError) as e:
            exc = e
            ref = None
        except Exception as e:
            cls, site = common.exc_site(e)
            if sandbox_quirk(e):
                ctx.count('raised-sandbox', None, nontrivial=False, bucket='%s@%s' % (cls, site))
                return
            ctx.count('oracle-exceptions', src_key, bucket=cls)
            ctx.fail('oracle-exceptions', 'refactoring request raised %s (only RefactoringError / ValueError '
                     'are allowed)' % cls, dict(case, exception=cls), expected=list(ALLOWED_EXC),
                     observed={'class': cls, 'site': site, 'message': mask(str(e)[:200])}, how=HOW)
            if verbose:
                traceback.print_exc()
            return
        # --- until prologue correspondence (extract_*) ---------------------------------
        if req['kind'] in ('extract_variable', 'extract_function'):
            text = src_text
            lens = [len(l) for l in split_keepends(text)]
            line, col = req['line'], req['column']
            in_range = isinstance(line, int) and 0 < line <= len(lens)
            if in_range:
                ll = lens[line - 1] - (2 if split_keepends(text)[line - 1].endswith('\r\n') else
                                       1 if split_keepends(text)[line - 1].endswith('\n') else 0)
                in_range = 0 <= col <= ll
            if in_range:
                reqs.append({'op': 'until', 'lens': lens, 'line': line, 'ul': req.get('until_line'),
                             'uc': req.get('until_column')})
                # what the prologue did: IndexError is impossible here (it would have been reported above)
                pending.append(('until', case, 'no-IndexError'))
        ctx.count('oracle-exceptions', src_key, nontrivial=True,
                  bucket=req['kind'] + ('/pathless' if pathless else '')
                  + ('/refused:' + type(exc).__name__ if exc else '/ok'))
        if exc is not None:
            snap1 = snapshot(root)
            if snap1 != snap0:
                ctx.fail('oracle-inspect', 'a refused request changed the disk', case,
                         observed=diff_snap(snap0, snap1), how=HOW)
            return
        # --- inspection ------------------------------------------------------------------
        # every inspect method on its own: each of them has to answer (an exception of any class means
        # there is no diff / no list of files for a result the request has just handed out)
        raised = []         # (method, exception)

        def attempt(method, f):
            try:
                return f()
            except Exception as e:
                raised.append((method, e))
                if verbose:
                    traceback.print_exc()
                return None
        renames = attempt('Refactoring.get_renames', lambda: list(ref.get_renames()))
        changed = attempt('Refactoring.get_changed_files', ref.get_changed_files)
        whole_diff = attempt('Refactoring.get_diff', ref.get_diff)
        info = []
        for path, cf in (changed or {}).items():
            info.append({'path': path, 'cf': cf,
                         'new': attempt('ChangedFile.get_new_code', cf.get_new_code),
                         'diff': attempt('ChangedFile.get_diff', cf.get_diff),
                         'old': cf._module_node.get_code()})
        # which part of the domain: a result with / without a path, carrying file renames or not
        dom = '%s/%s' % ('pathless' if pathless else 'path',
                         'no-answer' if renames is None else 'renames' if renames else 'no-renames')
        if pathless and changed is not None:
            dom += '/alone' if len(changed) <= 1 else '/+files'
        for method in ('Refactoring.get_renames', 'Refactoring.get_changed_files', 'Refactoring.get_diff'):
            ctx.count('oracle-inspect-methods', src_key + (method,), nontrivial=bool(renames),
                      bucket='%s %s' % (method, dom))
        if raised:
            if all(sandbox_quirk(e) for _, e in raised):
                cls, site = common.exc_site(raised[0][1])
                ctx.count('raised-sandbox', None, nontrivial=False, bucket='%s@%s' % (cls, site))
                return
            seen = set()
            for method, e in raised:
                cls, site = common.exc_site(e)
                if sandbox_quirk(e) or (method, cls) in seen:
                    continue
                seen.add((method, cls))
                ctx.fail('oracle-inspect', '%s() of a refactoring result raised %s: the result cannot be '
                         'inspected' % (method, cls), dict(case, exception=cls, method=method, domain=dom),
                         expected='an answer (no exception)',
                         observed={'class': cls, 'site': site, 'message': mask(str(e)[:200])}, how=HOW)
            snap1 = snapshot(root)
            if snap1 != snap0:
                ctx.fail('oracle-inspect', 'inspecting (with an exception) changed the disk', case,
                         observed=diff_snap(snap0, snap1), how=HOW)
            if do_apply:
                # what can still be judged without the announced contents: apply() fails with nothing but
                # RefactoringError, and a refusal writes nothing
                try:
                    ref.apply()
                    aerr = None
                except RefactoringError as e:
                    aerr = e
                except Exception as e:
                    cls, site = common.exc_site(e)
                    ctx.fail('oracle-apply', 'apply() raised %s' % cls, dict(case, domain=dom),
                             expected='RefactoringError or success',
                             observed={'class': cls, 'site': site, 'message': mask(str(e)[:200]),
                                       'disk': diff_snap(snap0, snapshot(root))}, how=HOW)
                    return
                if aerr is not None and snapshot(root) != snap0:
                    ctx.fail('oracle-apply', 'apply() refused with RefactoringError but changed the disk',
                             dict(case, domain=dom), expected='no change',
                             observed=diff_snap(snap0, snapshot(root)), how=HOW)
            return
        snap1 = snapshot(root)
        ctx.count('oracle-inspect', src_key, nontrivial=bool(info), bucket=req['kind'] + ('/pathless' if pathless else ''))
        if snap1 != snap0:
            ctx.fail('oracle-inspect', 'get_diff/get_new_code/get_changed_files/get_renames changed the disk',
                     case, observed=diff_snap(snap0, snap1), how=HOW)
        if verbose:
            print('project:', mask(P), ' renames:', mask([(str(a), str(b)) for a, b in renames]))
            print('diff:\n' + mask(whole_diff))
        # --- per file: names, bytes, patch ---------------------------------------------------
        abs_renames = [(os.path.normpath(str(a)), os.path.normpath(str(b))) for a, b in renames]
        rel_renames = [(rel_w(a), rel_w(b)) for a, b in abs_renames]
        sections = []       # (old header, new header, rel of the changed file, its new code)
        for it in info:
            path, cf = it['path'], it['cf']
            rel = rel_w(path) if path is not None else None
            it['rel'] = rel
            key = src_key if path is None else (files.get(rel, ''), json.dumps(req, sort_keys=True))
            fcase = dict(case, changed_file=rel)
            if path is None:
                # the entry without a path is the Script's own buffer, and only a path-less Script has one
                if not pathless:
                    ctx.fail('oracle-names', 'get_changed_files() has an entry without a path although the '
                             'Script has one', fcase, observed={'old': it['old']}, how=HOW)
                    continue
                if it['old'] != src_text:
                    ctx.fail('oracle-names', 'the ChangedFile without a path was computed from a different '
                             'text than the buffer holds', fcase, expected=src_text, observed=it['old'], how=HOW)
            elif rel not in snap0:
                ctx.fail('oracle-names', 'get_changed_files() names a path that is not a file of the project',
                         fcase, observed={'path': mask(str(path))}, how=HOW)
                continue
            elif snap0[rel] != it['old']:
                ctx.fail('oracle-names', 'the ChangedFile for this path was computed from a different text '
                         'than the file holds', fcase, expected=snap0[rel], observed=it['old'], how=HOW)
            # bytes outside the rewritten nodes
            spans = node_spans(cf._module_node)
            mapped = sorted(((spans[id(nd)], s) for nd, s in cf._node_to_str_map.items()),
                            key=lambda x: (x[0][0], -x[0][1]))
            expect, pos = [], 0
            for (s, e), text in mapped:
                if s < pos:
                    continue        # inside an already replaced node
                expect.append(it['old'][pos:s]); expect.append(text); pos = e
            expect.append(it['old'][pos:])
            ctx.count('oracle-bytes', key, nontrivial=bool(mapped), bucket='nodes=%d' % min(len(mapped), 5))
            if ''.join(expect) != it['new']:
                ctx.fail('oracle-bytes', 'text outside the rewritten nodes is not preserved byte for byte',
                         fcase, expected=''.join(expect), observed=it['new'], how=HOW)
            # the text in front of every rewritten node (its parso prefix: line break, comment and blank
            # lines, indentation) is text outside the node as well: it must survive in the replacement,
            # with nothing but whole new lines inserted.  For extract_* the part of the prefix from the
            # line of the selection start on is selected text, not judged.
            sel_off = None
            if req['kind'] in ('extract_variable', 'extract_function') and rel == case['file'] \
                    and isinstance(req.get('line'), int):
                sel_off = line_start_offset(it['old'], req['line'])
            multi = cont = False
            sel_end = None
            if sel_off is not None and isinstance(req.get('until_line'), int):
                sel_end = line_start_offset(it['old'], req['until_line'] + 1)
            for gi, (gs, gv, ge, text, inner) in enumerate(
                    prefix_groups(cf._module_node, cf._node_to_str_map, it['old'])):
                # comments in front of the 2nd.. node of a run of rewritten nodes (e.g. the comment after a
                # statement that `inline` removes) are outside the nodes too; inside the selected lines of an
                # extract request they are selected text
                for (ps, pe) in inner:
                    if sel_off is not None and ps >= sel_off and (sel_end is None or pe <= sel_end):
                        continue
                    for c in re.findall(r'#[^\r\n]*', it['old'][ps:pe]):
                        if c not in it['new']:
                            ctx.fail('oracle-bytes', 'a comment between rewritten nodes is lost',
                                     dict(fcase, shape=refactor_shapes.c07_shape_of(it['old'], req), prefix=c),
                                     expected={'comment': c}, observed={'new_code': it['new']}, how=HOW)
                pfx = it['old'][gs:gv]
                if sel_off is not None and gs <= sel_off < gv:
                    pfx = it['old'][gs:sel_off]
                multi = multi or ('\n' in pfx or '\r' in pfx)
                # a rewritten node that is the first token of a continuation line (not the leaf the new
                # line is inserted before)
                cont = cont or (gi > 0 and ('\n' in pfx or '\r' in pfx))
                lost = prefix_preserved(pfx, text)
                if lost is not None:
                    ctx.fail('oracle-bytes', 'text in front of a rewritten node is not preserved: ' + lost,
                             dict(fcase, shape=refactor_shapes.c07_shape_of(it['old'], req), prefix=pfx), expected={'text_in_front_of_the_node': pfx}, observed={'replacement': text, 'new_code': it['new']},
                             how=HOW)
            ctx.count('oracle-prefix', key, nontrivial=multi,
                      bucket='%s/%s/%s' % (req['kind'], 'continuation-line-node' if cont else
                                           'multi-line-prefix' if multi else 'one-line-prefix',
                                           eol_kind(it['old']).split('/')[0]))
            # patch
            old_l, new_l = norm_lines(it['old']), norm_lines(it['new'])
            ctx.count('oracle-patch', key, nontrivial=it['old'] != it['new'],
                      bucket='%s/%s' % (req['kind'], eol_kind(it['old'])),
                      sample={'request': req, 'diff': mask(it['diff'][:300])})
            try:
                parsed = parse_unified(it['diff'])
                if it['old'] == it['new']:
                    if it['diff'] != '':
                        raise PatchError('non-empty diff for an unchanged file')
                else:
                    if len(parsed) != 1:
                        raise PatchError('%d file sections in a ChangedFile diff' % len(parsed))
                    got = apply_hunks(parsed[0]['hunks'], old_l)
                    if got != new_l:
                        ctx.fail('oracle-patch', 'applying get_diff() to the old file does not give '
                                 'get_new_code()', fcase, expected=new_l, observed=got, how=HOW)
                    # the names: `--- a` is this file, `+++ b` is where the renames of the same refactoring
                    # leave it; both read back against the project path; a file inside the project is named
                    # relative to it
                    h_old, h_new = parsed[0]['old'], parsed[0]['new']
                    if path is None:
                        # a buffer has no name: its section names no file (the empty name), whatever
                        # renames the refactoring carries
                        ctx.count('oracle-names', key, nontrivial=bool(abs_renames),
                                  bucket='pathless/' + ('changed, renames elsewhere' if abs_renames else 'changed'))
                        if h_old != '' or h_new != '':
                            ctx.fail('oracle-names', 'the diff section of the buffer without a path names a file',
                                     fcase, expected={'---': '', '+++': ''},
                                     observed=mask({'---': h_old, '+++': h_new}), how=HOW)
                        raise _Done()
                    from_abs = os.path.normpath(str(path))
                    to_abs = moved_to(from_abs, abs_renames)
                    sections.append((h_old, h_new, rel, it['new']))
                    loc = 'inside' if inside(from_abs, P) else 'outside'
                    ctx.count('oracle-names', key, nontrivial=to_abs != from_abs or loc == 'outside',
                              bucket='%s/%s' % (loc, 'changed+moved' if to_abs != from_abs else 'changed'))
                    bad = []
                    if resolve(h_old, P) != from_abs:
                        bad.append('`--- %s` does not name the changed file' % mask(h_old))
                    if resolve(h_new, P) != to_abs:
                        bad.append('`+++ %s` does not name the file after the renames' % mask(h_new))
                    if inside(from_abs, P) and os.path.isabs(h_old) or inside(to_abs, P) and os.path.isabs(h_new):
                        bad.append('a file inside the project is not named relative to it')
                    if bad:
                        ctx.fail('oracle-names', 'diff header does not name the changed file (and its name '
                                 'after the renames), read against the project path', dict(fcase, where=loc),
                                 expected=mask({'---': from_abs, '+++': to_abs, 'project': P}),
                                 observed=mask({'---': h_old, '+++': h_new, 'problems': bad}), how=HOW)
            except _Done:
                pass
            except PatchError as e:
                ctx.fail('oracle-patch', 'get_diff() is not a well-formed unified diff for this file: %s' % e,
                         fcase, observed=mask(it['diff']), how=HOW)
            # model requests
            tree, ids = dump_tree(cf._module_node)
            m = [[ids[id(nd)], s] for nd, s in cf._node_to_str_map.items()]
            it['tree'], it['map'] = tree, m
            reqs.append({'op': 'render', 'tree': tree, 'map': m})
            pending.append(('render', fcase, {'old': it['old'], 'new': it['new']}))
            groups = [[list(o) for o in g] for g in
                      difflib.SequenceMatcher(None, old_l, new_l).get_grouped_opcodes(3)]
            reqs.append({'op': 'diff', 'project': parts(P), 'from': None if path is None else parts(path),
                         'renames': [[parts(a), parts(b)] for a, b in renames],
                         'old': it['old'], 'new': it['new'], 'groups': groups})
            pending.append(('diff', fcase, {'old': it['old'], 'new': it['new'], 'diff': it['diff']}))
        # --- the whole diff, read on its own: rename lines, then one section per changed file -------
        pairs, rest, heads = split_whole_diff(whole_diff)
        file_diffs = ''.join(it['diff'] for it in info)
        if rest != file_diffs:
            ctx.fail('oracle-names', 'Refactoring.get_diff() is not the rename list followed by the diffs of '
                     'get_changed_files()', case, expected=mask(file_diffs), observed=mask(whole_diff), how=HOW)
        got_pairs = [(resolve(a, P), resolve(b, P)) for a, b in pairs]
        rel_form = all(not (os.path.isabs(x) and inside(resolve(x, P), P)) for pr in pairs for x in pr)
        if sorted(got_pairs) != sorted(abs_renames) or not rel_form:
            ctx.fail('oracle-names', 'the `rename from/to` lines of get_diff(), read against the project path, '
                     'are not the pairs of get_renames()', case, expected=mask(abs_renames),
                     observed=mask({'lines': pairs, 'resolved': got_pairs}), how=HOW)
        # the entry without a path is named by the empty name, and only that one is
        touched = sorted(('' if it['path'] is None else os.path.normpath(str(it['path'])))
                         for it in info if it['old'] != it['new'])
        if sorted(('' if a == '' else resolve(a, P)) for a, _ in heads) != touched:
            ctx.fail('oracle-names', 'the files named by the `---` headers of get_diff() are not the keys of '
                     'get_changed_files()', case, expected=mask(touched), observed=mask(heads), how=HOW)
        for a, b in rel_renames:
            if not (a in snap0 or any(k.startswith(a + '/') for k in snap0)):
                ctx.fail('oracle-names', 'get_renames() names a source that does not exist', case,
                         observed=[a, b], how=HOW)
        # a rename whose target is taken (a file, or a directory with files): what the diff announces
        # cannot all come true; the input class is named so that reports about it can be told apart
        taken = [[a, b] for a, b in rel_renames
                 if a != b and (b in snap0 or any(k.startswith(b + '/') for k in snap0))]
        acase = dict(case, shape='rename-target-exists', taken=taken) if taken else case
        news = [resolve(h_new, P) for _, h_new, _, _ in sections]
        twice = sorted({mask(x) for x in news if news.count(x) > 1})
        if twice:
            ctx.fail('oracle-names', 'get_diff() announces different contents for one file name: two `+++` headers '
                     'name the same file', acase, expected='one section per name',
                     observed={'+++': twice, 'diff': mask(whole_diff)}, how=HOW)
        # which part of the domain this case is in: per file of the world
        classes = set()
        changed_rels = {it.get('rel') for it in info if it.get('rel') in snap0 and it['old'] != it['new']}
        for k in snap0:
            a = os.path.join(root, k)
            mv = moved_to(a, abs_renames) != os.path.normpath(a)
            ch = k in changed_rels
            if mv or ch:
                classes.add('%s/%s' % ('inside' if inside(a, P) else 'outside',
                                       'changed+moved' if mv and ch else 'moved' if mv else 'changed'))
        for c in sorted(classes) or ['nothing-touched']:
            ctx.count('oracle-layout', (json.dumps(files, sort_keys=True), json.dumps(req, sort_keys=True), c),
                      nontrivial=c != 'nothing-touched', bucket=c)
        ctx.count('oracle-layout-world', None, nontrivial=False,
                  bucket='project=%s renames=%d%s' % (proj_rel or '.', len(renames),
                                                      ' added_sys_path' if added_rel else ''))
        reqs.append({'op': 'renames', 'project': parts(P),
                     'renames': [[parts(a), parts(b)] for a, b in renames]})
        pending.append(('renames', case, {'text': whole_diff[:len(whole_diff) - len(rest)]}))
        # --- apply --------------------------------------------------------------------------
        if not do_apply:
            return
        try:
            ref.apply()
            aerr = None
        except RefactoringError as e:
            aerr = e
        except Exception as e:
            cls, site = common.exc_site(e)
            ctx.fail('oracle-apply', 'apply() raised %s' % cls, acase,
                     observed={'class': cls, 'site': site, 'message': mask(str(e)[:200]),
                               'disk': diff_snap(snap0, snapshot(root))}, how=HOW)
            return
        expected = dict(snap0)
        for it in info:
            if it.get('rel') in expected:
                expected[it['rel']] = it['new']
        for a, b in rel_renames:
            for k in list(expected):
                if k == a or k.startswith(a + '/'):
                    expected[b + k[len(a):]] = expected.pop(k)
        snap2 = snapshot(root)
        ctx.count('oracle-apply', (json.dumps(files, sort_keys=True), json.dumps(req, sort_keys=True)),
                  nontrivial=snap2 != snap0 or pathless,
                  bucket=req['kind'] + ('/pathless' if pathless else '') + ('/renames' if renames else '')
                  + ('/target-exists' if taken else ''),
                  sample={'request': req, 'renames': rel_renames, 'changed': [it.get('rel') for it in info]})
        buffer_changed = any(it['path'] is None for it in info)
        if buffer_changed:
            # the announced text of the buffer has no file to go to: apply() cannot come true, it has to
            # refuse (RefactoringError), and a refusal leaves the disk as it was
            nfiles = sum(1 for it in info if it['path'] is not None)
            pcase = dict(case, domain='pathless/%s/%s' % ('renames' if renames else 'no-renames',
                                                          '+files' if nfiles else 'alone'))
            if aerr is None:
                ctx.fail('oracle-apply', 'apply() of a result that changes a buffer without a path did not '
                         'refuse', pcase, expected='RefactoringError',
                         observed={'disk': diff_snap(snap0, snap2)}, how=HOW)
            elif snap2 != snap0:
                ctx.fail('oracle-apply', 'apply() refused with RefactoringError but the refactoring is half '
                         'applied: files were written (and nothing renamed)',
                         dict(pcase, shape='pathless-apply-half-applied'), expected='no change on disk',
                         observed={'message': mask(str(aerr)), 'disk': diff_snap(snap0, snap2)}, how=HOW)
        elif aerr is not None:
            ctx.fail('oracle-apply', 'apply() refused on a project with paths', case,
                     observed={'message': mask(str(aerr))}, how=HOW)
        elif snap2 != expected:
            ctx.fail('oracle-apply', 'after apply() the files do not hold exactly the announced contents '
                     'and names', acase, expected=diff_snap(snap0, expected), observed=diff_snap(snap0, snap2),
                     how=HOW)
        # the diff as a client reads it: every `+++ b` is now a file holding the announced text, every
        # `--- a` that differs from its `+++ b` is gone
        if aerr is None and not buffer_changed:
            for h_old, h_new, rel, new_code in sections:
                a, b = resolve(h_old, P), resolve(h_new, P)
                problems = []
                if snap2.get(rel_w(b)) is None:
                    problems.append('there is no file `%s` after apply()' % mask(b))
                elif snap2[rel_w(b)] != new_code:
                    problems.append('`%s` does not hold get_new_code() after apply()' % mask(b))
                if a != b and rel_w(a) in snap2:
                    problems.append('`%s` still exists after apply()' % mask(a))
                if problems:
                    ctx.fail('oracle-apply', 'after apply() the names announced by the `---`/`+++` headers of '
                             'get_diff() are not the files that hold the announced contents',
                             dict(acase, changed_file=rel),
                             expected=mask({'+++': b, 'holds': new_code, 'gone': a if a != b else None}),
                             observed={'problems': problems, 'files_now': sorted(snap2)}, how=HOW)
        query = sorted(set(snap0) | set(snap2) | set(expected))
        if all('tree' in it for it in info):
            reqs.append({'op': 'fs', 'req': 'apply', 'linesep': os.linesep,
                         'files': [[parts(os.path.join(root, k)), v] for k, v in sorted(snap0.items())],
                         'changes': [{'path': None if it['path'] is None else parts(it['path']),
                                      'tree': it['tree'], 'map': it['map']} for it in info],
                         'renames': [[parts(a), parts(b)] for a, b in renames],
                         'query': [parts(os.path.join(root, k)) for k in query]})
            pending.append(('fs', case, {'query': query, 'snap': snap2,
                                         'err': 'RefactoringError' if aerr is not None else None}))
    finally:
        shutil.rmtree(root, ignore_errors=True)
        try:
            os.rmdir(os.path.dirname(root))
        except OSError:
            pass


def eol_kind(s):
    k = 'crlf' if '\r\n' in s else 'cr' if '\r' in s else 'lf'
    return k + ('' if s.endswith(('\n', '\r')) else '/nofinal')


def diff_snap(a, b):
    out = {}
    for k in sorted(set(a) | set(b)):
        if a.get(k) != b.get(k):
            out[k] = {'before': a.get(k), 'after': b.get(k)}
    return out


# ------------------------------------------------------------------ fixed probes

def fixed_cases():
    """(files, main, request, apply, layout) kept alive every run: DESIGN section 6 F3 and edge shapes"""
    out = []
    f3 = {'mod.py': 'x = 1 + 2\n'}
    for ul in (5, -3):
        out.append((f3, 'mod.py', {'kind': 'extract_variable', 'line': 1, 'column': 4, 'new_name': 'y',
                                   'until_line': ul, 'until_column': None}, False, None))
        out.append((f3, 'mod.py', {'kind': 'extract_function', 'line': 1, 'column': 4, 'new_name': 'y',
                                   'until_line': ul, 'until_column': None}, False, None))
    out.append(({'mod.py': 'def f():\n    return x\nx = 1'}, 'mod.py', {'kind': 'inline', 'line': 3, 'column': 0}, True, None))
    out.append(({'mod.py': 'x = 1\r\ny = x\r\n'}, 'mod.py', {'kind': 'rename', 'line': 1, 'column': 0, 'new_name': 'x'}, True, None))
    out.append(({'mod.py': ''}, 'mod.py', {'kind': 'rename', 'line': 1, 'column': 0, 'new_name': 'x'}, True, None))
    out.append(({'mod.py': 'a = 1\rb = a\r'}, 'mod.py', {'kind': 'inline', 'line': 1, 'column': 0}, True, None))
    # a package whose name is a string prefix of a sibling module that is changed too
    out.append(({'pkg/__init__.py': 'top = 1\n', 'pkgextra.py': 'import pkg\nz = pkg.top\n', 'main.py': 'import pkg\nimport pkgextra\n'},
                'main.py', {'kind': 'rename', 'file': 'main.py', 'line': 1, 'column': 7, 'new_name': 'pk'}, True, None))
    # a module / a package renamed onto an existing one (known finding C07-rename-target-exists)
    out.append(({'mod.py': 'import mod\nv = 1\n', 'other.py': 'import mod\nk = mod.v\n'}, 'other.py',
                {'kind': 'rename', 'file': 'other.py', 'line': 1, 'column': 8, 'new_name': 'other'}, True, None))
    out.append(({'pkg/__init__.py': 'v = 1\n', 'pk/__init__.py': 'w = 2\n', 'main.py': 'import pkg\nimport pk\nk = pkg.v\n'},
                'main.py', {'kind': 'rename', 'file': 'main.py', 'line': 1, 'column': 8, 'new_name': 'pk'}, True, None))
    return out


def place(files, main, req, prefix, project):
    """the same project, but every file below `prefix` and the jedi Project at `project`"""
    req = dict(req)
    if 'file' in req:
        req['file'] = prefix + '/' + req['file']
    return ({prefix + '/' + k: v for k, v in files.items()}, prefix + '/' + main, req,
            dict(project=project, sys_path=[project, prefix], added_sys_path=[]))


def world_items(ctx):
    """cases on generated worlds (gen/refactor_layouts.py): the whole small-scope grid of
    project x kind of importable thing x where it lives x self reference x sys.path mode in the
    thorough tier, a stratified sample of it in the quick tier"""
    rng = ctx.subrng('worlds')
    cells = refactor_layouts.grid()
    items = []
    if ctx.quick:
        # every (where, selfref) stratum is hit; the other coordinates are sampled
        strata = {}
        for c in cells:
            strata.setdefault((c['where'], c['selfref'], c['project'] == ''), []).append(c)
        chosen = []
        for k in sorted(strata, key=repr):
            chosen += rng.sample(strata[k], min(len(strata[k]), 6 if k[0] in ('out', 'outprefix') else 3))
        per_world, variants = 3, 1
    else:
        chosen, per_world, variants = cells, 0, 3
    for c in chosen:
        for v in range(variants):
            w = refactor_layouts.make_world(rng, **c)
            lay = dict(project=w['project'], sys_path=w['sys_path'], added_sys_path=w['added_sys_path'])
            for req in refactor_layouts.requests_for(rng, w, per_world, exhaustive=not ctx.quick and v == 0):
                items.append({'files': w['files'], 'file': req['file'], 'request': req,
                              'apply': rng.random() < 0.7, 'layout': lay})
            # the same world asked from its unsaved buffers (Scripts without a path)
            for req in refactor_layouts.requests_for(rng, w, 2 if ctx.quick else 4, buffers=True,
                                                     exhaustive=not ctx.quick and v == 0):
                items.append({'files': w['files'], 'file': None, 'request': req,
                              'apply': rng.random() < 0.7, 'layout': lay})
            if not ctx.quick and v > 0:
                for req in refactor_layouts.requests_for(rng, w, 4):
                    items.append({'files': w['files'], 'file': req['file'], 'request': req,
                                  'apply': rng.random() < 0.7, 'layout': lay})
    return items


# ------------------------------------------------------------------ driver

def work(item):
    """one case in a worker process (or in-process) -> what it reported, JSON-able"""
    rec = RecCtx()
    reqs, pending = [], []
    run_case(rec, item['n'], item['files'], item['file'], item['request'], item['apply'], reqs, pending,
             layout=item.get('layout'))
    return {'events': rec.events, 'reqs': reqs, 'pending': [list(p) for p in pending]}


def compare(ctx, reqs, pending, answers):
    for (kind, case, it), req, ans in zip(pending, reqs, answers):
        if isinstance(ans, dict) and 'error' in ans and kind != 'diff':
            raise common.InfraError('driver error: %r' % ans)
        key = json.dumps(req, sort_keys=True)
        if kind == 'render':
            ctx.count('render', key, nontrivial=bool(req['map']), bucket='map=%d' % min(len(req['map']), 5))
            if ans['code'] != it['old'] or ans['render'] != it['new']:
                ctx.tie_broken('correspondence:render',
                               short({'case': case, 'model': ans['render'], 'impl': it['new']}, 1500))
        elif kind == 'diff':
            outside = req['from'] is not None and req['from'][:len(req['project'])] != req['project']
            ctx.count('diff', key, nontrivial=it['old'] != it['new'],
                      bucket=eol_kind(it['old']) + ('/outside-project' if outside else '')
                      + ('/pathless' + ('+renames' if req['renames'] else '') if req['from'] is None else ''))
            want_b = norm_lines(it['new'])
            ok = ans.get('valid') is True and ans.get('text') == it['diff'] and ans.get('applied') == want_b
            if not ok:
                ctx.tie_broken('correspondence:diff', short(
                    {'case': case, 'valid': ans.get('valid'), 'model_text': ans.get('text'),
                     'impl_text': it['diff'], 'applied_ok': ans.get('applied') == want_b}, 2500))
        elif kind == 'renames':
            ctx.count('renames', key, nontrivial=bool(req['renames']), bucket='renames=%d' % len(req['renames']))
            if ans != it['text']:
                ctx.tie_broken('correspondence:renames', short({'case': case, 'model': ans, 'impl': it['text']}, 1500))
        elif kind == 'fs':
            ctx.count('fs', key, nontrivial=True, bucket='renames=%d' % len(req['renames']))
            model = {q: c for q, (_, c) in zip(it['query'], ans['files']) if c is not None}
            if ans['err'] != it.get('err') or model != it['snap']:
                ctx.tie_broken('correspondence:fs', short(
                    {'case': case, 'model_err': ans['err'], 'model': diff_snap(it['snap'], model)}, 2000))
        elif kind == 'until':
            ctx.count('until', key, nontrivial=req['ul'] is not None or req['uc'] is not None,
                      bucket='ul=%s uc=%s' % (req['ul'] is not None, req['uc'] is not None))
            if ans == 'IndexError':
                ctx.tie_broken('correspondence:until', short({'case': case, 'model': ans,
                                                              'impl': 'no IndexError'}))


def run_driver_chunks(reqs, jobs=4):
    """the interpreted driver is a single process: a medium-sized request list is split over a few"""
    if len(reqs) >= 4000 or len(reqs) < 600:
        return common.run_driver_parallel('C07', reqs)
    from concurrent.futures import ThreadPoolExecutor
    size = (len(reqs) + jobs - 1) // jobs
    chunks = [reqs[i:i + size] for i in range(0, len(reqs), size)]
    with ThreadPoolExecutor(len(chunks)) as ex:
        got = list(ex.map(lambda c: common.run_driver('C07', c), chunks))
    return [x for g in got for x in g]


def run(ctx):
    load_own_known(ctx, 'C07')
    os.makedirs(SCRATCH, exist_ok=True)
    items = []

    def add(files, main, req, ap, layout=None):
        items.append({'files': files, 'file': main, 'request': req, 'apply': ap, 'layout': layout})
    for files, main, req, ap, layout in fixed_cases():
        add(files, main, req, ap, layout)
    corpus = os.path.join(common.CORPUS_DIR, 'C07')
    if os.path.isdir(corpus):
        for f in sorted(os.listdir(corpus)):
            with open(os.path.join(corpus, f), encoding='utf-8') as fh:
                c = json.load(fh)
            add(c['files'], c['file'], c['request'], c.get('apply', True),
                {k: c[k] for k in ('project', 'sys_path', 'added_sys_path') if k in c} or None)
    rng = ctx.subrng('cases')
    for _ in range(ctx.size(45, 1500)):
        kind = 'multi' if rng.random() < 0.25 else 'single'
        files, main = gen_project(rng, kind)
        # the same files inside the project (W is the project) or, a third of the time, outside of it
        out = rng.random() < 0.33
        project = rng.choice(['proj', 'ws/proj'])
        prefix = rng.choice(['lib', project + 'lib'])
        for _ in range(ctx.size(6, 10)):
            if kind == 'multi' and rng.random() < 0.3:
                req = module_rename_request(rng)
            else:
                req = gen_request(rng, files[main], main)
            ap = rng.random() < 0.6
            # a seventh of the requests comes from an unsaved buffer with the text of the file (no path)
            buf = rng.random() < 0.15
            if out:
                f2, m2, r2, lay = place(files, main, req, prefix, project)
                if buf:
                    r2 = dict(r2, file=None, code=f2[r2.get('file', m2)])
                add(f2, m2, r2, ap, lay)
            else:
                if buf:
                    req = dict(req, file=None, code=files[req.get('file', main)])
                add(files, main, req, ap)
    items += world_items(ctx)
    for n, it in enumerate(items, 1):
        it['n'] = n
    try:
        if len(items) >= 60:
            outs = common.parallel_map('props.c07', 'work', items)
        else:
            outs = [work(it) for it in items]
    finally:
        shutil.rmtree(os.path.join(SCRATCH, 'run-%d' % os.getpid()), ignore_errors=True)
    reqs, pending = [], []
    for o in outs:
        feed(ctx, o['events'])
        reqs += o['reqs']
        pending += [tuple(p) for p in o['pending']]
    if ctx.model_ok:
        answers = run_driver_chunks(reqs)
        compare(ctx, reqs, pending, answers)
    else:
        ctx.notes.append('model did not build: correspondence skipped, oracle only')
    ctx.obligations['assumptions'] = [
        'difflib.SequenceMatcher.get_grouped_opcodes is a parameter of the model: its output is checked to be '
        '`Valid` (decided in Lean) for every diff of the run; that it reports no group for equal inputs is sampled',
        'parso builds the tree; the dumped tree (types, prefixes, values, children) is what the model renders',
        'open(path, "w") / os.rename succeed and pathlib orders paths as get_changed_files()/get_renames() report them',
        'files are UTF-8; text <-> bytes encoding is outside the model',
        'unified-diff *text* parsing is done by the harness (own parser); the Lean theorem is about the hunk '
        'structure and `diffText` is compared byte for byte with get_diff()',
        'paths are lists of components in the model; that str(Path) / Path(str) round-trip (pathStr / partsOf) '
        'is exercised by the diff and renames correspondence streams, not proved; pathlib.relative_to is '
        'modelled as dropping a component-wise prefix (POSIX, no `..`)',
    ]


def replay(ctx, payload):
    load_own_known(ctx, 'C07')
    inp = payload['input']
    reqs, pending = [], []
    print('request:', inp['request'], 'on', inp['file'], 'apply =', inp.get('apply'))
    print('project = W/%s  sys_path = %s  added_sys_path = %s' % layout_of(inp))
    for k, v in inp['files'].items():
        print('--- %s: %r' % (k, v))
    run_case(ctx, 1, inp['files'], inp['file'], inp['request'], inp.get('apply', False), reqs, pending, verbose=True,
             layout=inp)
    for v in ctx.violations:
        if v is not None:
            print('FAILS:', v['stream'], v['what'], short(v['observed'], 600))
    for k in ctx.known_hits:
        print('KNOWN-FINDING reproduced:', k)
    print('expected:', short(payload.get('expected'), 600))
    print('observed at record time:', short(payload.get('observed'), 600))
    return 1 if ctx.violations else 0

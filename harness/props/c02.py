"""C02 - inferred types agree with what the program does when executed.

Streams (three-way, DESIGN 5.C02)
  may      Script.infer at every probe of generated PyCore programs vs Model.PyCore.mayE
           (top-level shapes; jedi's API merges an instance and its class when both reach one
           expression - see finding - so sets are compared modulo that merge)
  exec     the program is executed by CPython with every probe recording the run-time shape
           (nested for tuples) vs Model.PyCore.evalC - validates the semantics model
  oracle   the property itself: the class of the run-time value is among the definitions infer
           reports and points at the statement that created it; in programs without conditionals
           infer reports exactly that class
"""
import common
from common import short
from gen import pycore as P

MODELS = ['PyCore']
LEAN_TARGETS = ['JediModel.Props.C02', 'JediModel.Drivers.C02']
MANIFEST = dict(
    text='Theorem may_sound_partial over Model/PyCore: for every program of the pure core (literals, names, tuples, '
         'constant indexing, unpacking, calls of single-return functions, classes with class attributes, __init__ '
         'storing self attributes, methods, instantiation with arguments, attribute access, bound method calls, '
         'single inheritance, opaque conditionals) satisfying the static hypothesis WFClasses, and every expression '
         'the concrete semantics evaluates to a value v, jedi\'s set-valued inference (transcribed as mayE) contains a '
         'shape abstracting v - in particular the creating class/def statement of v is reported; may_exact: without '
         'conditionals (and with single-assignment __init__) the set is a singleton. FULL statement without WFClasses '
         'is false (kernel-checked witness, replayed on the real code). Both interpreters share one fuel-indexed '
         'skeleton; induction on fuel. '
         'Tie: jedi = mayE (exact, modulo the API-level merge of a class with its instance) and CPython = evalC '
         '(exact, nested shapes) on generated programs.',
    note='Modelled not verified: only the PyCore fragment is under the theorem (no loops, attribute writes outside __init__, '
         'generators, decorators, containers other than tuples, multi-module). The pretty-printer of the harness '
         'and the name<->index mapping are trusted. Outside the fragment: nothing is claimed.',
    technique='Lean 4 proof (abstract interpretation soundness by simulation) + three-way differential correspondence',
    design='5.C02')

FUEL = 60


class Names:
    def __init__(self):
        self.ids = {}

    def __call__(self, x):
        if x not in self.ids:
            self.ids[x] = len(self.ids)
        return self.ids[x]


def encode(prog):
    nm = Names()

    def ex(e):
        k = e[0]
        if k in ('int', 'str'):
            return [k]
        if k == 'name':
            return ['name', nm(e[1])]
        if k == 'self':
            return ['self']
        if k == 'tuple':
            return ['tuple', [ex(x) for x in e[1]]]
        if k == 'index':
            return ['index', ex(e[1]), e[2]]
        if k == 'call':
            return ['call', ex(e[1]), [ex(x) for x in e[2]]]
        if k == 'attr':
            return ['attr', ex(e[1]), nm('.' + e[2])]
        if k == 'tern':
            return ['tern', bool(e[1]), ex(e[2]), ex(e[3])]
        raise ValueError(k)
    out = []
    for st in prog:
        k = st[0]
        if k == 'assign':
            out.append(['assign', nm(st[1]), ex(st[2])])
        elif k == 'unpack':
            out.append(['unpack', [nm(x) for x in st[1]], ex(st[2])])
        elif k == 'def':
            out.append(['def', nm(st[1]), [nm(x) for x in st[2]], ex(st[3])])
        elif k == 'class':
            init = st[4] if len(st) > 4 else None
            methods = st[5] if len(st) > 5 else []
            out.append(['class', nm(st[1]), None if st[2] is None else nm(st[2]),
                        [[nm('.' + a), ex(e)] for a, e in st[3]],
                        None if init is None else [[nm(x) for x in init[0]], [[nm('.' + a), ex(e)] for a, e in init[1]]],
                        [[nm('.' + m), [nm(x) for x in ps], ex(ret)] for m, ps, ret in methods]])
        elif k == 'probe':
            out.append(['probe', ex(st[1])])
    return out, nm


def derived_init(prog):
    """some class with a base defines __init__ (outside hypothesis WFClasses)"""
    return any(st[0] == 'class' and st[2] is not None and len(st) > 4 and st[4] is not None for st in prog)


def multi_assign_init(prog):
    """some __init__ assigns one attribute twice (outside hypothesis SingleAssignInit)"""
    for st in prog:
        if st[0] == 'class' and len(st) > 4 and st[4] is not None:
            names = [a for a, _ in st[4][1]]
            if len(names) != len(set(names)):
                return True
    return False


def has_tern(prog):
    import json
    return '"tern"' in json.dumps(prog)


def top_of_runtime(sh, line2stmt):
    if isinstance(sh, str):
        return ('builtin', sh)
    if sh[0] == 'tuple':
        return ('builtin', 'tuple')
    if sh[0] == 'meth':
        return ('meth', sh[1])                  # identified by the line of its `def`
    return (sh[0], line2stmt.get(sh[1], -sh[1]))


def runtime_to_model(sh, line2stmt, meth2line):
    if isinstance(sh, str):
        return sh
    if sh[0] == 'tuple':
        return ['tuple', [runtime_to_model(x, line2stmt, meth2line) for x in sh[1]]]
    if sh[0] == 'meth':
        return ['meth', sh[1]]
    return [sh[0], line2stmt.get(sh[1], -1)]


def model_value_norm(v, meth_line):
    """model value JSON -> comparable with runtime_to_model (methods by def line)"""
    if isinstance(v, str) or v is None:
        return v
    if v[0] == 'tuple':
        return ['tuple', [model_value_norm(x, meth_line) for x in v[1]]]
    if v[0] == 'meth':
        return ['meth', meth_line.get((v[1], v[2]), -1)]
    return v


def top_of_model(s, meth_line):
    if isinstance(s, str):
        return ('builtin', s)
    if s[0] == 'tuple':
        return ('builtin', 'tuple')
    if s[0] == 'meth':
        return ('meth', meth_line.get((s[1], s[2]), -1))
    return (s[0], s[1])


def collapse(tops):
    """jedi's API-level identity of a result: (module, name, position) - an instance and its
    class coincide"""
    return {('src', t[1]) if t[0] in ('inst', 'cls') else t for t in tops}


def analyse(prog):
    import jedi
    text, probes, def_lines = P.source(prog)
    meth_lines = def_lines.pop('methods')
    methline_set = set(meth_lines.values())
    line2stmt = {ln: i for i, ln in def_lines.items()}
    seen, err = P.run(prog)
    out = {'prog': prog, 'src': text, 'probes': [], 'err': err, 'tern': has_tern(prog)}
    for (n, line, col) in probes:
        rec = {'n': n, 'line': line, 'jedi': None, 'raised': None,
               'runtime': seen.get(n), 'runtime_top': None, 'runtime_model': None}
        if n in seen:
            rec['runtime_top'] = list(top_of_runtime(seen[n], line2stmt))
            rec['runtime_model'] = runtime_to_model(seen[n], line2stmt, None)
        try:
            ds = jedi.Script(text).infer(line, col)
            js = set()
            for d in ds:
                if d.module_name == 'builtins':
                    js.add(('builtin', d.name) if d.type == 'instance' else ('builtin-' + d.type, d.name))
                elif d.module_name == '__main__':
                    kind = {'instance': 'inst', 'class': 'cls', 'function': 'func'}.get(d.type, d.type)
                    if kind == 'func' and d.line in methline_set:
                        js.add(('meth', d.line))
                    else:
                        js.add((kind, line2stmt.get(d.line, -(d.line or 0))))
                else:
                    js.add(('other', d.module_name + '.' + str(d.name)))
            rec['jedi'] = sorted([list(t) for t in js], key=repr)
        except Exception as e:
            cls, site = common.exc_site(e)
            rec['raised'] = '%s@%s' % (cls, site)
        out['probes'].append(rec)
    return out


def analyse_argbind(seed):
    """oracle-only stream: argument binding (defaults, *args, keyword-only, **kwargs, keyword
    arguments; functions, methods, lambdas). Returns a list of probe records."""
    import random
    import jedi
    from gen import argbind as A
    rng = random.Random(seed)
    out = []
    for _ in range(6):
        src, probes = A.gen_program(rng)
        seen, err = A.run(src, probes)
        if seen is None:
            out.append({'src': src, 'skipped': err})
            continue
        for name, line in probes:
            if name not in seen:
                continue
            rec = {'src': src, 'line': line, 'runtime': list(seen[name]), 'jedi': None, 'raised': None}
            try:
                ds = jedi.Script(src).infer(line, 0)
                rec['jedi'] = sorted([d.name, d.line] for d in ds)
            except Exception as e:
                rec['raised'] = '%s@%s' % common.exc_site(e)
            out.append(rec)
    return out


def programs(ctx):
    rng = ctx.subrng('gen')
    n = ctx.size(300, 8000)
    return [P.gen_program(rng, max_stmts=rng.choice([6, 10, 14]), depth=rng.choice([2, 3])) for _ in range(n)] + WITNESSES


def run(ctx):
    progs = programs(ctx)
    outs = common.parallel_map('props.c02', 'analyse', progs)
    encs = [encode(p) for p in progs]
    reqs = [{'op': 'run', 'prog': e[0], 'fuel': FUEL} for e in encs]
    answers = common.run_driver_parallel('C02', reqs) if ctx.model_ok else [None] * len(progs)
    how = 'jedi.Script(source).infer(line, 0) vs executing the program (harness/gen/pycore.py:run)'
    for out, ans, (enc, nm), prog in zip(outs, answers, encs, progs):
        src = out['src']
        _, _, dl = P.source(prog)
        meth_line = {(i, nm.ids.get('.' + m) if m is not None else None): ln
                     for (i, m), ln in dl['methods'].items()}
        for k, rec in enumerate(out['probes']):
            case = {'source': src, 'line': rec['line'], 'column': 0}
            if rec['raised']:
                ctx.count('raised', (src, rec['n']), nontrivial=False, bucket=rec['raised'])
                continue
            J = {tuple(t) for t in rec['jedi']}
            # ---- oracle (independent of the model)
            if rec['runtime_top'] is not None:
                rt = tuple(rec['runtime_top'])
                ctx.count('oracle', (src, rec['n']), nontrivial=True, bucket=rt[0],
                          sample={'source': src, 'line': rec['line'], 'runtime': rec['runtime'],
                                  'jedi': rec['jedi']})
                if rt not in J:
                    shape = 'class-and-instance-merged-by-api' if collapse({rt}) <= collapse(J) and \
                        rt[0] in ('inst', 'cls') else 'unclassified'
                    if shape == 'unclassified' and derived_init(prog):
                        shape = 'derived-init-hides-base-self-attribute'
                    if ans is not None and ans.get('wf') and shape == 'unclassified':
                        # may_sound_partial says this cannot happen when model = code
                        ctx.tie_broken('theorem-vs-implementation:may_sound_partial',
                                       short({'source': src, 'line': rec['line']}, 800))
                    ctx.fail('oracle', 'the class of the run-time value is not among the inferred definitions',
                             dict(case, shape=shape), expected=list(rt), observed=rec['jedi'], how=how)
                elif not out['tern'] and not multi_assign_init(prog) and J != {rt}:
                    ctx.fail('oracle', 'only one value can reach the expression but infer reports more',
                             dict(case, shape='not-exact'), expected=[list(rt)], observed=rec['jedi'], how=how)
            # ---- correspondence
            if ans is None:
                continue
            if 'error' in ans:
                raise common.InfraError('driver: %r' % ans)
            m = ans['probes'][k]
            M = {top_of_model(s, meth_line) for s in m['may']}
            ctx.count('may', (src, rec['n']), nontrivial=len(M) > 0, bucket='|may|=%d' % min(len(M), 4))
            if not (J <= M and collapse(J) == collapse(M)):
                ctx.tie_broken('correspondence:may', short({'source': src, 'line': rec['line'],
                                                            'jedi': sorted(J, key=repr), 'model': sorted(M, key=repr)}, 1500))
            if rec['runtime_model'] is not None:
                ctx.count('exec', (src, rec['n']), nontrivial=True)
                if model_value_norm(m['exec'], meth_line) != rec['runtime_model']:
                    # the concrete semantics of the model disagrees with CPython: model bug
                    ctx.tie_broken('correspondence:exec', short({'source': src, 'line': rec['line'],
                                                                 'cpython': rec['runtime_model'], 'model': m['exec']}, 1500))
            elif m['exec'] is not None and out['err'] is None:
                ctx.tie_broken('correspondence:exec', short({'source': src, 'line': rec['line'],
                                                             'cpython': 'probe not reached', 'model': m['exec']}, 1500))
    # ---- beyond the fragment: argument binding, judged by the direct oracle only
    seeds = ['%s-argbind-%d' % (ctx.seed, i) for i in range(ctx.size(40, 800))]
    for recs in common.parallel_map('props.c02', 'analyse_argbind', seeds):
        for rec in recs:
            if 'skipped' in rec:
                continue
            if rec['raised']:
                ctx.count('raised', (rec['src'], rec['line']), nontrivial=False, bucket=rec['raised'])
                continue
            rt = rec['runtime']
            ctx.count('argbind', (rec['src'], rec['line']), nontrivial=True,
                      sample={'source': rec['src'], 'line': rec['line'], 'runtime': rt, 'jedi': rec['jedi']})
            case = {'source': rec['src'], 'line': rec['line'], 'column': 0, 'shape': 'argument-binding'}
            if rt not in rec['jedi']:
                ctx.fail('oracle', 'the class of the run-time value is not among the inferred definitions',
                         case, expected=rt, observed=rec['jedi'], how=how)
            elif rec['jedi'] != [rt]:
                ctx.fail('oracle', 'only one value can reach the expression but infer reports more',
                         case, expected=[rt], observed=rec['jedi'], how=how)
    ctx.obligations['assumptions'] = [
        'stream argbind (argument binding with defaults, *args, keyword-only, **kwargs) has no Lean model: it is '
        'the direct oracle on code the PyCore fragment does not cover',
        'PyCore programs are generated in SSA form (every module-level name bound once) with parameter, attribute '
        'and module name pools disjoint; the abstract program, its printed source and its encoding for the model '
        'come from harness/gen/pycore.py and harness/props/c02.py:encode (trusted)',
        'CPython is the ground truth for evalC; jedi for mayE',
    ]


WITNESSES = [
    # a derived __init__ hides the base __init__: jedi still reports the base's self attribute
    [['class', 'C0', None, [], [[], [['b0', ['int']]]], []],
     ['class', 'C1', 'C0', [['b0', ['str']]], [[], []], []],
     ['probe', ['attr', ['call', ['name', 'C1'], []], 'b0']]],
    # a class and its instance reach one expression: the API reports only one of them
    [['class', 'C0', None, []], ['assign', 'v0', ['tern', True, ['call', ['name', 'C0'], []], ['name', 'C0']]],
     ['probe', ['name', 'v0']]],
]


def replay(ctx, payload):
    import jedi
    inp = payload['input']
    print(inp['source'])
    print('infer(%d, %d) ->' % (inp['line'], inp['column']),
          [(d.name, d.type, d.line, d.module_name) for d in jedi.Script(inp['source']).infer(inp['line'], inp['column'])])
    print('expected:', payload.get('expected'), 'observed at record time:', payload.get('observed'))
    return 0

"""C02 - inferred types agree with what the program does when executed.

Streams (three-way, DESIGN 5.C02)
  may      Script.infer at every probe of generated PyCore programs vs Model.PyCore.mayE
           (top-level shapes; jedi's API merges an instance and its class when both reach one
           expression - see finding - so sets are compared modulo that merge)
  exec     the program is executed by CPython with every probe recording the run-time shape
           (nested for tuples) vs Model.PyCore.evalC - validates the semantics model
  oracle   the property itself: the class of the run-time value is among the definitions infer
           reports and points at the statement that created it; in programs without conditionals
           infer reports exactly that class
  bind     argument-to-parameter binding: the REAL get_executed_param_names_and_issues (run
           in-process on a FunctionValue / TreeArguments obtained the way jedi obtains them) vs
           Model.ArgBind.bindJ - exact, every parameter, every issue - on ALL small signatures x
           ALL small calls (accepted by CPython or not) and random larger ones
  bindpy   CPython itself (a real function returning its locals is called) vs Model.ArgBind.bindPy,
           exact, TypeError <-> none, on the same inputs - validates the specification
  argbind  the direct oracle on argument binding: run the program, Script.infer on every
           parameter / element of *args / value of **kwargs; functions, methods, lambdas
  flow     (props/c02_flow.py, gen/flowprog.py) the direct oracle on random programs with loops,
           generator functions, nested blocks, closures, comprehensions, with/try, descriptors,
           magic methods: executed, then Script.infer at every probe the run reached;
           (gen/descbind.py) class families: members with a fixed decorator (method / classmethod /
           staticmethod / property) defined on a base and overridden on subclasses, alternate
           constructors `cls(..)` / `type(self)(..)`, class attributes holding classes, user
           descriptors, reached by class-level access on (two-level) subclasses, through
           instances and class objects held in variables, chains, helper functions, tuple results
           sub-stream yield-order (gen/flowprog.py:gen_segprogram): generator functions made of
           top-level yields and simple for loops in any interleaving, consumed position by position
           by tuple unpacking, every target probed
  yieldorder  the REAL get_yield_lazy_values on generated generator functions vs
           Model.YieldOrder.order (grouping shape read from the source): the element stream lazy
           value by lazy value, given-up cases included; failing-input search = the direct oracle
           on the same generator unpacked
  lookup   class-level access to an (inherited) classmethod returning `cls`: Script.infer vs
           Model.ClassLookup.jediBoundCls, CPython vs pyBoundCls (exact; ALL hierarchies of <= 3
           classes over 2 names in the thorough tier, random larger ones)
"""
import itertools
import json

import common
from common import short
from gen import pycore as P
from props import c02_flow

MODELS = ['PyCore', 'ArgBind', 'FlowCache', 'ClassLookup', 'YieldOrder']
LEAN_TARGETS = ['JediModel.Props.C02', 'JediModel.Drivers.C02']
MANIFEST = dict(
    text='Theorem may_sound_partial over Model/PyCore: for every program of the pure core (literals, names, tuples, '
         'constant indexing, unpacking, calls of single-return functions, classes with class attributes, __init__ '
         'storing self attributes, methods, instantiation with arguments, attribute access, bound method calls, '
         'single inheritance, opaque conditionals) satisfying the static hypothesis WFClasses, and every expression '
         'the concrete semantics evaluates to a value v, jedi\'s set-valued inference (transcribed as mayE) contains a '
         'shape abstracting v - in particular the creating class/def statement of v is reported; may_exact: without '
         'conditionals (and with single-assignment __init__) the set is a singleton. FULL statement without WFClasses '
         'is false (kernel-checked witness, replayed on the real code). Both interpreters share one fuel-indexed '
         'skeleton; induction on fuel. '
         'Tie: jedi = mayE (exact, modulo the API-level merge of a class with its instance) and CPython = evalC '
         '(exact, nested shapes) on generated programs. '
         'Argument binding (Model/ArgBind): bind_agrees (FULL) - for EVERY grammatical signature (any number of '
         'positional parameters, defaults, *args, keyword-only parameters, **kwargs) and EVERY call with distinct '
         'keywords that CPython accepts, bindJ (statement-by-statement transcription of '
         'param.py:get_executed_param_names_and_issues with its PushBackIterator, instantiated with constants read '
         'from the source) binds every parameter to exactly what CPython binds (bindPy); proved by induction over '
         'the parameter loop with an invariant on the iterator / keys_used / non_matching_keys; '
         'bind_agrees_old_code_witness: with the *args/**kwargs names in param_dict (the source before the repair, '
         '`def f(**kw)` / `f(kw=A)`) the statement is false; bind_best_effort, bindJ_total, '
         'bind_without_push_back_loses_keyword, bind_source_is_modelled. '
         'Tie: the real function = bindJ and CPython = bindPy, both exact, on all small signatures x calls. '
         'Loop unrolling (Model/FlowCache): unrolled_loop_sound - for every body of an unrolled generator for loop '
         '(assignments from the loop variable / earlier locals / constants, nested in any if/for statements), every '
         'yielded local, every sequence of values and every initial cache, the per-node cache decision of '
         'infer_node/_infer_node_if_inferred (transcribed, instantiated with the facts the translator reads from '
         'syntax_tree.py and function.py:get_yield_lazy_values) never serves a result of an earlier iteration: the '
         'inferred values are the yielded values, element by element; unrolled_loop_mention_rule_witness / '
         'unrolled_loop_direct_cache_witness: weakening either bypass rule loses the second value (kernel-checked); '
         'flow_source_is_modelled. '
         'Class-level lookup (Model/ClassLookup): classmethod_bound_to_lookup_class (FULL) - for EVERY single-inheritance '
         'hierarchy, class c and name, `c.name` for a classmethod defined on c or any base binds `cls` to the class '
         'CPython binds it to (c itself, never the defining base), with the filter fact read from '
         'klass.py:ClassMixin.get_filters (`ClassFilter(self, node_context=cls.as_context())`); '
         'classmethod_bound_to_defining_class_witness: with the MRO class in the filter `K2.make()` binds K0 '
         '(kernel-checked); lookup_source_is_modelled. Tie: Script.infer = jediBoundCls and CPython = pyBoundCls, exact. '
         'Stream flow (direct oracle, no model): random terminating programs with for loops, generator functions with '
         'yields behind nested for/if/with/try blocks and intermediate locals, closures, lambdas, comprehensions, '
         'containers, decorators, property/staticmethod/classmethod, __getitem__/__call__/__iter__/__enter__/__add__, '
         'augmented assignment, isinstance - executed with every probe recording the set of run-time classes, then '
         'Script.infer at every reached probe: every run-time class is reported; exactly that class where one '
         'creation site reaches the probe through straight code. The class families of gen/descbind.py (descriptor '
         'binding through inheritance: inherited classmethod / staticmethod / property / user descriptor reached through '
         'a subclass object, an instance, a class held in a variable or class attribute; `cls(..)`, `type(self)(..)`, '
         'chains, tuple results) are generated with an interpreter in the loop and judged with exactness at every '
         'module-level probe outside loops. '
         'Order of a generator\'s element stream (Model/YieldOrder): yield_order_is_run / yield_order_kth (FULL) - for '
         'EVERY generator body of plain yields and simple for statements in any interleaving and every number of '
         'elements per loop, get_yield_lazy_values (grouping transcribed; list-with-last_for_stmt vs keyed-dict shape '
         'read from function.py as yieldGroupsKeyed) does not give up and emits, position by position, exactly the '
         '(yield, iteration) sequence the run yields; yield_order_keyed_witness: with one dict entry for all top-level '
         'yields `yield K1(); for x in (K2(), K3()): yield x; yield K4()` is emitted K1, K4, K2, K3 (kernel-checked); '
         'yield_order_same_for_id_witness. Tie (stream yieldorder): the REAL get_yield_lazy_values on generated '
         'generator functions (top / try / simple for with 1-2 yields / if / while / nested for / tuple-target for, '
         'all bodies of <= 2 (thorough <= 4) statements + random longer) = the model, lazy value by lazy value, given-up '
         'cases included. Oracle: flow sub-stream yield-order (gen/flowprog.py:gen_segprogram): generator functions of '
         'top-level yields and simple for loops in any interleaving, unpacked position by position, every target '
         'probed, exactness where one creation site reaches the position.',
    note='Modelled not verified: only the PyCore fragment is under the theorem (no loops, attribute writes outside __init__, '
         'generators, decorators, containers other than tuples, multi-module). The pretty-printer of the harness '
         'and the name<->index mapping are trusted. Outside the fragment: nothing is claimed by a theorem; the stream '
         'flow judges loops / generators / closures / descriptors by the direct oracle only (CPython is the ground '
         'truth; probes on which jedi hits a documented give-up limit or raises are counted, not judged). '
         'Model/FlowCache covers the cache decision under predefined names for straight assignment chains, not '
         'the inference of the right-hand sides themselves.',
    technique='Lean 4 proof (abstract interpretation soundness by simulation) + three-way differential correspondence',
    design='5.C02')

FUEL = 60


class Names:
    def __init__(self):
        self.ids = {}

    def __call__(self, x):
        if x not in self.ids:
            self.ids[x] = len(self.ids)
        return self.ids[x]


def encode(prog):
    nm = Names()

    def ex(e):
        k = e[0]
        if k in ('int', 'str'):
            return [k]
        if k == 'name':
            return ['name', nm(e[1])]
        if k == 'self':
            return ['self']
        if k == 'tuple':
            return ['tuple', [ex(x) for x in e[1]]]
        if k == 'index':
            return ['index', ex(e[1]), e[2]]
        if k == 'call':
            return ['call', ex(e[1]), [ex(x) for x in e[2]]]
        if k == 'attr':
            return ['attr', ex(e[1]), nm('.' + e[2])]
        if k == 'tern':
            return ['tern', bool(e[1]), ex(e[2]), ex(e[3])]
        raise ValueError(k)
    out = []
    for st in prog:
        k = st[0]
        if k == 'assign':
            out.append(['assign', nm(st[1]), ex(st[2])])
        elif k == 'unpack':
            out.append(['unpack', [nm(x) for x in st[1]], ex(st[2])])
        elif k == 'def':
            out.append(['def', nm(st[1]), [nm(x) for x in st[2]], ex(st[3])])
        elif k == 'class':
            init = st[4] if len(st) > 4 else None
            methods = st[5] if len(st) > 5 else []
            out.append(['class', nm(st[1]), None if st[2] is None else nm(st[2]),
                        [[nm('.' + a), ex(e)] for a, e in st[3]],
                        None if init is None else [[nm(x) for x in init[0]], [[nm('.' + a), ex(e)] for a, e in init[1]]],
                        [[nm('.' + m), [nm(x) for x in ps], ex(ret)] for m, ps, ret in methods]])
        elif k == 'probe':
            out.append(['probe', ex(st[1])])
    return out, nm


def derived_init(prog):
    """some class with a base defines __init__ (outside hypothesis WFClasses)"""
    return any(st[0] == 'class' and st[2] is not None and len(st) > 4 and st[4] is not None for st in prog)


def multi_assign_init(prog):
    """some __init__ assigns one attribute twice (outside hypothesis SingleAssignInit)"""
    for st in prog:
        if st[0] == 'class' and len(st) > 4 and st[4] is not None:
            names = [a for a, _ in st[4][1]]
            if len(names) != len(set(names)):
                return True
    return False


def has_tern(prog):
    import json
    return '"tern"' in json.dumps(prog)


def top_of_runtime(sh, line2stmt):
    if isinstance(sh, str):
        return ('builtin', sh)
    if sh[0] == 'tuple':
        return ('builtin', 'tuple')
    if sh[0] == 'meth':
        return ('meth', sh[1])                  # identified by the line of its `def`
    return (sh[0], line2stmt.get(sh[1], -sh[1]))


def runtime_to_model(sh, line2stmt, meth2line):
    if isinstance(sh, str):
        return sh
    if sh[0] == 'tuple':
        return ['tuple', [runtime_to_model(x, line2stmt, meth2line) for x in sh[1]]]
    if sh[0] == 'meth':
        return ['meth', sh[1]]
    return [sh[0], line2stmt.get(sh[1], -1)]


def model_value_norm(v, meth_line):
    """model value JSON -> comparable with runtime_to_model (methods by def line)"""
    if isinstance(v, str) or v is None:
        return v
    if v[0] == 'tuple':
        return ['tuple', [model_value_norm(x, meth_line) for x in v[1]]]
    if v[0] == 'meth':
        return ['meth', meth_line.get((v[1], v[2]), -1)]
    return v


def top_of_model(s, meth_line):
    if isinstance(s, str):
        return ('builtin', s)
    if s[0] == 'tuple':
        return ('builtin', 'tuple')
    if s[0] == 'meth':
        return ('meth', meth_line.get((s[1], s[2]), -1))
    return (s[0], s[1])


def analyse(prog):
    import jedi
    text, probes, def_lines = P.source(prog)
    meth_lines = def_lines.pop('methods')
    methline_set = set(meth_lines.values())
    line2stmt = {ln: i for i, ln in def_lines.items()}
    seen, err = P.run(prog)
    out = {'prog': prog, 'src': text, 'probes': [], 'err': err, 'tern': has_tern(prog)}
    for (n, line, col) in probes:
        rec = {'n': n, 'line': line, 'jedi': None, 'raised': None,
               'runtime': seen.get(n), 'runtime_top': None, 'runtime_model': None}
        if n in seen:
            rec['runtime_top'] = list(top_of_runtime(seen[n], line2stmt))
            rec['runtime_model'] = runtime_to_model(seen[n], line2stmt, None)
        try:
            ds = jedi.Script(text).infer(line, col)
            js = set()
            for d in ds:
                if d.module_name == 'builtins':
                    js.add(('builtin', d.name) if d.type == 'instance' else ('builtin-' + d.type, d.name))
                elif d.module_name == '__main__':
                    kind = {'instance': 'inst', 'class': 'cls', 'function': 'func'}.get(d.type, d.type)
                    if kind == 'func' and d.line in methline_set:
                        js.add(('meth', d.line))
                    else:
                        js.add((kind, line2stmt.get(d.line, -(d.line or 0))))
                else:
                    js.add(('other', d.module_name + '.' + str(d.name)))
            rec['jedi'] = sorted([list(t) for t in js], key=repr)
        except Exception as e:
            cls, site = common.exc_site(e)
            rec['raised'] = '%s@%s' % (cls, site)
        out['probes'].append(rec)
    return out


def analyse_argbind(seed):
    """oracle-only stream: argument binding (defaults, *args, keyword-only, **kwargs, keyword
    arguments; functions, methods, lambdas). Returns a list of probe records."""
    import random
    import jedi
    from gen import argbind as A
    rng = random.Random(seed)
    out = []
    for _ in range(6):
        src, probes = A.gen_program(rng)
        seen, err = A.run(src, probes)
        if seen is None:
            out.append({'src': src, 'skipped': err})
            continue
        for name, line in probes:
            if name not in seen:
                continue
            rec = {'src': src, 'line': line, 'runtime': list(seen[name]), 'jedi': None, 'raised': None}
            try:
                ds = jedi.Script(src).infer(line, 0)
                rec['jedi'] = sorted([d.name, d.line] for d in ds)
            except Exception as e:
                rec['raised'] = '%s@%s' % common.exc_site(e)
            out.append(rec)
    return out


# ------------------------------------------------------------------ stream `bind`

def _real_bindings(sig, calls):
    """runs the REAL get_executed_param_names_and_issues for every call of one signature, the way
    jedi itself reaches it (inference/syntax_tree.py:infer_trailer builds TreeArguments for the
    arglist, the callee is inferred to a FunctionValue).  Every bound lazy value is identified by
    the source position of its tree node."""
    import jedi
    from gen import argbind as A
    from jedi.inference import arguments as J
    from jedi.inference.param import get_executed_param_names_and_issues
    from jedi.inference.lazy_value import LazyTreeValue, LazyKnownValue, LazyUnknownValue
    from jedi.inference.value import iterable
    src, first = A.bind_module(sig, calls)
    script = jedi.Script(src)
    context = script._get_module_context()
    module = script._module_node
    stmts = {st.start_pos[0]: st for st in module.children}
    out = []
    fv = None
    for ci, call in enumerate(calls):
        try:
            expr = stmts[first + ci].children[0]
            name, trailer = expr.children
            node = trailer.children[1]
            if node == ')':
                node = None
            arg_ids = {}
            if node is not None:
                els = [c for c in node.children if c != ','] if node.type == 'arglist' else [node]
                for i, el in enumerate(els):
                    arg_ids[el.start_pos] = i
                    if el.type == 'argument':
                        arg_ids[el.children[2].start_pos] = i
            if fv is None:
                # inferred once per module: jedi answers NO_VALUES after 300 inferences of one name
                fvs = list(context.infer_node(name))
                assert len(fvs) == 1, fvs
                fv = fvs[0]
            args = J.TreeArguments(script._inference_state, context, node, trailer)
            res, issues = get_executed_param_names_and_issues(fv, args)

            def ident(lv, pname=None):
                if isinstance(lv, LazyUnknownValue):
                    return ['unknown']
                if isinstance(lv, LazyTreeValue):
                    n = lv.data
                    if n.start_pos[0] == first + ci and n.start_pos in arg_ids:
                        return ['arg', arg_ids[n.start_pos]]
                    par = n.parent
                    if par is not None and par.type == 'param' and par.default is n and \
                            par.name.value == pname:
                        return ['default']
                    return ['other', repr(n)]
                if isinstance(lv, LazyKnownValue):
                    v = lv.data
                    if isinstance(v, iterable.FakeTuple):
                        return ['tuple', [ident(x)[-1] if ident(x)[0] == 'arg' else repr(ident(x))
                                          for x in v._lazy_value_list]]
                    if isinstance(v, iterable.FakeDict):
                        return ['dict', [[k, ident(x)[-1] if ident(x)[0] == 'arg' else repr(ident(x))]
                                         for k, x in v._dct.items()]]
                return ['other', repr(lv)]
            env = []
            for r in res:
                b = ident(r._lazy_value, r.string_name)
                if b == ['default'] and not r._is_default:
                    b = ['other', 'default-not-flagged']
                env.append([r.string_name, b])
            iss = []
            for it in issues:
                if it is None:
                    iss.append(['none'])
                    continue
                kind = {'type-error-too-few-arguments': 'too-few', 'type-error-too-many-arguments': 'too-many',
                        'type-error-multiple-values': 'multiple-values',
                        'type-error-keyword-argument': 'unexpected-keyword'}.get(it.name, it.name)
                if kind == 'too-many':
                    iss.append([kind, arg_ids.get(tuple(it._start_pos), -1)])
                elif kind in ('multiple-values', 'unexpected-keyword'):
                    iss.append([kind, it.message.split("'")[1]])
                else:
                    iss.append([kind])
            out.append({'env': env, 'issues': iss})
        except Exception as e:
            out.append({'raised': '%s@%s' % common.exc_site(e)})
    return out


def _bind_oracle(sig, call, py_env):
    """the property itself on one signature/call: execute the program, Script.infer on every
    observable of the binding (each parameter, each element of *args, each value of **kwargs)"""
    import jedi
    from gen import argbind as A
    obs = A.observables(sig, call, py_env)
    src, probes, class_line = A.oracle_program(sig, call, obs)
    g = {'__name__': '__argbind__'}
    try:
        exec(compile(src, '<bind>', 'exec'), g)
    except Exception as e:
        return [{'src': src, 'skipped': type(e).__name__}]
    recs = []
    for (name, line), o in zip(probes, obs):
        cn = type(g[name]).__name__
        if cn in class_line:
            rt = [cn, class_line[cn]]
        elif cn in ('tuple', 'dict'):
            rt = [cn, None]
        else:
            continue
        rec = {'src': src, 'line': line, 'obs': o, 'runtime': rt, 'jedi': None, 'raised': None}
        try:
            ds = jedi.Script(src).infer(line, 0)
            rec['jedi'] = sorted(([d.name, d.line] for d in ds), key=repr)
        except Exception as e:
            rec['raised'] = '%s@%s' % common.exc_site(e)
        recs.append(rec)
    return recs


def analyse_bind(item):
    """item = {sig, calls, oracle_k: how many accepted calls the direct oracle is run on (chosen with
    oracle_seed), oracle_all}"""
    from gen import argbind as A
    sig, calls = item['sig'], item['calls']
    py = A.cpython_bind(sig, calls)
    real = _real_bindings(sig, calls)
    oracle = {}
    accepted = [i for i in range(len(calls)) if py[i] is not None]
    if item.get('oracle_all'):
        chosen = accepted
    else:
        import random
        rng = random.Random(item.get('oracle_seed', ''))
        chosen = rng.sample(accepted, min(len(accepted), item.get('oracle_k', 0)))
    for i in chosen:
        oracle[str(i)] = _bind_oracle(sig, calls[i], py[i])
    return {'py': py, 'real': real, 'oracle': oracle}


def oracle_bind(item):
    """failing-input search on one signature/call: item = {sig, call}"""
    from gen import argbind as A
    py = A.cpython_bind(item['sig'], [item['call']])[0]
    return [] if py is None else _bind_oracle(item['sig'], item['call'], py)


def bind_items(ctx):
    """signatures x calls of stream `bind`: corpus, ALL small signatures x ALL small calls
    (accepted and rejected by CPython alike), random larger ones"""
    import glob
    import json
    import os
    from gen import argbind as A
    rng = ctx.subrng('bind')
    items = []
    for p in sorted(glob.glob(os.path.join(common.CORPUS_DIR, 'C02', 'bind*.json'))):
        with open(p, encoding='utf-8') as f:
            for c in json.load(f).get('cases', []):
                items.append({'sig': c['sig'], 'calls': c['calls'], 'oracle_all': True, 'src': 'corpus',
                              'expect': c.get('expect')})
    # (max pos params, max kw-only params, max positional args, max keyword args)
    scopes = [(1, 1, 2, 2)] if ctx.quick else [(2, 2, 3, 2), (1, 1, 3, 3), (3, 0, 4, 1)]
    seen = set()
    for mp, mk, ma, mkw in scopes:
        for sig in A.enum_signatures(mp, mk):
            calls = []
            for c in A.enum_calls(sig, ma, mkw):
                key = json.dumps([sig, c])
                if key not in seen:
                    seen.add(key)
                    calls.append(c)
            if calls:
                items.append({'sig': sig, 'calls': calls, 'oracle_k': ctx.size(4, 12), 'src': 'exhaustive',
                              'oracle_seed': '%s-%d' % (ctx.seed, len(items))})
    for _ in range(ctx.size(60, 1500)):
        sig = A.random_signature(rng)
        calls = []
        for _ in range(10):
            c = A.random_call(rng, sig)
            if c not in calls:
                calls.append(c)
        items.append({'sig': sig, 'calls': calls, 'oracle_k': 2, 'src': 'random',
                      'oracle_seed': '%s-%d' % (ctx.seed, len(items))})
    return items


def judge_bind_oracle(ctx, recs, sig, call, how):
    """the direct oracle on one signature/call; returns True when the property fails there"""
    from gen import argbind as A
    failed = False
    shape = 'keyword-spelled-like-star-param' if A.kw_spelled_like_star(sig, call) else 'argument-binding'
    for rec in recs:
        if 'skipped' in rec:
            continue
        if rec['raised']:
            ctx.count('raised', (rec['src'], rec['line']), nontrivial=False, bucket=rec['raised'])
            continue
        rt = rec['runtime']
        ctx.count('argbind', (rec['src'], rec['line']), nontrivial=True, bucket='bind:' + rt[0][:1],
                  sample={'source': rec['src'], 'line': rec['line'], 'runtime': rt, 'jedi': rec['jedi']})
        case = {'source': rec['src'], 'line': rec['line'], 'column': 0, 'shape': shape,
                'signature': A.bind_sig_text(sig), 'call': A.bind_call_text(call), 'observed_expr': rec['obs']}
        if rt not in rec['jedi']:
            failed = ctx.fail('oracle', 'the class of the run-time value is not among the inferred definitions',
                              case, expected=rt, observed=rec['jedi'], how=how) or failed
        elif rec['jedi'] != [rt]:
            failed = ctx.fail('oracle', 'only one value can reach the expression but infer reports more',
                              case, expected=[rt], observed=rec['jedi'], how=how) or failed
    return failed


def run_bind(ctx, answers, how):
    """stream `bind`: (a) REAL get_executed_param_names_and_issues vs Model.ArgBind.bindJ (exact);
    (b) CPython itself vs Model.ArgBind.bindPy (exact, TypeError <-> none); the theorem's claim
    checked directly (real jedi binding = CPython binding under its hypotheses); the direct
    oracle on a sample of the accepted calls and on every disagreement"""
    from gen import argbind as A
    items = ctx.bind_items
    outs = ctx.bind_outs
    k = 0
    suspects = []
    n_acc = n_thm = 0
    for it, out in zip(items, outs):
        sig = it['sig']
        for ci, call in enumerate(it['calls']):
            ans = None if answers is None else answers[k]
            k += 1
            real = out['real'][ci]
            py = out['py'][ci]
            key = (A.bind_sig_text(sig), A.bind_call_text(call))
            nontrivial = bool(sig) and (call[0] + len(call[1]) > 0)
            feat = ''.join(sorted({p[1][0] for p in sig})) + '/' + ('acc' if py is not None else 'rej')
            if 'raised' in real:
                ctx.count('raised', key, nontrivial=False, bucket=real['raised'])
                ctx.tie_broken('correspondence:bind', short({'signature': key[0], 'call': key[1], 'real': real}, 800))
                suspects.append((sig, call))
                continue
            if ans is not None:
                if 'error' in ans:
                    raise common.InfraError('driver: %r' % ans)
                mj = A.bind_decode(sig, ans['jedi'])
                mpy = A.bind_decode(sig, ans['py'])
                names = {i: p[0] for i, p in enumerate(sig)}
                names.update({100 + j: x for j, x in enumerate(A.FOREIGN)})
                mi = sorted([i[0], names[i[1]]] if i[0] in ('multiple-values', 'unexpected-keyword') else i
                            for i in ans['issues'])
                ctx.count('bind', key, nontrivial=nontrivial, bucket=feat,
                          sample={'signature': key[0], 'call': key[1], 'jedi': real['env'], 'model': mj})
                if real['env'] != mj or sorted(real['issues']) != mi:
                    ctx.tie_broken('correspondence:bind', short(
                        {'signature': key[0], 'call': key[1], 'jedi': real, 'model': mj, 'model_issues': mi}, 1500))
                    suspects.append((sig, call))
                ctx.count('bindpy', key, nontrivial=nontrivial, bucket='acc' if py is not None else 'rej')
                if py != mpy:
                    # the specification model disagrees with CPython: model bug
                    ctx.tie_broken('correspondence:bindpy', short(
                        {'signature': key[0], 'call': key[1], 'cpython': py, 'model': mpy}, 1500))
            # the theorem's claim, on the real things: whenever CPython accepts the call jedi binds
            # what CPython binds (and, not under a theorem: reports no issue)
            if py is not None:
                n_acc += 1
                if A.kw_spelled_like_star(sig, call):
                    n_thm += 1
                if real['env'] != py:
                    ctx.tie_broken('theorem-vs-implementation:bind_agrees', short(
                        {'signature': key[0], 'call': key[1], 'jedi': real, 'cpython': py}, 1500))
                    if (sig, call) not in suspects:
                        suspects.append((sig, call))
                elif real['issues']:
                    ctx.tie_broken('expectation:accepted-call-reports-no-issue', short(
                        {'signature': key[0], 'call': key[1], 'jedi': real}, 1500))
                    if (sig, call) not in suspects:
                        suspects.append((sig, call))
            # regression inputs of the corpus state the binding they expect from jedi
            exp = (it.get('expect') or {}).get(str(ci))
            if exp is not None:
                ctx.count('bind', ('expect',) + key, nontrivial=True, bucket='corpus-expect')
                if real['env'] != exp:
                    ctx.fail('bind', 'regression input: get_executed_param_names binds the parameters differently',
                             {'signature': key[0], 'call': key[1], 'shape': 'corpus-expect',
                              'source': 'def f(%s): pass\nf(%s)\n' % key, 'line': 2, 'column': 0},
                             expected=exp, observed=real['env'],
                             how='harness/props/c02.py:_real_bindings(sig, [call]) - the real '
                                 'jedi.inference.param.get_executed_param_names_and_issues')
        for ci, recs in out['oracle'].items():
            judge_bind_oracle(ctx, recs, sig, it['calls'][int(ci)], how)
    ctx.notes.append('bind: %d signature/call pairs, %d accepted by CPython (all under bind_agrees), %d of them '
                     'with a keyword spelled like *args/**kwargs' % (k, n_acc, n_thm))
    # failing-input search on the disagreements: the property itself on that very signature/call
    if suspects:
        todo = [{'sig': sg, 'call': c} for sg, c in suspects[:80]]
        for t, recs in zip(todo, common.parallel_map('props.c02', 'oracle_bind', todo)):
            judge_bind_oracle(ctx, recs, t['sig'], t['call'], how)


# ------------------------------------------------------------------ stream `setiter`
# ValueSet.iterate (jedi/inference/base_value.py) on a set of stub members whose element streams are known,
# against Model/SetIter (the zipping function is the one the translator found in the source).

def setiter_items(ctx):
    rng = ctx.subrng('setiter')
    items = [[[1], [2, 3]], [[1, 2, 3], [4]], [[], [1]], [[1]], [], [[], []], [[1, 2], [3, 4], [5]]]
    # exhaustive: up to 3 members with 0..3 elements each
    for n in range(1, 4):
        for lens in itertools.product(range(4), repeat=n):
            t, it = 0, []
            for ln in lens:
                it.append(list(range(t + 1, t + 1 + ln)))
                t += ln
            items.append(it)
    for _ in range(ctx.size(60, 2000)):
        t, it = 0, []
        for _ in range(rng.randint(2, 6)):
            ln = rng.choice([0, 1, 1, 2, 3, 5, 8])
            it.append(list(range(t + 1, t + 1 + ln)))
            t += ln
        items.append(it)
    return items


def real_setiter(streams):
    """the real ValueSet.iterate / iterate_values on stub members -> (columns as sorted tag lists, all values)"""
    from jedi.inference.base_value import ValueSet, iterate_values

    class Lazy:
        def __init__(self, tag):
            self.tag = tag

        def infer(self):
            return ValueSet([self.tag])

    class Member:
        def __init__(self, tags):
            self.tags = tags

        def iterate(self, contextualized_node=None, is_async=False):
            return iter([Lazy(t) for t in self.tags])
    vs = ValueSet([Member(s) for s in streams])
    cols = []
    for merged in vs.iterate():
        if isinstance(merged, Lazy):
            cols.append([merged.tag])
        else:
            cols.append(sorted(l.tag for l in merged.data))
    allv = sorted(iterate_values(ValueSet([Member(s) for s in streams]))._set)
    return cols, allv


def judge_setiter(ctx, items, answers):
    how = ('jedi.inference.base_value.ValueSet([members]).iterate() / iterate_values(..) with stub members that '
           'yield known element streams')
    for streams, ans in zip(items, answers if answers is not None else [None] * len(items)):
        try:
            cols, allv = real_setiter(streams)
        except Exception as e:   # noqa
            ctx.count('raised', ('setiter', json.dumps(streams)), nontrivial=False, bucket=type(e).__name__)
            ctx.tie_broken('correspondence:setiter', short({'streams': streams, 'raised': repr(e)}))
            continue
        lens = sorted(len(s) for s in streams)
        ctx.count('setiter', json.dumps(streams), nontrivial=len(set(lens)) > 1,
                  bucket='members=%d/%s' % (len(streams), 'ragged' if len(set(lens)) > 1 else 'even'))
        if ans is not None:
            if ans.get('cols') is None or [sorted(c) for c in ans['cols']] != cols or sorted(ans['all']) != allv:
                ctx.tie_broken('correspondence:setiter', short({'streams': streams, 'impl': [cols, allv], 'model': ans}))
        # direct oracle: what a Python `for` over EACH member yields at position k must be in the k-th merged
        # value, and the union must be every element (this is what the run of `for x in <either member>` sees)
        want_all = sorted(t for s in streams for t in s)
        missing = [(k, t) for s in streams for k, t in enumerate(s) if k >= len(cols) or t not in cols[k]]
        if missing or allv != want_all:
            ctx.fail('setiter', 'iterating a set of iterables loses (or invents) elements of a member',
                     {'streams': streams, 'shape': 'set-iteration'}, expected={'all': want_all},
                     observed={'columns': cols, 'all': allv, 'missing(position, element)': missing[:6]}, how=how)


def programs(ctx):
    rng = ctx.subrng('gen')
    n = ctx.size(300, 8000)
    return [P.gen_program(rng, max_stmts=rng.choice([6, 10, 14]), depth=rng.choice([2, 3])) for _ in range(n)] + WITNESSES


def run(ctx):
    from concurrent.futures import ThreadPoolExecutor
    from gen import argbind as A
    flow = c02_flow.start(ctx)          # stream `flow` runs in worker processes meanwhile
    progs = programs(ctx)
    encs = [encode(p) for p in progs]
    reqs = [{'op': 'run', 'prog': e[0], 'fuel': FUEL} for e in encs]
    ctx.bind_items = bind_items(ctx)
    reqs += [A.bind_encode(it['sig'], c) for it in ctx.bind_items for c in it['calls']]
    nbind = len(reqs) - len(progs)
    lookup_items = c02_flow.lookup_items(ctx)
    reqs += [{'op': 'lookup', 'hier': it['hier'], 'names': c02_flow.LOOKUP_NAMES} for it in lookup_items]
    nlookup = len(lookup_items)
    si_items = setiter_items(ctx)
    reqs += [{'op': 'setiter', 'streams': it} for it in si_items]
    yo_items = c02_flow.yieldorder_items(ctx)
    reqs += [c02_flow.yieldorder_request(it) for it in yo_items]
    # the Lean driver (one call) runs while the real code is exercised in worker processes
    with ThreadPoolExecutor(1) as pool:
        fut = pool.submit(common.run_driver_parallel, 'C02', reqs) if ctx.model_ok else None
        outs = common.parallel_map('props.c02', 'analyse', progs)
        ctx.bind_outs = common.parallel_map('props.c02', 'analyse_bind', ctx.bind_items)
        lookup_outs = common.parallel_map('props.c02_flow', 'analyse_lookup', lookup_items)
        yo_outs = common.parallel_map('props.c02_flow', 'analyse_yieldorder', yo_items)
        answers = fut.result() if fut is not None else [None] * len(reqs)
    how = 'jedi.Script(source).infer(line, 0) vs executing the program (harness/gen/pycore.py:run)'
    for out, ans, (enc, nm), prog in zip(outs, answers, encs, progs):
        src = out['src']
        _, _, dl = P.source(prog)
        meth_line = {(i, nm.ids.get('.' + m) if m is not None else None): ln
                     for (i, m), ln in dl['methods'].items()}
        for k, rec in enumerate(out['probes']):
            case = {'source': src, 'line': rec['line'], 'column': 0}
            if rec['raised']:
                ctx.count('raised', (src, rec['n']), nontrivial=False, bucket=rec['raised'])
                continue
            J = {tuple(t) for t in rec['jedi']}
            # ---- oracle (independent of the model)
            if rec['runtime_top'] is not None:
                rt = tuple(rec['runtime_top'])
                ctx.count('oracle', (src, rec['n']), nontrivial=True, bucket=rt[0],
                          sample={'source': src, 'line': rec['line'], 'runtime': rec['runtime'],
                                  'jedi': rec['jedi']})
                if rt not in J:
                    shape = 'unclassified'
                    if derived_init(prog):
                        shape = 'derived-init-hides-base-self-attribute'
                    if ans is not None and ans.get('wf') and shape == 'unclassified':
                        # may_sound_partial says this cannot happen when model = code
                        ctx.tie_broken('theorem-vs-implementation:may_sound_partial',
                                       short({'source': src, 'line': rec['line']}, 800))
                    ctx.fail('oracle', 'the class of the run-time value is not among the inferred definitions',
                             dict(case, shape=shape), expected=list(rt), observed=rec['jedi'], how=how)
                elif not out['tern'] and not multi_assign_init(prog) and J != {rt}:
                    ctx.fail('oracle', 'only one value can reach the expression but infer reports more',
                             dict(case, shape='not-exact'), expected=[list(rt)], observed=rec['jedi'], how=how)
            # ---- correspondence
            if ans is None:
                continue
            if 'error' in ans:
                raise common.InfraError('driver: %r' % ans)
            m = ans['probes'][k]
            M = {top_of_model(s, meth_line) for s in m['may']}
            ctx.count('may', (src, rec['n']), nontrivial=len(M) > 0, bucket='|may|=%d' % min(len(M), 4))
            if J != M:  # exact since Name.__eq__ tells a class from its instance (/repo 977a1a1)
                ctx.tie_broken('correspondence:may', short({'source': src, 'line': rec['line'],
                                                            'jedi': sorted(J, key=repr), 'model': sorted(M, key=repr)}, 1500))
            if rec['runtime_model'] is not None:
                ctx.count('exec', (src, rec['n']), nontrivial=True)
                if model_value_norm(m['exec'], meth_line) != rec['runtime_model']:
                    # the concrete semantics of the model disagrees with CPython: model bug
                    ctx.tie_broken('correspondence:exec', short({'source': src, 'line': rec['line'],
                                                                 'cpython': rec['runtime_model'], 'model': m['exec']}, 1500))
            elif m['exec'] is not None and out['err'] is None:
                ctx.tie_broken('correspondence:exec', short({'source': src, 'line': rec['line'],
                                                             'cpython': 'probe not reached', 'model': m['exec']}, 1500))
    run_bind(ctx, answers[len(progs):len(progs) + nbind] if ctx.model_ok else None, how)
    c02_flow.judge_lookup(ctx, lookup_items, lookup_outs, answers[len(progs) + nbind:len(progs) + nbind + nlookup])
    nsi = len(si_items)
    judge_setiter(ctx, si_items, answers[len(progs) + nbind + nlookup:len(progs) + nbind + nlookup + nsi]
                  if ctx.model_ok else None)
    c02_flow.judge_yieldorder(ctx, yo_items, yo_outs, answers[len(progs) + nbind + nlookup + nsi:])
    # ---- beyond the fragment: argument binding of methods / lambdas, judged by the direct oracle only
    seeds = ['%s-argbind-%d' % (ctx.seed, i) for i in range(ctx.size(40, 800))]
    for recs in common.parallel_map('props.c02', 'analyse_argbind', seeds):
        for rec in recs:
            if 'skipped' in rec:
                continue
            if rec['raised']:
                ctx.count('raised', (rec['src'], rec['line']), nontrivial=False, bucket=rec['raised'])
                continue
            rt = rec['runtime']
            ctx.count('argbind', (rec['src'], rec['line']), nontrivial=True,
                      sample={'source': rec['src'], 'line': rec['line'], 'runtime': rt, 'jedi': rec['jedi']})
            case = {'source': rec['src'], 'line': rec['line'], 'column': 0, 'shape': 'argument-binding'}
            if rt not in rec['jedi']:
                ctx.fail('oracle', 'the class of the run-time value is not among the inferred definitions',
                         case, expected=rt, observed=rec['jedi'], how=how)
            elif rec['jedi'] != [rt]:
                ctx.fail('oracle', 'only one value can reach the expression but infer reports more',
                         case, expected=[rt], observed=rec['jedi'], how=how)
    ctx.obligations['assumptions'] = [
        'argument binding: the model covers calls without */** unpacking to functions whose parameters are '
        'plain, *args, keyword-only or **kwargs (no positional-only `/`); how a bound lazy value is then inferred '
        '(FakeTuple / FakeDict indexing, defaults evaluated in the defining context), methods (bound self) and '
        'lambdas are covered by the direct oracle only; one calling node per call; keyword names are non-empty '
        '(`if key:` is modelled as `key is not None`)',
        'PyCore programs are generated in SSA form (every module-level name bound once) with parameter, attribute '
        'and module name pools disjoint; the abstract program, its printed source and its encoding for the model '
        'come from harness/gen/pycore.py and harness/props/c02.py:encode (trusted)',
        'CPython is the ground truth for evalC; jedi for mayE',
    ]
    c02_flow.finish(ctx, flow)


WITNESSES = [
    # a derived __init__ hides the base __init__: jedi still reports the base's self attribute
    [['class', 'C0', None, [], [[], [['b0', ['int']]]], []],
     ['class', 'C1', 'C0', [['b0', ['str']]], [[], []], []],
     ['probe', ['attr', ['call', ['name', 'C1'], []], 'b0']]],
    # a class and its instance reach one expression: the API reports only one of them
    [['class', 'C0', None, []], ['assign', 'v0', ['tern', True, ['call', ['name', 'C0'], []], ['name', 'C0']]],
     ['probe', ['name', 'v0']]],
]


def replay(ctx, payload):
    if payload.get('stream') == 'flow':
        return c02_flow.replay(ctx, payload)
    import jedi
    inp = payload['input']
    print(inp['source'])
    print('infer(%d, %d) ->' % (inp['line'], inp['column']),
          [(d.name, d.type, d.line, d.module_name) for d in jedi.Script(inp['source']).infer(inp['line'], inp['column'])])
    print('expected:', payload.get('expected'), 'observed at record time:', payload.get('observed'))
    return 0

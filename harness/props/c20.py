"""C20 - Project settings round-trip and shape sys.path as documented.

Streams
  dedup        project._remove_duplicates_from_path vs Model.SysPath.removeDups (exhaustive small lists)
  pathlib      the model's pathlib parameter (parsePath / pathStr / parentsOf) vs the real PurePosixPath
  syspath      Project(**kw) + Script(path=..)._inference_state.get_sys_path(..) for the three
               argument combinations jedi itself uses, on real scratch trees, vs Model.SysPath.init +
               getSysPath (constructor arguments str/Path, relative/absolute, unicode, duplicates,
               prefix-related entries x script inside/outside the project at depth 0..4 with/without
               __init__.py, buildout scripts, sys_path=None -> environment)
  saveload     Project(**kw) [get_environment()] .save(); Project.load(): constructed and loaded
               attributes (or the exception class) vs Model.SysPath.init/save/load
  oracle-*     the property itself on the same runs, computed independently of the model:
               no duplicates, project first, base order kept, added then in-project ancestors
               (oracle-syspath); loaded project == saved project (oracle-saveload); which of
               several same-named modules `import m` resolves to (oracle-import)
"""
import itertools
import json
import os
from pathlib import Path, PurePosixPath

import common
from common import short
from gen import scratch
from gen.scratch import B, Scratch, mat, enc

MODELS = ['SysPath']
MANIFEST = dict(
    text='Theorems over the model of Project.__init__/save/load and Project._get_sys_path '
         '(_remove_duplicates_from_path, _get_base_sys_path, the upward ancestor loop): the composed path is '
         'dedup(prefixed) ++ first occurrences of base ++ first occurrences of suffixed (sys_path_shape), has no '
         'duplicates, starts with the project path when smart_sys_path is on, keeps the base entries in their '
         'order (filter = first-occurrence dedup, a subsequence of the given list), puts added_sys_path + buildout + '
         'ancestors after every base entry; the ancestor loop with its break equals a filter over the parents '
         '(strictly inside the project, no __init__.py unless asked, outermost first); Importer searches this list '
         'first; save/load round-trips path (made absolute) and the five settings for environment_path None/str '
         '(save_load_roundtrip_partial; kernel-checked counter-witness for a Path, F5) and for every constructor '
         'call once __init__ applies str() (save_load_roundtrip_of_env_str). The composition order, reversed(), '
         'popped keys, attribute/parameter names, serializer version are read from the source by the translator.',
    note='Modelled not verified: pathlib (parse/str/parents enter as executable parameters, sampled by stream '
         'pathlib; Path(str(p)) == p is an explicit hypothesis), json (identity on None/bool/str/list-of-str), '
         'the environment sys.path and discover_buildout_paths (inputs), the memoisation of _get_sys_path, '
         'get_default_project.',
    technique='Lean 4 proof over hand-written model + translator-generated constants + differential '
              'correspondence on real scratch directories + independent property oracle',
    design='5.C20')
LEAN_TARGETS = ['JediModel.Props.C20', 'JediModel.Drivers.C20']


# ----------------------------------------------------------------- small helpers

def first_occurrences(xs):
    return list(dict.fromkeys(xs))


def canon_list(xs):
    """what jedi returned, entries must be str"""
    if not isinstance(xs, list):
        return {'not-a-list': repr(xs)}
    return [x if isinstance(x, str) else {'nonstr': repr(x)} for x in xs]


def proj_attrs(p):
    """the API-visible attributes in the shape the Lean driver prints a Project"""
    return {'path': list(p.path.parts) if isinstance(p.path, Path) else {'nonpath': repr(p.path)},
            'environment_path': enc(p._environment_path),
            'sys_path': enc(p.sys_path), 'added_sys_path': enc(p.added_sys_path),
            'smart_sys_path': p.smart_sys_path, 'load_unsafe_extensions': p.load_unsafe_extensions}


def kind_of(v):
    if v is None:
        return 'None'
    if isinstance(v, bool):
        return 'bool'
    k, x = v
    if k in ('str', 'path'):
        rel = not x.startswith(B) and not x.startswith('/')
        return ('Path' if k == 'path' else 'str') + ('-rel' if rel else '-abs')
    return k


# ----------------------------------------------------------------- stream: dedup

def stream_dedup(ctx, reqs):
    from jedi.api import project
    cases = []
    alphabet = ['a', 'b', '', 'a/']
    lists = [list(p) for n in range(ctx.size(5, 7)) for p in itertools.product(alphabet, repeat=n)]
    rng = ctx.subrng('dedup')
    for _ in range(ctx.size(200, 3000)):
        lists.append([rng.choice(['x', 'y', 'z', 'é', 'x/y', '/x', '']) for _ in range(rng.randint(0, 10))])
    for l in lists:
        impl = canon_list(list(project._remove_duplicates_from_path(list(l))))
        reqs.append({'op': 'dedup', 'path': l})
        cases.append((('dedup', l), impl))
    return cases


# ----------------------------------------------------------------- stream: pathlib

def stream_pathlib(ctx, reqs):
    rng = ctx.subrng('pathlib')
    comps = ['a', 'b', '..', '.', '', 'é', 'a.b', ' ']
    cases = []
    strings = set()
    for n in range(4):
        for p in itertools.product(comps, repeat=n):
            for lead in ('', '/'):
                strings.add(lead + '/'.join(p))
    strings = sorted(s for s in strings if not (s.startswith('//') and not s.startswith('///')))
    if ctx.quick:
        strings = rng.sample(strings, min(len(strings), 400))
    for s in strings:
        pp = PurePosixPath(s)
        reqs.append({'op': 'parse', 's': s})
        cases.append((('pathlib', 'parse', s), list(pp.parts)))
        reqs.append({'op': 'str', 'parts': list(pp.parts)})
        cases.append((('pathlib', 'str', s), str(pp)))
        reqs.append({'op': 'parents', 'parts': list(pp.parts)})
        cases.append((('pathlib', 'parents', s), [list(q.parts) for q in pp.parents]))
    return cases


# ----------------------------------------------------------------- generators for Project arguments

DIRS = ['pa', 'pb', 'pé']


def gen_entry(rng, pool):
    """one sys_path / added_sys_path element as a spec value"""
    text = rng.choice(pool)
    return ['path' if rng.random() < 0.3 else 'str', text]


def gen_tree_case(rng):
    """a project somewhere below the case directory, a script somewhere, constructor arguments"""
    proj_rel = rng.choice(['pr', 'pr', 'w/pr', 'pr é'])
    depth = rng.randint(0, 4)
    chain = [rng.choice(DIRS) for _ in range(depth)]
    where = rng.random()
    if where < 0.65:
        top = proj_rel                     # inside the project
    elif where < 0.75:
        top = proj_rel + '2'               # a sibling whose name has the project path as string prefix
    elif where < 0.85:
        top = 'out'                        # somewhere else
    elif where < 0.92:
        top = os.path.dirname(proj_rel)    # above the project
        chain = []
    else:
        top = None                         # no script path at all
    dirs = [proj_rel, 'lib1', 'lib2']
    inits = []
    script = None
    if top is not None:
        d = top
        for c in chain:
            d = os.path.join(d, c) if d else c
            dirs.append(d)
            if rng.random() < 0.4:
                inits.append(d)
        if top:
            dirs.append(top)
        if rng.random() < 0.15 and top == proj_rel:
            inits.append(proj_rel)
        script = os.path.join(d, 's.py') if d else 's.py'
    # constructor arguments
    pk = rng.random()
    if pk < 0.3:
        path = ['str', B + '/' + proj_rel]
    elif pk < 0.5:
        path = ['str', rng.choice([proj_rel, proj_rel + '/', './' + proj_rel])]
    elif pk < 0.8:
        path = ['path', B + '/' + proj_rel]
    else:
        path = ['path', proj_rel]
    pool = [B + '/lib1', B + '/lib2', B + '/' + proj_rel, B + '/' + proj_rel + '/', B + '/' + proj_rel + '/pa',
            B + '/' + proj_rel + '2', B + '/lib', '', 'rel', B + '/lib1/', B + '/libé']
    kw = {'path': path}
    r = rng.random()
    if r < 0.8:
        kw['sys_path'] = ['list', [gen_entry(rng, pool) for _ in range(rng.randint(0, 4))]]
    elif r < 0.9:
        kw['sys_path'] = None
    if rng.random() < 0.6:
        kw['added_sys_path'] = [rng.choice(['list', 'tuple']),
                                [gen_entry(rng, pool) for _ in range(rng.randint(0, 3))]]
    if rng.random() < 0.35:
        kw['smart_sys_path'] = rng.random() < 0.4
    buildout = None
    if top == proj_rel and rng.random() < 0.12:
        # buildout.cfg in the project, one bin script that prepends eggs to sys.path
        eggs = [B + '/eggs/' + e for e in rng.sample(['a', 'b'], rng.randint(1, 2))]
        buildout = {'root': proj_rel, 'eggs': eggs}
    return {'dirs': sorted(set(dirs)), 'inits': sorted(set(inits)), 'script': script,
            'script_arg': rng.choice(['abs', 'rel']), 'kw': kw, 'buildout': buildout}


def materialise(spec, base):
    scratch.build(base, dirs=spec['dirs'],
                  files=[(os.path.join(d, '__init__.py'), '') for d in spec['inits']])
    if spec.get('buildout'):
        b = spec['buildout']
        scratch.build(base, files=[
            (os.path.join(b['root'], 'buildout.cfg'), '[buildout]\n'),
            (os.path.join(b['root'], 'bin', 'run'),
             '#!/usr/bin/python\nimport sys\nsys.path[0:0] = %r\n' % [e.replace(B, base) for e in b['eggs']])])
    for name, content in spec.get('files', []):
        scratch.build(base, files=[(name, content)])


def make_project(spec, base):
    import jedi
    kw = {k: mat(v, base) for k, v in spec['kw'].items()}
    path = kw.pop('path')
    return jedi.Project(path, **kw)


def make_script(spec, base, proj, code=''):
    import jedi
    if spec['script'] is None:
        return jedi.Script(code, project=proj)
    arg = spec['script'] if spec['script_arg'] == 'rel' else os.path.join(base, spec['script'])
    return jedi.Script(code, path=arg, project=proj)


# ----------------------------------------------------------------- the property, independently

def documented_sys_path(spec, base, proj, env_sys_path, for_imports=False):
    """The search path the documentation promises, computed with os.path only.
    Returns (list, ancestors) or None when the inputs use spellings ('..') for which 'inside the
    project' is not a lexical question."""
    texts = [spec['kw']['path'][1], spec['script'] or '']
    if any('..' in t.split('/') for t in texts):
        return None
    proj_dir = os.path.normpath(os.path.join(base, mat(spec['kw']['path'], base)))
    smart = spec['kw'].get('smart_sys_path', True)
    if spec['kw'].get('sys_path') is not None:
        basep = [str(x) for x in mat(spec['kw']['sys_path'], base)]
    else:
        basep = list(env_sys_path)
        if '' in basep:
            basep.remove('')
    added = [str(x) for x in mat(spec['kw'].get('added_sys_path', ['tuple', []]), base)]
    anc = []
    if smart and spec['script'] is not None:
        d = os.path.dirname(os.path.normpath(os.path.join(base, spec['script'])))
        while d != proj_dir and d.startswith(proj_dir + os.sep):
            if for_imports or not os.path.isfile(os.path.join(d, '__init__.py')):
                anc.append(d)
            d = os.path.dirname(d)
        anc.reverse()
    head = [str(proj.path)] if smart else []
    return first_occurrences(head + basep + added + anc), head, basep, added, anc


def oracle_syspath(ctx, spec, base, proj, real, env_sys_path, buildout):
    """the property on `get_sys_path()` (default arguments)"""
    case = {'proj_arg': kind_of(spec['kw']['path']), 'spec': spec}
    how = 'materialise spec in a scratch dir (harness/props/c20.py:replay), Project(**kw), ' \
          'Script(path=script, project=p)._inference_state.get_sys_path()'
    nontriv = False

    def fail(what, expected=None, observed=None):
        ctx.fail('oracle-syspath', what, case, expected=unmat_deep(expected, base),
                 observed=unmat_deep(observed, base), how=how)

    if not isinstance(real, list) or any(not isinstance(x, str) for x in real):
        fail('sys path is not a list of str', observed=repr(real))
        return
    if len(set(real)) != len(real):
        fail('effective sys path contains duplicates', observed={'clause': 'duplicates', 'sys_path': real})
    doc = documented_sys_path(spec, base, proj, env_sys_path)
    if doc is None:
        ctx.count('oracle-syspath', json.dumps(spec, sort_keys=True), nontrivial=False, bucket='dotdot')
        return
    full, head, basep, added, anc = doc
    smart = spec['kw'].get('smart_sys_path', True)
    if smart and (not real or real[0] != str(proj.path)):
        fail('project directory is not first although smart_sys_path is on', expected=str(proj.path), observed={'clause': 'head', 'sys_path': real})
    keep = [p for p in real if p in set(basep) and p not in head]
    want = first_occurrences([b for b in basep if b not in head])
    if keep != want:
        fail('base sys_path entries are not kept in their order', expected=want, observed={'clause': 'base-order', 'sys_path': real})
    tail = [p for p in real if p not in set(basep) and p not in head and p not in buildout]
    want_tail = [p for p in first_occurrences(added + anc) if p not in set(basep) and p not in head
                 and p not in buildout]
    if tail != want_tail:
        missing = [p for p in want_tail if p not in tail]
        extra = [p for p in tail if p not in want_tail]
        clause = 'ancestors-missing' if missing and not extra and all(m in anc for m in missing) else 'suffix'
        fail('added_sys_path / in-project ancestors are not appended as documented', expected=want_tail, observed={'clause': clause, 'missing': missing, 'extra': extra,
                                              'sys_path': real})
    elif keep == want and (not smart or real[:1] == head):
        # every clause holds separately: the blocks must also come in the documented order
        # (project, base entries, then the appended entries; buildout paths are not judged)
        rest = [p for p in real if p not in buildout or p in head or p in basep or p in want_tail]
        if rest != head + want + want_tail:
            fail('added_sys_path / ancestors are not appended after the base entries', expected=head + want + want_tail, observed={'clause': 'block-order', 'sys_path': real})
    nontriv = len(real) >= 3
    ctx.count('oracle-syspath', json.dumps(spec, sort_keys=True), nontrivial=nontriv,
              bucket='%s/anc=%d' % (kind_of(spec['kw']['path']), len(anc)))


# ----------------------------------------------------------------- stream: syspath

def stream_syspath(ctx, reqs, sc):
    from jedi.inference.sys_path import discover_buildout_paths
    rng = ctx.subrng('syspath')
    cases = []
    specs = [fixed_relative_path_case()] + [gen_tree_case(rng) for _ in range(ctx.size(350, 6000))]
    for spec in specs:
        base = sc.case_dir()
        materialise(spec, base)
        try:
            proj = make_project(spec, base)
            script = make_script(spec, base, proj)
            st = script._inference_state
            real = {'default': canon_list(st.get_sys_path()),
                    'init_paths': canon_list(st.get_sys_path(add_init_paths=True)),
                    'no_parents': canon_list(st.get_sys_path(add_parent_paths=False))}
            constructed = proj_attrs(proj)
        except Exception as e:   # noqa: the total model has no such outcome: a disagreement
            cls, site = common.exc_site(e)
            real, constructed, st = {'EXC': [cls, site]}, None, None
        env = []
        buildout = []
        parts = None
        inits = []
        if st is not None:
            if proj.sys_path is None:
                env = list(st.environment.get_sys_path())
            if st.script_path is not None:
                parts = list(st.script_path.parts)
                inits = [list(p.parts) for p in st.script_path.parents
                         if p.joinpath('__init__.py').is_file()]
                if proj.smart_sys_path:
                    buildout = [str(p) for p in discover_buildout_paths(st, st.script_path)]
            oracle_syspath(ctx, spec, base, proj, st.get_sys_path(), env, buildout)
        kw = {k: enc(mat(v, base)) for k, v in spec['kw'].items()}
        reqs.append({'op': 'project_syspath', 'cwd': list(Path(base).parts),
                     'kw': [[k, v] for k, v in kw.items()], 'script': parts, 'inits': inits,
                     'env': env, 'buildout': buildout, 'django': False})
        cases.append((('syspath', spec, base), {'constructed': constructed, **real}))
    return cases


def fixed_relative_path_case():
    """DESIGN section 6 style probe kept alive: a relative pathlib.Path as project path"""
    return {'dirs': ['pr', 'pr/pa'], 'inits': [], 'script': 'pr/pa/s.py', 'script_arg': 'rel',
            'kw': {'path': ['path', 'pr'], 'sys_path': ['list', [['str', B + '/lib1']]]}, 'buildout': None}


# ----------------------------------------------------------------- stream: saveload

def gen_saveload_case(rng):
    proj_rel = rng.choice(['pr', 'w/pr', 'pr é'])
    pk = rng.random()
    if pk < 0.3:
        path = ['str', B + '/' + proj_rel]
    elif pk < 0.55:
        path = ['str', rng.choice([proj_rel, proj_rel + '/', './' + proj_rel])]
    elif pk < 0.8:
        path = ['path', B + '/' + proj_rel]
    else:
        path = ['path', proj_rel]
    pool = [B + '/lib1', 'rel', '', 'é/ü', B + '/lib1', '/x y', 'a"b\\c', ' ']
    kw = {'path': path}
    r = rng.random()
    if r < 0.3:
        kw['environment_path'] = ['str', rng.choice(['/venv', 'venv é', ''])]
    elif r < 0.45:
        kw['environment_path'] = ['path', rng.choice(['/venv', 'rel/venv'])]
    elif r < 0.55:
        kw['environment_path'] = None
    r = rng.random()
    if r < 0.6:
        kw['sys_path'] = ['list', [gen_entry(rng, pool) for _ in range(rng.randint(0, 4))]]
    elif r < 0.7:
        kw['sys_path'] = None
    if rng.random() < 0.6:
        kw['added_sys_path'] = [rng.choice(['list', 'tuple']),
                                [gen_entry(rng, pool) for _ in range(rng.randint(0, 3))]]
    if rng.random() < 0.5:
        kw['smart_sys_path'] = rng.random() < 0.5
    if rng.random() < 0.5:
        kw['load_unsafe_extensions'] = rng.random() < 0.5
    touch_env = 'environment_path' not in kw or kw['environment_path'] is None
    return {'kw': kw, 'touch_env': touch_env and rng.random() < 0.3, 'dirs': [proj_rel]}


def run_saveload(spec, base):
    """-> (constructed attrs, outcome, project, loaded project or None)"""
    import jedi
    kw = {k: mat(v, base) for k, v in spec['kw'].items()}
    path = kw.pop('path')
    proj = jedi.Project(path, **kw)
    if spec.get('touch_env'):
        proj.get_environment()
    constructed = proj_attrs(proj)
    try:
        proj.save()
    except Exception as e:   # noqa
        return constructed, {'save': {'error': type(e).__name__}, 'message': str(e)}, proj, None
    try:
        loaded = jedi.Project.load(path)
    except Exception as e:   # noqa
        return constructed, {'load': {'error': type(e).__name__}, 'message': str(e)}, proj, None
    return constructed, {'loaded': proj_attrs(loaded)}, proj, loaded


def same_setting(a, b):
    if a is None or b is None:
        return a is None and b is None
    if isinstance(a, (str, Path)) and isinstance(b, (str, Path)):
        return os.fspath(a) == os.fspath(b)
    return a == b


def oracle_saveload(ctx, spec, proj, outcome, loaded):
    case = {'environment_path_kind': kind_of(spec['kw'].get('environment_path')).split('-')[0],
            'spec': spec}
    how = 'in a scratch dir: p = jedi.Project(**kw); p.save(); q = jedi.Project.load(path)'
    if loaded is None:
        ctx.fail('oracle-saveload', 'Project.save()/load() raises', case,
                 observed={k: v for k, v in outcome.items()}, how=how)
        return
    bad = {}
    if loaded.path != proj.path.absolute():
        bad['path'] = [str(proj.path.absolute()), str(loaded.path)]
    for attr in ('sys_path', 'added_sys_path', 'smart_sys_path', 'load_unsafe_extensions',
                 '_environment_path'):
        a, b = getattr(proj, attr), getattr(loaded, attr)
        if not same_setting(a, b) or (a is not None and type(a) in (list, bool) and type(a) is not type(b)):
            bad[attr] = [repr(a), repr(b)]
    if bad:
        ctx.fail('oracle-saveload', 'loaded project differs from the saved one', case,
                 observed={'differs': bad}, how=how)


def stream_saveload(ctx, reqs, sc):
    rng = ctx.subrng('saveload')
    cases = []
    fixed = [{'kw': {'path': ['str', B + '/pr'], 'environment_path': ['path', '/venv']},
              'touch_env': False, 'dirs': ['pr']}]
    for spec in fixed + [gen_saveload_case(rng) for _ in range(ctx.size(300, 5000))]:
        base = sc.case_dir()
        scratch.build(base, dirs=spec['dirs'])
        try:
            constructed, outcome, proj, loaded = run_saveload(spec, base)
        except Exception as e:   # noqa
            cls, site = common.exc_site(e)
            constructed, outcome, proj, loaded = None, {'EXC': [cls, site]}, None, None
        if proj is not None:
            oracle_saveload(ctx, spec, proj, outcome, loaded)
            ctx.count('oracle-saveload', json.dumps(spec, sort_keys=True), nontrivial=loaded is not None,
                      bucket='env=' + kind_of(spec['kw'].get('environment_path')))
        kw = {k: enc(mat(v, base)) for k, v in spec['kw'].items()}
        reqs.append({'op': 'saveload', 'cwd': list(Path(base).parts), 'kw': [[k, v] for k, v in kw.items()],
                     'environment': bool(spec.get('touch_env')), 'django': False})
        impl = {'constructed': constructed}
        impl.update({k: v for k, v in outcome.items() if k != 'message'})
        cases.append((('saveload', spec, base), impl))
    return cases


# ----------------------------------------------------------------- stream: savehist
#
# Histories of saves into ONE project directory: a project.json may already be there (an earlier save of other
# settings, longer or shorter; a file written by something else).  After every save the file must hold exactly
# what that save serialised (model: Model/ProjFile.trace with the open mode read from Project.save) and load()
# must give the settings just saved (oracle).

def gen_savehist_case(rng):
    proj_rel = rng.choice(['pr', 'w/pr'])
    n = rng.randint(2, 4)
    steps = []
    for _ in range(n):
        c = gen_saveload_case(rng)
        kw = dict(c['kw'])
        kw['path'] = ['str', B + '/' + proj_rel]
        if isinstance(kw.get('environment_path'), list) and kw['environment_path'][0] == 'path':
            kw['environment_path'] = ['str', kw['environment_path'][1]]
        steps.append(kw)
    # make the lengths differ on purpose: one step with many long entries, one with defaults only
    r = rng.random()
    if r < 0.5:
        i, j = rng.sample(range(n), 2)
        steps[i] = dict(steps[i], added_sys_path=['list', [['str', B + '/lib%d' % k] for k in range(rng.randint(3, 7))]])
        steps[j] = {'path': steps[j]['path']}
    pre = rng.choice([None, None, 'garbage-long', 'newer-version', 'empty'])
    return {'dirs': [proj_rel], 'steps': steps, 'pre': pre}


PRE_FILES = {'garbage-long': '[1, {"path": "/nowhere", "added_sys_path": ["' + 'x' * 300 + '"]}]',
             'newer-version': '[2, {"path": "/nowhere", "flux": ["' + 'y' * 120 + '"]}]',
             'empty': ''}


def run_savehist(spec, base):
    """-> (pre content or None, [per step: {'ref': serialisation into an empty place, 'file': content after the save
    in the history, 'saved': attrs, 'outcome': loaded attrs | error}], projects, loaded projects)"""
    import jedi
    path = mat(spec['steps'][0]['path'], base)
    jpath = os.path.join(path, '.jedi', 'project.json')
    projs = []
    for kw in spec['steps']:
        kw = {k: mat(v, base) for k, v in kw.items()}
        kw.pop('path')
        projs.append(jedi.Project(path, **kw))
    refs = []
    for pr in projs:                       # reference serialisations: the file is removed before every save
        if os.path.exists(jpath):
            os.remove(jpath)
        pr.save()
        with open(jpath, newline='') as f:
            refs.append(f.read())
    os.remove(jpath)
    pre = None
    if spec['pre'] is not None:
        pre = PRE_FILES[spec['pre']]
        with open(jpath, 'w', newline='') as f:
            f.write(pre)
    out, loaded_projs = [], []
    for pr, ref in zip(projs, refs):
        step = {'ref': ref, 'saved': proj_attrs(pr)}
        try:
            pr.save()
        except Exception as e:   # noqa
            step['outcome'] = {'save': {'error': type(e).__name__}, 'message': str(e)[:200]}
            out.append(step)
            loaded_projs.append(None)
            continue
        with open(jpath, newline='') as f:
            step['file'] = f.read()
        try:
            q = jedi.Project.load(path)
            step['outcome'] = {'loaded': proj_attrs(q)}
            loaded_projs.append(q)
        except Exception as e:   # noqa
            step['outcome'] = {'load': {'error': type(e).__name__}, 'message': str(e)[:200]}
            loaded_projs.append(None)
        out.append(step)
    return pre, out, projs, loaded_projs


def stream_savehist(ctx, reqs, sc):
    rng = ctx.subrng('savehist')
    cases = []
    fixed = [{'dirs': ['pr'], 'pre': None,
              'steps': [{'path': ['str', B + '/pr'], 'added_sys_path': ['list', [['str', B + '/lib1'], ['str', B + '/lib2']]]},
                        {'path': ['str', B + '/pr']}]},
             {'dirs': ['pr'], 'pre': 'garbage-long', 'steps': [{'path': ['str', B + '/pr']}, {'path': ['str', B + '/pr'], 'smart_sys_path': False}]}]
    for spec in fixed + [gen_savehist_case(rng) for _ in range(ctx.size(120, 2500))]:
        base = sc.case_dir()
        scratch.build(base, dirs=spec['dirs'])
        try:
            pre, steps, projs, loaded = run_savehist(spec, base)
        except Exception as e:   # noqa
            cls, site = common.exc_site(e)
            ctx.count('savehist-raised', json.dumps(spec, sort_keys=True), nontrivial=False, bucket=cls)
            continue
        lens = [len(st['ref']) for st in steps]
        seq = ([len(pre)] if pre is not None else []) + lens
        shrinks = any(b < a for a, b in zip(seq, seq[1:]))
        how = ('in a scratch dir, one project directory: [write a pre-existing .jedi/project.json]; for each step: '
               'p = jedi.Project(path, **kw); p.save(); q = jedi.Project.load(path)')
        for i, (st, pr, q) in enumerate(zip(steps, projs, loaded)):
            case = {'spec': spec, 'step': i, 'shrinks': shrinks}
            ctx.count('oracle-savehist', json.dumps([spec, i], sort_keys=True), nontrivial=shrinks,
                      bucket='pre=%s/steps=%d/%s' % (spec['pre'], len(steps), 'shrinks' if shrinks else 'grows'))
            if q is None:
                ctx.fail('oracle-savehist', 'Project.save()/load() raises after an earlier save into the same directory',
                         case, observed={k: v for k, v in st['outcome'].items()}, how=how)
                break
            oracle_saveload(ctx, {'kw': spec['steps'][i], 'history': spec}, pr, st['outcome'], q)
        reqs.append({'op': 'savehist', 'pre': pre, 'writes': [st['ref'] for st in steps]})
        cases.append((('savehist', spec, base), {'files': [st.get('file') for st in steps]}))
    return cases


# ----------------------------------------------------------------- stream: defaultproject
#
# get_default_project(path): the real function on generated directory chains vs Model/DefaultProject.  The
# per-directory facts handed to the model are probed by the harness itself (os / open), for EVERY parent up to /.

POTENTIAL = ['setup.py', '.git', '.hg', 'requirements.txt', 'MANIFEST.in', 'pyproject.toml']


def dir_facts(d):
    """[load, hasInit, isFile, django, potential] of one directory of the walk, by the harness' own probes"""
    cfg = os.path.join(d, '.jedi', 'project.json')
    if os.path.isfile(d):
        load = 'notadir'
    elif os.path.isfile(cfg):
        load = 'loaded'
    else:
        load = 'missing'
    django = False
    try:
        with open(os.path.join(d, 'manage.py'), 'rb') as f:
            django = b'DJANGO_SETTINGS_MODULE' in f.read()
    except OSError:
        pass
    return [load, os.path.exists(os.path.join(d, '__init__.py')), os.path.isfile(d), django,
            any(os.path.exists(os.path.join(d, n)) for n in POTENTIAL)]


def gen_defaultproject_case(rng):
    depth = rng.randint(1, 5)
    levels = []
    for _ in range(depth):
        lv = {'name': rng.choice(['pa', 'pb', 'pkg', 'src é']),
              'init': rng.random() < 0.45,
              'config': rng.random() < 0.15,
              'manage': rng.choice([None, None, None, 'django', 'plain']),
              'potential': rng.choice([None, None] + POTENTIAL)}
        levels.append(lv)
    return {'levels': levels, 'start': rng.choice(['dir', 'dir', 'file', 'missing-file'])}


def build_defaultproject(spec, base):
    d = base
    for lv in spec['levels']:
        d = os.path.join(d, lv['name'])
        os.makedirs(d, exist_ok=True)
        if lv['init']:
            open(os.path.join(d, '__init__.py'), 'w').close()
        if lv['config']:
            os.makedirs(os.path.join(d, '.jedi'), exist_ok=True)
            with open(os.path.join(d, '.jedi', 'project.json'), 'w') as f:
                json.dump([1, {'path': d}], f)
        if lv['manage']:
            with open(os.path.join(d, 'manage.py'), 'w') as f:
                f.write("import os\nos.environ.setdefault('DJANGO_SETTINGS_MODULE', 'x.settings')\n"
                        if lv['manage'] == 'django' else 'print(1)\n')
        if lv['potential']:
            pth = os.path.join(d, lv['potential'])
            if lv['potential'].startswith('.'):
                os.makedirs(pth, exist_ok=True)
            else:
                open(pth, 'w').close()
    if spec['start'] == 'dir':
        return d
    start = os.path.join(d, 'mod.py')
    if spec['start'] == 'file':
        open(start, 'w').close()
    return start


def stream_defaultproject(ctx, reqs, sc):
    from jedi.api.project import get_default_project
    rng = ctx.subrng('defaultproject')
    cases = []
    fixed = [{'levels': [{'name': 'pa', 'init': False, 'config': False, 'manage': None, 'potential': '.git'},
                         {'name': 'pkg', 'init': True, 'config': False, 'manage': None, 'potential': 'setup.py'},
                         {'name': 'pb', 'init': True, 'config': False, 'manage': None, 'potential': None}],
              'start': 'file'}]
    for spec in fixed + [gen_defaultproject_case(rng) for _ in range(ctx.size(150, 3000))]:
        base = sc.case_dir()
        start = build_defaultproject(spec, base)
        chain = [start]
        while os.path.dirname(chain[-1]) != chain[-1]:
            chain.append(os.path.dirname(chain[-1]))
        facts = [dir_facts(d) for d in chain]
        try:
            proj = get_default_project(start if rng.random() < 0.5 else Path(start))
            impl = {'path': str(proj._path), 'django': bool(getattr(proj, '_django', False))}
        except Exception as e:   # noqa
            impl = {'raised': '%s at %s' % common.exc_site(e)}
        reqs.append({'op': 'defaultproject', 'chain': facts})
        cases.append((('defaultproject', spec, base), {'impl': impl, 'chain': chain, 'start': start}))
    return cases


# ----------------------------------------------------------------- stream: which module wins

def stream_import_effect(ctx, sc):
    """public effect of the composed path: `import zqm` with several zqm.py on the path"""
    import jedi
    rng = ctx.subrng('import')
    for _ in range(ctx.size(60, 1500)):
        proj_rel = 'pr'
        chain = [rng.choice(['pa', 'pb']) for _ in range(rng.randint(0, 3))]
        dirs = [proj_rel, 'lib1', 'lib2']
        d = proj_rel
        anc_dirs = []
        for c in chain:
            d = d + '/' + c
            dirs.append(d)
            anc_dirs.append(d)
        candidates = ['lib1', 'lib2', proj_rel] + anc_dirs
        holders = [c for c in candidates if rng.random() < 0.45]
        entries = rng.sample(['lib1', 'lib2'], rng.randint(0, 2))
        if rng.random() < 0.2 and entries:
            entries.append(entries[0])
        added = [e for e in ['lib1', 'lib2'] if rng.random() < 0.3]
        spec = {'dirs': sorted(set(dirs)), 'inits': [], 'script': d + '/s.py', 'script_arg': 'abs',
                'kw': {'path': ['str', B + '/' + proj_rel],
                       'sys_path': ['list', [['str', B + '/' + e] for e in entries]],
                       'added_sys_path': ['list', [['str', B + '/' + e] for e in added]]},
                'buildout': None,
                'files': [(h + '/zqm.py', 'marker = %d\n' % i) for i, h in enumerate(holders)]}
        if rng.random() < 0.25:
            spec['kw']['smart_sys_path'] = False
        base = sc.case_dir()
        materialise(spec, base)
        proj = make_project(spec, base)
        script = make_script(spec, base, proj, code='import zqm\nzqm')
        doc = documented_sys_path(spec, base, proj, [], for_imports=True)[0]
        expected = None
        for entry in doc:
            f = os.path.join(entry, 'zqm.py')
            if os.path.isfile(f):
                expected = f
                break
        case = {'spec': spec}
        how = 'materialise spec; Script("import zqm\\nzqm", path=script, project=p).infer(2, 0) / ' \
              '.goto(1, 7, follow_imports=True)'
        try:
            got_infer = sorted(str(n.module_path) for n in script.infer(2, 0))
            got_goto = sorted(str(n.module_path) for n in script.goto(1, 7, follow_imports=True))
        except Exception as e:   # noqa  totality is C01's business
            cls, site = common.exc_site(e)
            ctx.count('raised', json.dumps(spec, sort_keys=True), nontrivial=False, bucket='%s@%s' % (cls, site))
            continue
        want = [expected] if expected else []
        for label, got in (('infer', got_infer), ('goto', got_goto)):
            if got != want:
                ctx.fail('oracle-import', 'import resolves to a different module than the first one on the '
                         'documented search path (%s)' % label, case,
                         expected=[scratch.unmat_text(w, base) for w in want],
                         observed=[scratch.unmat_text(g, base) for g in got], how=how)
        ctx.count('oracle-import', json.dumps(spec, sort_keys=True), nontrivial=len(holders) >= 2,
                  bucket='holders=%d' % min(len(holders), 4),
                  sample={'holders': holders, 'sys_path': entries, 'added': added,
                          'resolved': [scratch.unmat_text(g, base) for g in got_infer]})


# ----------------------------------------------------------------- compare

def unmat_deep(x, base):
    return json.loads(json.dumps(x).replace(json.dumps(base)[1:-1], B))


def compare(ctx, cases, answers):
    for (key, impl), ans in zip(cases, answers):
        stream = key[0]
        if isinstance(ans, dict) and 'error' in ans and stream in ('dedup', 'pathlib'):
            raise common.InfraError('driver error: %r' % ans)
        if stream == 'dedup':
            ctx.count('dedup', key, nontrivial=len(set(key[1])) < len(key[1]), bucket='len=%d' % min(len(key[1]), 6),
                      sample={'path': key[1], 'result': impl})
            if ans != impl:
                ctx.tie_broken('correspondence:dedup', short({'case': key[1], 'impl': impl, 'model': ans}))
                if impl != first_occurrences(key[1]):
                    ctx.fail('dedup', '_remove_duplicates_from_path does not keep exactly the first occurrences',
                             {'path': key[1]}, expected=first_occurrences(key[1]), observed=impl,
                             how='list(jedi.api.project._remove_duplicates_from_path(path))')
        elif stream == 'pathlib':
            ctx.count('pathlib', key, nontrivial=True, bucket=key[1])
            if ans != impl:
                ctx.tie_broken('correspondence:pathlib',
                               short({'case': key[1:], 'pathlib': impl, 'model': ans}))
        elif stream == 'syspath':
            spec, base = key[1], key[2]
            model = {'constructed': ans.get('constructed'), 'default': ans.get('default'),
                     'init_paths': ans.get('init_paths'), 'no_parents': ans.get('no_parents')}
            if 'init' in ans:
                model = {'init': ans['init']}
            ctx.count('syspath', json.dumps(spec, sort_keys=True),
                      nontrivial=isinstance(impl.get('default'), list) and len(impl['default']) >= 3,
                      bucket='%s/script=%s/sys_path=%s' % (
                          kind_of(spec['kw']['path']),
                          'none' if spec['script'] is None else spec['script'].count('/'),
                          'env' if spec['kw'].get('sys_path') is None else 'given'),
                      sample={'spec': spec, 'sys_path': unmat_deep(impl.get('default'), base)})
            if model != impl:
                diff = {k: [impl.get(k), model.get(k)] for k in set(impl) | set(model)
                        if impl.get(k) != model.get(k)}
                ctx.tie_broken('correspondence:syspath',
                               short({'spec': spec, 'impl-vs-model': unmat_deep(diff, base)}, 1500))
                # failing-input search: the oracle already ran on this very input (oracle-syspath);
                # if it was silent there is no failing input for this case.
        elif stream == 'saveload':
            spec, base = key[1], key[2]
            model = {k: v for k, v in ans.items() if k != 'file'}
            ctx.count('saveload', json.dumps(spec, sort_keys=True), nontrivial='loaded' in impl,
                      bucket='path=%s/env=%s' % (kind_of(spec['kw']['path']),
                                                 kind_of(spec['kw'].get('environment_path'))),
                      sample={'spec': spec, 'outcome': unmat_deep(impl, base)})
            if model != impl:
                diff = {k: [impl.get(k), model.get(k)] for k in set(impl) | set(model)
                        if impl.get(k) != model.get(k)}
                ctx.tie_broken('correspondence:saveload',
                               short({'spec': spec, 'impl-vs-model': unmat_deep(diff, base)}, 1500))

        elif stream == 'savehist':
            spec, base = key[1], key[2]
            ctx.count('savehist', json.dumps(spec, sort_keys=True), nontrivial=len(impl['files']) > 1,
                      bucket='pre=%s' % spec['pre'])
            if ans.get('trace') != impl['files']:
                ctx.tie_broken('correspondence:savehist',
                               short({'spec': spec, 'mode': ans.get('mode'), 'impl-files': impl['files'],
                                      'model-trace': ans.get('trace')}, 1500))
        elif stream == 'defaultproject':
            spec, base = key[1], key[2]
            chain, start, real = impl['chain'], impl['start'], impl['impl']
            if ans.get('dir') is None:
                want = start if os.path.isdir(start) else os.path.dirname(start)
            else:
                want = chain[ans['dir']]
            model = {'path': want, 'django': ans.get('kind') == 'django'}
            ctx.count('defaultproject', json.dumps(spec, sort_keys=True), nontrivial=len(spec['levels']) > 1,
                      bucket='%s/start=%s' % (ans.get('kind'), spec['start']),
                      sample={'spec': spec, 'chosen': os.path.relpath(want, base), 'kind': ans.get('kind')})
            if model != real:
                ctx.tie_broken('correspondence:defaultproject',
                               short({'spec': spec, 'impl': unmat_deep(real, base), 'model': unmat_deep(model, base),
                                      'kind': ans.get('kind')}, 1500))
                # failing-input search at the level of the documented rule: the project found must be the start
                # directory or one of its parents
                if 'path' in real and real['path'] not in chain + [os.path.dirname(start)]:
                    ctx.fail('oracle-defaultproject', 'the default project is not the start path or one of its parents',
                             {'spec': spec}, expected='a directory of the walk', observed=unmat_deep(real, base),
                             how='jedi.api.project.get_default_project(start) on a generated directory chain')

def run(ctx):
    reqs = []
    cases = []
    cases += stream_dedup(ctx, reqs)
    cases += stream_pathlib(ctx, reqs)
    with Scratch('c20') as sc:
        cases += stream_syspath(ctx, reqs, sc)
        cases += stream_saveload(ctx, reqs, sc)
        cases += stream_savehist(ctx, reqs, sc)
        cases += stream_defaultproject(ctx, reqs, sc)
        stream_import_effect(ctx, sc)
    if ctx.model_ok:
        answers = common.run_driver_parallel('C20', reqs)
        compare(ctx, cases, answers)
    else:
        ctx.notes.append('model did not build: correspondence skipped, oracle only')
    ctx.obligations['assumptions'] = [
        'pathlib: PurePosixPath parsing / str / parents are the executable model parameters parsePath / pathStr / '
        'parentsOf (sampled by stream pathlib); Path(str(p)) == p is an explicit hypothesis of the round-trip theorems',
        'json.dump/json.load are the identity on None, bool, str and lists of str and raise TypeError on anything else',
        'environment.get_sys_path(), discover_buildout_paths() and the __init__.py probes are inputs of the model '
        '(taken from the real run); Script.__init__ making the script path absolute is not modelled',
        '_get_sys_path is memoised per inference state: the model is the uncached function',
    ]


def replay(ctx, payload):
    inp = payload['input']
    spec = inp.get('spec', inp)
    with Scratch('c20-replay') as sc:
        base = sc.case_dir()
        if 'script' in spec:
            materialise(spec, base)
            proj = make_project(spec, base)
            script = make_script(spec, base, proj, code='import zqm\nzqm' if spec.get('files') else '')
            print('project path:', proj.path)
            print('get_sys_path():', script._inference_state.get_sys_path())
            if spec.get('files'):
                print('infer:', [str(n.module_path) for n in script.infer(2, 0)])
        elif 'kw' in spec:
            scratch.build(base, dirs=spec['dirs'])
            constructed, outcome, proj, loaded = run_saveload(spec, base)
            print('constructed:', constructed)
            print('outcome:', outcome)
        else:
            print('input:', inp)
    print('expected:', payload.get('expected'), 'observed at record time:', payload.get('observed'))
    return 0

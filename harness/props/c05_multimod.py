"""C05, stream `multimod`: the property itself on generated multi-module projects on disk.

For every identifier occurrence `s` of a generated executable project (gen/multimod.py):
  R(s) = Script(code, path, project=Project(root)).get_references(line, col)
  (s)  s is among R(s)
  (c)  partition: R(r) = R(s) for every reported identifier occurrence r
  (a)  rename(new_name=fresh) changes exactly the reported identifier occurrences (each replaced
       by the fresh name, nothing else) and announces a path rename exactly for the reported
       modules/packages
  (b)  the rewritten project (changed files + announced renames applied to a copy) prints what
       the original printed
  (d)  renaming the fresh name back (a new Script on the rewritten project) restores every file,
       name and byte.
A fresh Script and Project per query; every project state lives in a directory of its own that is
never rewritten (parso caches parsed files by path and modification time).
"""
import os
import shutil
import tempfile

from gen import multimod as M

SCRATCH_ROOT = os.environ.get('VERIF_C05_SCRATCH', '/var/tmp/verif-c05-multimod')
FRESH = M.FRESH
_STATE = {}


def _setup():
    """once per worker process: private scratch directory and private parso cache"""
    if 'dir' not in _STATE:
        import atexit
        from pathlib import Path
        import jedi
        os.makedirs(SCRATCH_ROOT, exist_ok=True)
        d = tempfile.mkdtemp(prefix='w%d-' % os.getpid(), dir=SCRATCH_ROOT)
        _STATE['dir'] = os.path.realpath(d)
        _STATE['n'] = 0
        jedi.settings.cache_directory = Path(os.path.join(_STATE['dir'], 'parso-cache'))
        atexit.register(shutil.rmtree, d, True)
    return _STATE['dir']


def _fresh_dir():
    _STATE['n'] += 1
    return os.path.join(_STATE['dir'], 'p%d' % _STATE['n'])


class Outside(Exception):
    pass


def _script(root, files, rel):
    import jedi
    return jedi.Script(files[rel], path=os.path.join(root, rel), project=jedi.Project(root))


def references(root, files, rel, line, col):
    """(identifier occurrences [(rel, line, col, spelling)], referenced modules [rel of the module file])"""
    toks, mods = [], []
    for d in _script(root, files, rel).get_references(line, col):
        p = d.module_path
        if p is None or not str(p).startswith(root + os.sep):
            raise Outside('%s %s' % (d.name, p))
        r = os.path.relpath(str(p), root)
        text = files.get(r)
        if text is None:
            raise Outside('unknown file %s' % r)
        lines = text.split('\n')
        at = lines[d.line - 1][d.column:d.column + len(d.name)] if d.line and d.line <= len(lines) else ''
        is_token = at == d.name and not (d.type == 'module' and (d.line, d.column) == (1, 0)
                                         and not _is_name_token(text, d.name))
        if is_token:
            toks.append((r, d.line, d.column, d.name))
        elif d.type == 'module':
            mods.append(r)
        else:
            raise Outside('reference that is neither an identifier in the text nor a module: %s %s:%s:%s'
                          % (d.name, r, d.line, d.column))
    return sorted(set(toks)), sorted(set(mods))


def _is_name_token(text, name):
    """does the text start with the identifier `name` as a token of its own"""
    return text.startswith(name) and not (text[len(name):len(name) + 1].isidentifier()
                                          or text[len(name):len(name) + 1].isdigit())


def rename(root, files, rel, line, col, new_name):
    """(changed {rel: new code}, renames [(from rel, to rel)])"""
    ref = _script(root, files, rel).rename(line, col, new_name=new_name)
    changed = {os.path.relpath(str(p), root): cf.get_new_code() for p, cf in ref.get_changed_files().items()}
    renames = sorted((os.path.relpath(str(a), root), os.path.relpath(str(b), root)) for a, b in ref.get_renames())
    return changed, renames


def rewritten(files, changed, renames):
    new = dict(files)
    new.update(changed)
    return M.apply_renames(new, renames)


def judge_start(root, files, main, base, start, R, refs_of, caches, economy):
    """the clauses (s) (c) (a) (b) (d) for one start occurrence; returns (fails, raised)
    fails: [(what, expected, observed)].  economy (quick tier): rename once per distinct
    reference set, rename back once per distinct rewritten project."""
    import common
    rel, line, col, name = start
    toks, mods = R
    fails, raised = [], []
    if start not in toks:
        fails.append(('the occurrence under the cursor is not among its own references', list(start),
                      {'references': toks, 'modules': mods}))
        return fails, raised
    # (c) partition
    for r in toks:
        other = refs_of(r)
        if other is None or other == R:
            continue
        fails.append(('references are not a partition: asking from a reported occurrence gives another set',
                      {'references': toks, 'modules': mods},
                      {'from': list(r), 'references': other[0], 'modules': other[1]}))
        break
    rkey = (tuple(toks), tuple(mods))
    if economy and rkey in caches['renamed']:
        return fails, raised
    caches['renamed'].add(rkey)
    # (a) exactness
    try:
        changed, renames = rename(root, files, rel, line, col, FRESH)
    except Exception as e:
        cls, site = common.exc_site(e)
        raised.append('rename:%s@%s' % (cls, site))
        return fails, raised
    exp_changed = {r: _replace_mixed(files[r], [t for t in toks if t[0] == r], FRESH)
                   for r in sorted({t[0] for t in toks})}
    exp_renames = sorted(M.expected_rename_target(m, FRESH) for m in mods)
    if changed != exp_changed or renames != exp_renames:
        fails.append(('rename does not rewrite exactly the reported references',
                      {'changed': exp_changed, 'renames': exp_renames},
                      {'changed': changed, 'renames': renames}))
        return fails, raised
    # (b) behaviour
    new_files = rewritten(files, changed, renames)
    new_main = M.map_path(main, renames)
    key = (tuple(sorted(new_files.items())), new_main)
    run_cache = caches['run']
    first = key not in run_cache
    if first:
        d = _fresh_dir()
        M.write_tree(d, new_files)
        run_cache[key] = (d, M.run_project(d, new_main))
    new_root, res = run_cache[key]
    if res != base:
        fails.append(('renamed program behaves differently', {'original run': base},
                      {'rewritten run': res, 'changed': changed, 'renames': renames}))
    if economy and not first:
        return fails, raised
    # (d) rename back, from the same occurrence in the rewritten project
    rel2 = M.map_path(rel, renames)
    shift = sum(len(FRESH) - len(t[3]) for t in toks if t[0] == rel and t[1] == line and t[2] < col)
    try:
        ch2, rn2 = rename(new_root, new_files, rel2, line, col + shift, name)
        back = rewritten(new_files, ch2, rn2)
        if back != files:
            diff = sorted(k for k in set(back) | set(files) if back.get(k) != files.get(k))
            fails.append(('renaming back does not restore the text',
                          {k: files.get(k) for k in diff}, {k: back.get(k) for k in diff}))
    except Exception as e:
        cls, site = common.exc_site(e)
        raised.append('rename-back:%s@%s' % (cls, site))
    return fails, raised


CLAUSE = {
    'the occurrence under the cursor is not among its own references': 'self',
    'references are not a partition: asking from a reported occurrence gives another set': 'partition',
    'rename does not rewrite exactly the reported references': 'exactness',
    'renamed program behaves differently': 'behaviour',
    'renaming back does not restore the text': 'rename-back',
}


def _replace_mixed(code, toks, new):
    lines = code.split('\n')
    for (_, l, c, spelling) in sorted(toks, key=lambda t: (t[1], t[2]), reverse=True):
        s = lines[l - 1]
        assert s[c:c + len(spelling)] == spelling
        lines[l - 1] = s[:c] + new + s[c + len(spelling):]
    return '\n'.join(lines)


def analyse_project(item):
    """runs in worker processes; item = {'project': ..., 'tag': ...}"""
    import common
    proj = item['project']
    files, main = proj['files'], proj['main']
    _setup()
    root = _fresh_dir()
    M.write_tree(root, files)
    out = {'tag': item.get('tag'), 'features': proj.get('features', []), 'n_files': len(files),
           'starts': [], 'raised': [], 'skipped': None}
    base = M.run_project(root, main)
    out['base'] = base
    if base[0] != 0:
        out['skipped'] = 'original project does not run: %r' % (base,)
        return out
    occs = M.occurrences(files)
    if item.get('only'):
        only = tuple(item['only'])
        occs_to_judge = [o for o in occs if o[:3] == only[:3]]
    else:
        occs_to_judge = occs
    index = set(occs)
    memo = {}

    def refs_of(o):
        o = tuple(o)
        if o not in index:
            return None
        if o not in memo:
            try:
                memo[o] = references(root, files, o[0], o[1], o[2])
            except Outside as e:
                memo[o] = None
                out['raised'].append('outside-project:' + str(e)[:60])
            except Exception as e:
                cls, site = common.exc_site(e)
                memo[o] = None
                out['raised'].append('get_references:%s@%s' % (cls, site))
        return memo[o]

    caches = {'run': {}, 'renamed': set()}
    economy = bool(item.get('economy'))
    for o in occs_to_judge:
        if M.is_local_spelling(o[3]) and not item.get('only'):
            continue
        R = refs_of(o)
        if R is None:
            continue
        fails, raised = judge_start(root, files, main, base, o, R, refs_of, caches, economy)
        out['raised'] += raised
        out['starts'].append({'start': list(o), 'n_refs': len(R[0]), 'n_mods': len(R[1]),
                              'n_files': len({t[0] for t in R[0]}),
                              'shape': M.shape_of(files, *o),
                              'fails': fails})
    shutil.rmtree(root, ignore_errors=True)
    for d, _ in caches['run'].values():
        shutil.rmtree(d, ignore_errors=True)
    return out


def judge_one(files, main, rel, line, col):
    """all clauses for one start occurrence (replay / minimisation)"""
    out = analyse_project({'project': {'files': files, 'main': main}, 'only': [rel, line, col], 'economy': False})
    return out


def replay(payload):
    """re-runs the clauses for the recorded start occurrence; exit code 1 = reproduced"""
    import json
    inp = payload['input']
    for rel in sorted(inp['files']):
        print('## %s' % rel)
        print(inp['files'][rel], end='')
    print('## run: python -m %s' % M.dotted_of(inp['main']))
    print('## cursor: %s line %d column %d (%s), rename to %s' % (inp['rel'], inp['line'], inp['column'],
                                                               inp.get('name'), inp.get('new_name', FRESH)))
    out = judge_one(inp['files'], inp['main'], inp['rel'], inp['line'], inp['column'])
    if out['skipped']:
        print('original project:', out['skipped'])
        return 0
    print('original run:', out['base'])
    bad = 0
    for st in out['starts']:
        for what, exp, obs in st['fails']:
            bad += 1
            print('FAILS: %s' % what)
            print('  expected: %s' % json.dumps(exp)[:3000])
            print('  observed: %s' % json.dumps(obs)[:3000])
    if out['raised']:
        print('raised:', out['raised'])
    if not bad:
        print('all clauses hold for this occurrence (recorded: %s)' % payload.get('what'))
    return 1 if bad else 0


# ---------------------------------------------------------------------------- witnesses
# one fixed project per known finding (the same KNOWN-FINDING lines on every seed)

_DEFS = {
    'fast.py': 'def helper(x):\n    return x * 2\n',
    'slow.py': 'def helper(x):\n    return x + x + 1\n\n\nLIMIT = 7\n',
}

WITNESSES = [
    # renaming the alias of a module renames the module file
    {'files': dict(_DEFS, **{'main.py': 'import slow as mod_a\nfrom slow import helper\n\nprint(mod_a.LIMIT, helper(2))\n'}),
     'main': 'main.py', 'features': ['witness:alias-of-module']},
    # renaming the alias of a function renames the definition, not the other imports of it
    {'files': dict(_DEFS, **{'other.py': 'from slow import helper\n\n\ndef twice(x):\n    return helper(helper(x))\n',
                             'main.py': 'from slow import helper as hlp\nfrom other import twice\n\nprint(hlp(2), twice(3))\n'}),
     'main': 'main.py', 'features': ['witness:alias-of-function']},
    # the name before `as` is treated as a binding of the importing module
    {'files': dict(_DEFS, **{'core.py': 'from slow import helper as hlp\n\n\ndef helper(x):\n    return hlp(x) - 1\n',
                             'main.py': 'import core\nfrom slow import helper\n\nprint(core.helper(2), helper(3))\n'}),
     'main': 'main.py', 'features': ['witness:name-before-as']},
    # two imports of one spelling in try/except, never used below: tied from one side only
    {'files': dict(_DEFS, **{'views.py': 'try:\n    from fast import helper\nexcept ImportError:\n    from slow import helper\nLEVEL = 3\n',
                             'main.py': 'import views\nimport slow\n\nprint(views.LEVEL, slow.helper(3))\n'}),
     'main': 'main.py', 'features': ['witness:tie-without-use']},
    # flow analysis decides the `if` during the scan: the use is tied to one branch only
    {'files': dict(_DEFS, **{'main.py': 'from fast import helper\n\n\ndef choose(val):\n    if val:\n        from fast import helper\n'
                                        '    else:\n        from slow import helper\n    return helper(val)\n\n\n'
                                        'print(helper(1), choose(1), choose(2))\n'}),
     'main': 'main.py', 'features': ['witness:tie-if']},
    # a parameter declared in one module and passed by keyword in another: the search stays in the declaring module
    {'files': {'fast.py': 'def helper(val, *, scale=2):\n    return val * scale\n',
               'main.py': 'from fast import helper\n\nprint(helper(2, scale=3))\n'},
     'main': 'main.py', 'features': ['witness:parameter-keyword-in-other-module']},
]

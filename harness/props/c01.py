"""C01 - the query API is total; a position outside the text => ValueError and nothing else.

Streams
  lines      parso.split_lines as used by Script (`_code_lines`) vs Model.Text.splitLines
  validate   the real `validate_line_column` wrapper (applied to a probe function, on a real
             Script) vs Model.Validate.validate: exhaustive over small texts x all positions
  methods    every decorated Script method called for real: ValueError iff the model rejects
  helpers    get_on_completion_name (regex branch), _get_code, cut_value_at_position vs the models
  api        whole-API fuzz (stream c of DESIGN 5.C01): every query method and every documented
             attribute / method of every returned object on valid programs, their prefixes,
             single-edit mutants and token soups x in-range / just-out-of-range positions.
             Prediction: ok, or ValueError iff Model.Validate rejects. Any other exception class is
             a property failure, keyed on (exception class, innermost jedi frame).
  typed      code being typed, systematically for CALLS (harness/gen/c01_calls.py): below a fixed
             program head one statement containing a call of a resolvable function / method /
             class / lambda is typed character by character; the arguments run through every
             kind of argument expression, every statement context, several layouts.  After every
             keystroke: get_signatures / get_context / infer / goto / help (and complete /
             get_references at the hot cut points; everything everywhere in the thorough tier) at
             the cursor, then every documented attribute of every result (Signature.index,
             .params, repr ...).  A share of the statements is also queried complete, with the
             cursor at every column.  Failures are reported on stream `api` (family typed/...).
  iterargs   the argument scan behind Signature.index and keyword completion: the real
             `helpers._iter_arguments(children, position)` on the node lists that
             `get_signature_details` hands over for every typed prefix vs Model.IterArgs (total by
             theorem `iterArguments_total`); an exception of the real scan is a property failure
             of get_signatures()[i].index on that prefix.
  semis      several small statements on ONE line, valid and half-typed (harness/gen/c01_semis.py):
             below a fixed head `piece ; piece ; piece <tail>`; every way the line can go on after
             the last `;` (nothing, `;;`, a stray bracket, `else` / `def` / `class` / `except`, an
             unfinished import / assignment / call, junk) after a piece that ends in a name, with
             and without a blank in front of the `;`; every kind of last token x every separator;
             every context (module level, one-line bodies of if / class / def / for / while / with /
             try / else, indented bodies, last line without newline).  Every position query at
             every word end / behind every `;` (every column: thorough), reference searches
             started at the head occurrences of the names the line uses, get_names(references) with
             goto / infer of every name of the line, the position just behind the line
             (ValueError and nothing else).  Failures are reported on stream `api` (family semis/...).
  errstart   the statement-start scan of imports.follow_error_node_imports_if_possible (behind
             infer / goto / help / get_references for every name inside an error node): the REAL
             function on stand-ins carrying what it reads (child start positions, `== ';'`, name
             start / end) for the error nodes of every generated line and for an exhaustive small
             scope of synthetic child lists vs Model.ErrStart (total by theorem `stmt_start_total`);
             a disagreement is followed by the property itself at that name.
"""
import itertools
import json
import os
import re
import time

import common
from common import short
from gen import api_walk, c01_calls, c01_mixed, c01_semis, texts

MODELS = ['Validate', 'ApiHelpers', 'IterArgs', 'ErrStart']
MODEL_TARGETS = ['JediModel.Lemmas.ValidateSpec', 'JediModel.Model.ApiHelpers', 'JediModel.Model.IterArgs',
                 'JediModel.Lemmas.IterArgsSpec', 'JediModel.Lemmas.ErrStart']
MANIFEST = dict(
    text='Theorems over the model of helpers.validate_line_column, instantiated with the operators, bounds, '
         'defaults, endswith table and exception classes the translator reads from the source: closed form, '
         'totality (no outcome but call-through or ValueError, for every list of lines and every line/column, None '
         'included), accepted iff 1<=line<=len and 0<=column<=lineLen, the default position is valid for every '
         'text, an accepted position indexes lines[line-1][:column] safely, every public Script method taking a '
         'position carries the decorator or only delegates to one that does. Pure helpers under the query '
         'methods (get_on_completion_name regex branch, _get_code, cut_value_at_position) are modelled with '
         'Python slice semantics and proved total and correct w.r.t. Model.Text positions. The argument scan '
         'behind Signature.index and keyword completion (helpers._iter_arguments) is transcribed over parso nodes '
         'with `.value` of a non-leaf = AttributeError and `children[k]` out of range = IndexError explicit; the '
         'translator lists every `.value` read with the tests that dominate it; iterArguments_total: with the '
         'guards found in the source the scan completes on EVERY list of well-formed parso nodes one of which '
         'starts before the cursor (any types, values, nesting, cursor); iterArguments_unguarded_eq_raises: '
         'without the guard in front of `before.value` the nodes of `f(a.x =` raise. Tie: translator + '
         'exhaustive small-scope correspondence of the real wrapper + correspondence of the real '
         '_iter_arguments with the model on the node lists of every typed prefix + correspondence of the real '
         'follow_error_node_imports_if_possible with the model on the error nodes of every generated `;` line and an '
         'exhaustive small scope of synthetic ones + whole-API fuzzing, the systematic typed-call stream and the '
         'systematic several-statements-on-one-line stream (tests, labelled so).',
    note='Modelled not verified: parso (tokenizer, error recovery; the well-formedness facts WF of its trees), '
         'the inference engine. Totality of those is sampled by the api / typed streams only. Sandbox: typeshed '
         'is empty; the resulting exceptions are listed as known findings keyed on (exception class, innermost '
         'jedi frame).',
    technique='Lean 4 proof over hand-written model + translator-generated constants and guard tables + '
              'differential correspondence + API fuzzing + systematic keystroke-by-keystroke enumeration of calls + '
              'systematic enumeration of `;`-separated one-line statement sequences (token before the separator x '
              'continuation after the last separator x context)',
    design='5.C01')
LEAN_TARGETS = ['JediModel.Props.C01', 'JediModel.Drivers.C01']

WRAPPER_SITE = 'api/helpers.py:wrapper'


def load_local_known(ctx, pid):
    """known_findings.d/<pid>.json is merged into known_findings.json by tools/mkknown.py at
    integration time; until then (and harmlessly afterwards) read it directly."""
    path = os.path.join(common.VERIF, 'known_findings.d', pid + '.json')
    try:
        with open(path, encoding='utf-8') as f:
            d = json.load(f)
    except FileNotFoundError:
        return
    have = {k['id'] for k in ctx.known}
    for k in d.get('findings', []):
        if k['property'] == pid and k['id'] not in have:
            ctx.known.append(k)


# ------------------------------------------------------------------ the property itself

def raw_lines(text):
    """lines of a text, computed without parso: (content, terminator)"""
    out = []
    for m in re.finditer(r'([^\n\r]*)(\r\n|\n|\r|\Z)', text):
        out.append((m.group(1), m.group(2)))
        if m.group(2) == '':
            break
    return out


def position_status(text, line, col):
    """'inside' | 'outside' | 'edge'.  Outside: no such line, negative column, or a column past
    the end of the line's text (inside or after a `\\n` / `\\r\\n` terminator).  Edge: directly
    after a lone `\\r` (jedi counts a lone `\\r` as part of the line; the property does not say)."""
    ls = raw_lines(text)
    if line is None:
        line = len(ls)
    if not (1 <= line <= len(ls)):
        return 'outside'
    content, term = ls[line - 1]
    if col is None or 0 <= col <= len(content):
        return 'inside'
    if term == '\r' and col == len(content) + 1:
        return 'edge'
    return 'outside'


def default_column(text, line):
    """documented: 'If you provide only the line, just will complete at the end of that line';
    None where a lone `\\r` makes that ambiguous"""
    ls = raw_lines(text)
    if line is None:
        line = len(ls)
    content, term = ls[line - 1]
    return None if term == '\r' else len(content)


def exc_key(e):
    """(class, site).  Site = innermost jedi/parso frame (common.exc_site); for RecursionError
    the innermost frame is arbitrary, so the site is the most frequent jedi frame of the cycle
    (ties: smallest name), which is stable."""
    cls, site = common.exc_site(e)
    if cls == 'UncaughtAttributeError' and e.__cause__ is not None:
        # jedi.inference.utils.reraise_uncaught: `raise UncaughtAttributeError(e) from e`;
        # the place is the one of the AttributeError it wraps
        return cls, common.exc_site(e.__cause__)[1] or site
    if cls != 'RecursionError':
        return cls, site
    import collections
    import traceback
    c = collections.Counter()
    for fr in traceback.extract_tb(e.__traceback__)[-400:]:
        fn = fr.filename.replace('\\', '/')
        if '/jedi/' in fn:
            c['%s:%s' % (fn.split('/jedi/')[-1], fr.name)] += 1
    if not c:
        return cls, site
    top = max(c.values())
    return cls, min(k for k, v in c.items() if v >= top - 2)


def classify(e):
    """'ValueError' (position rejected by the wrapper) or (class, site) of an internal exception"""
    cls, site = exc_key(e)
    if cls == 'ValueError' and site == WRAPPER_SITE:
        return 'ValueError'
    return (cls, site)


# ------------------------------------------------------------------ stream: lines + validate

ALPHABET = ['a', '\n', '\r', '\f', '\u00e9']


def small_texts(ctx):
    rng = ctx.subrng('validate')
    full = ctx.size(3, 5)
    out = [''.join(p) for n in range(full + 1) for p in itertools.product(ALPHABET, repeat=n)]
    extra = [''.join(p) for p in itertools.product(ALPHABET, repeat=full + 1)]
    out += rng.sample(extra, ctx.size(150, 3000))
    more = ALPHABET + ['\x0b', '\x1c', '\x85', '\u2028', '\t', ' ', 'b\r\n']
    for _ in range(ctx.size(150, 3000)):
        out.append(''.join(rng.choice(more) for _ in range(rng.randint(5, 12))))
    return out


def stream_validate(ctx, reqs):
    import jedi
    from jedi.api import helpers
    probe = helpers.validate_line_column(lambda self, line, column: ('ok', line, column))
    cases = []
    for text in small_texts(ctx):
        script = jedi.Script(text)
        reqs.append({'op': 'lines', 'text': text})
        cases.append((('lines', text), list(script._code_lines)))
        nl = len(script._code_lines)
        maxlen = max(len(l) for l in script._code_lines)
        rows = [None] + list(range(-1, nl + 3))
        cols = [None] + list(range(-1, maxlen + 3))
        for line in rows:
            for col in cols:
                try:
                    r = probe(script, line, col)
                    impl = {'out': 'ok', 'line': r[1], 'col': r[2]}
                except Exception as e:
                    c = classify(e)
                    impl = {'out': 'raised', 'cls': c if isinstance(c, str) else c[0]}
                reqs.append({'op': 'validate', 'text': text, 'line': line, 'col': col})
                cases.append((('validate', text, line, col), impl))
    return cases


def oracle_position(ctx, stream, text, line, col, outcome, how, extra=None):
    """outcome: 'ok' | 'ValueError' | (cls, site).  The property: inside => completes normally,
    outside => ValueError and nothing else."""
    st = position_status(text, line, col)
    case = {'source': text, 'line': line, 'column': col}
    if extra:
        case.update(extra)
    if isinstance(outcome, tuple):
        case.update({'exception': outcome[0], 'site': outcome[1]})
        ctx.fail(stream, 'internal exception %s at %s' % outcome, case,
                 expected='ok' if st != 'outside' else 'ValueError',
                 observed={'exception': outcome[0], 'site': outcome[1]}, how=how)
        return False
    if st == 'inside' and outcome != 'ok':
        ctx.fail(stream, 'position inside the text rejected', case, expected='ok', observed=outcome, how=how)
        return False
    if st == 'outside' and outcome != 'ValueError':
        ctx.fail(stream, 'position outside the text accepted', case, expected='ValueError',
                 observed=outcome, how=how)
        return False
    return True


# ------------------------------------------------------------------ stream: real methods

def stream_methods(ctx, reqs):
    import jedi
    rng = ctx.subrng('methods')
    cases = []
    pool = ['', 'a', 'ab\n', 'a\r\nb', 'a\rb\r', 'x = 1\nx', '\fa\n', '\u00e9\u00e9 = 2\n\u00e9', 'def f(a):\n  pass\nf(',
            'a\n\n', '\r\n', 'import os\nos']
    methods = [q for q in api_walk.position_queries(fuzzy=False)]
    for text in pool:
        script = jedi.Script(text)
        nl = len(script._code_lines)
        poss = [(None, None), (0, 0), (nl + 1, 0), (nl, None), (1, -1), (-1, 0)]
        for li in range(1, nl + 1):
            L = len(script._code_lines[li - 1])
            poss += [(li, 0), (li, L), (li, L + 1), (li, max(L - 1, 0)), (li, L + 2)]
        for (line, col) in poss:
            for name, kw in methods:
                lab = api_walk.label(name, kw)
                try:
                    api_walk.run_query(script, name, kw, line, col)
                    out = 'ok'
                except Exception as e:
                    out = classify(e)
                reqs.append({'op': 'validate', 'text': text, 'line': line, 'col': col})
                cases.append((('methods', text, line, col, lab), out))
    return cases


# ------------------------------------------------------------------ stream: helpers

WORDISH = ['a', 'Z', '_', '1', '9', '\u00e9', '\u0663', '\u00b2', ' ', '.', '(', '-', '\u4e2d', '\u2167']


def stream_helpers(ctx, reqs):
    """pure helpers called directly with the real functions"""
    import parso
    from jedi.api import helpers
    from jedi import parser_utils
    rng = ctx.subrng('helpers')
    cases = []

    class NoLeafModule:
        def get_leaf_for_position(self, position):
            return None

    # get_on_completion_name, regex branch (leaf is None / string / error_leaf)
    strings = [''.join(p) for n in range(ctx.size(4, 5)) for p in itertools.product(['a', '1', '_', '.', '\u0663'], repeat=n)]
    for _ in range(ctx.size(400, 5000)):
        strings.append(''.join(rng.choice(WORDISH) for _ in range(rng.randint(0, 8))))
    for s in strings:
        for col in sorted({0, len(s), rng.randint(0, len(s))}):
            try:
                impl = helpers.get_on_completion_name(NoLeafModule(), [s], (1, col))
            except Exception as e:
                impl = 'EXC:' + type(e).__name__
            chars = sorted(set(s))
            reqs.append({'op': 'oncompletion', 'line': s, 'col': col,
                         'word': [c for c in chars if re.match(r'\w', c)],
                         'digit': [c for c in chars if re.match(r'\d', c)]})
            cases.append((('oncompletion', s, col), impl))
    # _get_code
    for _ in range(ctx.size(1500, 20000)):
        text = ''.join(rng.choice(['a', 'b', '\n', '\r\n', '\r', ' ', '\u00e9']) for _ in range(rng.randint(0, 12)))
        lines = parso.split_lines(text, keepends=True)

        def pos():
            li = rng.randint(1, len(lines))
            return (li, rng.randint(0, len(lines[li - 1]) + (1 if rng.random() < 0.1 else 0)))
        a, b = pos(), pos()
        if rng.random() < 0.85 and a > b:
            a, b = b, a
        if rng.random() < 0.05:
            b = (b[0] + rng.randint(1, 2), b[1])
        try:
            impl = helpers._get_code(list(lines), a, b)
        except Exception as e:
            impl = 'EXC:' + type(e).__name__
        reqs.append({'op': 'getcode', 'text': text, 'sl': a[0], 'sc': a[1], 'el': b[0], 'ec': b[1]})
        cases.append((('getcode', text, a, b), impl))
    # cut_value_at_position

    class FakeLeaf:
        def __init__(self, value, line, column):
            self.value, self.line, self.column = value, line, column
    for _ in range(ctx.size(1500, 20000)):
        value = ''.join(rng.choice(['a', 'b', '\n', '\r\n', '\r', '"', '\u00e9']) for _ in range(rng.randint(0, 10)))
        line, column = rng.randint(1, 4), rng.randint(0, 5)
        pl = line + rng.randint(-2, 4)
        pc = rng.randint(-1, 9)
        try:
            impl = parser_utils.cut_value_at_position(FakeLeaf(value, line, column), (pl, pc))
        except Exception as e:
            impl = 'EXC:' + type(e).__name__
        reqs.append({'op': 'cut', 'value': value, 'line': line, 'column': column, 'pl': pl, 'pc': pc})
        cases.append((('cut', value, line, column, pl, pc), impl))
    return cases


# ------------------------------------------------------------------ stream: whole API

def out_of_range_positions(code_lines, rng):
    nl = len(code_lines)
    li = rng.randint(1, nl)
    L = len(code_lines[li - 1])
    return [(0, 0), (nl + 1, 0), (li, L + 3), (li, -1), (-1, None), (nl + 2, None)]


def in_range_positions(text, code_lines, rng, k):
    ls = raw_lines(text)
    poss = [(li, c) for li, (content, _) in enumerate(ls, 1) for c in range(len(content) + 1)]
    # positions right after an identifier character / dot / bracket are where the query methods do work
    hot = [(li, c) for (li, c) in poss if c > 0 and (ls[li - 1][0][c - 1].isalnum() or ls[li - 1][0][c - 1] in '.([,= ')]
    chosen = []
    if hot:
        chosen += rng.sample(hot, min(len(hot), max(1, (2 * k) // 3)))
    rest = [p for p in poss if p not in chosen]
    if rest:
        chosen += rng.sample(rest, min(len(rest), k - len(chosen))) if k > len(chosen) else []
    return chosen


class ApiStats:
    def __init__(self):
        self.sites = {}
        self.objects = 0


def run_api_case(ctx, reqs, cases, stats, family, text, rng, npos, deadline):
    import jedi
    how = ('s = jedi.Script(source); r = getattr(s, method)(line, column, **kw); then every documented '
           'attribute of every result (harness/gen/api_walk.py)')
    try:
        script = jedi.Script(text)
    except Exception as e:
        cls, site = common.exc_site(e)
        ctx.fail('api', 'Script(source) raised', {'source': text, 'site': site, 'exception': cls, 'family': family},
                 observed={'exception': cls, 'site': site}, how='jedi.Script(source)')
        return
    cur = {}

    def visit(method, obj):
        stats.objects += 1

    def err(method, attr, e):
        out = classify(e)
        if attr is None:
            return            # the query itself: judged below with the position
        if out == 'ValueError':
            out = ('ValueError', WRAPPER_SITE)
        key = out
        n = stats.sites.get(key, 0)
        stats.sites[key] = n + 1
        if n < 2:
            case = dict(cur)
            case.update({'method': method, 'attribute': attr, 'exception': out[0], 'site': out[1], 'family': family})
            ctx.fail('api', 'result attribute raised %s at %s' % out, case,
                     expected='completes normally',
                     observed={'exception': out[0], 'site': out[1], 'message': short(str(e), 200), 'frames': exc_frames(e)},
                     how=how)

    # in-range positions: the full walk
    positions = [(None, None)] + in_range_positions(text, script._code_lines, rng, npos)
    for (line, col) in positions:
        if time.time() > deadline:
            break
        cur = {'source': text, 'line': line, 'column': col}
        outcomes = api_walk.walk(script, line, col, visit, err, max_results=ctx.size(3, 6),
                                 depth=1)
        for lab, o in outcomes.items():
            out = 'ok' if o == 'ok' else classify(o)
            reqs.append({'op': 'validate', 'text': text, 'line': line, 'col': col})
            cases.append((('api', text, line, col, lab, family), out))
    # out-of-range positions: every position query must raise ValueError (cheap)
    for (line, col) in out_of_range_positions(script._code_lines, rng):
        for name, kw in api_walk.position_queries(fuzzy=False):
            lab = api_walk.label(name, kw)
            try:
                api_walk.run_query(script, name, kw, line, col)
                out = 'ok'
            except Exception as e:
                out = classify(e)
            reqs.append({'op': 'validate', 'text': text, 'line': line, 'col': col})
            cases.append((('api', text, line, col, lab, family + '/out'), out))
    # position-free queries
    if time.time() <= deadline:
        cur = {'source': text, 'line': None, 'column': None}
        outcomes = api_walk.walk(script, None, None, visit, err, queries=api_walk.global_queries(),
                                 max_results=ctx.size(4, 8), depth=1)
        for lab, o in outcomes.items():
            out = 'ok' if o == 'ok' else classify(o)
            ctx.count('api', (text, lab), nontrivial=True, bucket=family + '/global')
            if out != 'ok':
                if out == 'ValueError':
                    out = ('ValueError', WRAPPER_SITE)
                oracle_position(ctx, 'api', text, None, None, out, how, {'method': lab, 'family': family})


def stream_api(ctx, reqs):
    rng = ctx.subrng('api')
    cases = []
    stats = ApiStats()
    budget = ctx.size(12.0, 600.0)
    t0 = time.time()
    deadline = t0 + budget
    ntexts = 0
    round_ = 0
    while time.time() < deadline and round_ < ctx.size(1000, 100000):
        round_ += 1
        base = texts.valid_text(rng, fancy=rng.random() < 0.5)
        fam = []
        fam.append(('valid', base))
        pf = texts.prefixes(base)
        for p in rng.sample(pf, min(len(pf), 2)):
            fam.append(('prefix', p))
        fam.append(('mutant', texts.mutant(rng, base)))
        fam.append(('soup', texts.soup(rng)))
        for family, text in fam:
            if time.time() > deadline:
                break
            npos = 2 if family == 'valid' else 1
            run_api_case(ctx, reqs, cases, stats, family, text, rng, npos, deadline)
            ntexts += 1
    ctx.notes.append('api stream: %d texts, %d result objects walked, %.1fs; internal-exception sites: %s'
                     % (ntexts, stats.objects, time.time() - t0,
                        {'%s@%s' % k: v for k, v in sorted(stats.sites.items(), key=lambda kv: -kv[1])}))
    return cases


# ------------------------------------------------------------------ stream: typed calls

TYPED_LIGHT = [('get_signatures', {}), ('get_context', {}), ('infer', {}), ('goto', {}), ('help', {})]
TYPED_HEAVY = [('complete', {}), ('get_references', {'scope': 'file'}), ('goto', {'follow_imports': True})]


def dump_node(node):
    """what `_iter_arguments` can observe of a parso node: type, value (leaves only), start
    position, whether `node == '<str>'` compares the value (Operator / Keyword) or is identity,
    isinstance(node, PythonLeaf), children"""
    from parso.python import tree
    d = {'t': node.type, 's': list(node.start_pos),
         'k': type(node).__eq__ is not object.__eq__,
         'l': isinstance(node, tree.PythonLeaf)}
    d['v'] = node.value if hasattr(node, 'value') else None
    d['c'] = [dump_node(c) for c in node.children] if hasattr(node, 'children') else []
    return d


def iterargs_real(children, position):
    from jedi.api import helpers
    try:
        return [[a, b, c] for (a, b, c) in helpers._iter_arguments(children, position)]
    except Exception as e:
        return {'exc': type(e).__name__}


def exc_frames(e, k=40):
    """the jedi frames of the traceback (of the wrapped AttributeError for an
    UncaughtAttributeError), outermost first, immediate repetitions dropped, the innermost k:
    'file:function > file:function > ...'"""
    import traceback
    if type(e).__name__ == 'UncaughtAttributeError' and e.__cause__ is not None:
        e = e.__cause__
    frames = []
    for fr in traceback.extract_tb(e.__traceback__)[-300:]:
        fn = fr.filename.replace('\\', '/')
        if '/jedi/' in fn:
            f = '%s:%s' % (fn.split('/jedi/')[-1], fr.name)
            if not frames or frames[-1] != f:
                frames.append(f)
    return ' > '.join(frames[-k:])


def cheap_walk(label, obj, err):
    """the attributes of a result that depend on the text typed so far (evaluated at every
    prefix): identity attributes, repr, Completion.complete / prefix length, Signature.index /
    bracket_start / params / to_string.  Returns the identity of the object."""
    kind = type(obj).__name__
    vals = []
    for a in api_walk.NAME_ATTRS:
        try:
            vals.append(getattr(obj, a))
        except Exception as e:
            vals.append(None)
            err(label, '%s.%s' % (kind, a), e)

    def call(what, f):
        try:
            return f()
        except Exception as e:
            err(label, '%s.%s' % (kind, what), e)
    call('__repr__', lambda: repr(obj))
    if kind == 'Completion':
        for a in api_walk.COMPLETION_ATTRS:
            call(a, lambda: getattr(obj, a))
        call('get_completion_prefix_length', obj.get_completion_prefix_length)
    if kind == 'Signature':
        call('index', lambda: obj.index)
        call('bracket_start', lambda: obj.bracket_start)
        call('to_string', obj.to_string)
        for p in call('params', lambda: obj.params) or []:
            for a in ('name', 'kind'):
                call('params.' + a, lambda: getattr(p, a))
            call('params.to_string', p.to_string)
            call('params.__repr__', lambda: repr(p))
    return (label, kind) + tuple(str(v) for v in vals)


_WALKED = set()      # per worker process: identities of the results that had their full walk


def typed_item(item):
    """worker of common.parallel_map (fresh interpreter): one statement typed below the head.
    `full`: every query at every prefix and a full attribute walk of every result.  Otherwise the
    heavy queries run at the hot prefixes only, and the full attribute walk (docstring, type
    hint, goto / infer / parent / execute / defined_names of the result ...) is done once per
    distinct result (query, class, name, type, module, line, column, description, full name) in
    this worker process -- the head is the same program for every statement; the
    text-dependent attributes (`cheap_walk`) are read at every prefix."""
    import jedi
    from jedi.api import helpers
    head, stmt = c01_calls.HEAD, item['stmt']
    full = item.get('full', False)
    mode = item.get('mode', 'prefix')
    max_results = item.get('max_results', 3)
    t0 = time.process_time()
    out = {'id': item['id'], 'prefixes': 0, 'queries': 0, 'objects': 0, 'with_sig': 0, 'errors': [],
           'iterargs': [], 'suppressed': 0}
    seen_err = {}
    seen_ia = set()
    seen_obj = _WALKED
    cur = {}

    def visit(method, obj):
        out['objects'] += 1

    def err(method, attr, e):
        cls, site = exc_key(e)
        k = (cls, site, attr is None)
        seen_err[k] = seen_err.get(k, 0) + 1
        if seen_err[k] > 2:
            out['suppressed'] += 1
            return
        rec = dict(cur)
        rec.update({'method': method, 'attribute': attr, 'exception': cls, 'site': site,
                    'message': short(str(e), 200), 'frames': exc_frames(e)})
        out['errors'].append(rec)

    for n in c01_calls.cuts(stmt, item.get('start', 0)):
        typed = stmt[:n]
        if mode == 'cursor':        # the whole statement is there, the cursor after n characters
            tail = stmt
        elif mode == 'delete':      # one character deleted (`==` -> `=`, `a.x` -> `ax`, `, ` -> ` `)
            tail = stmt[:n - 1] + stmt[n:]
            typed = stmt[:n - 1]
        else:                       # typing: n characters are there
            tail = typed
        code = head + tail
        line, col = c01_calls.end_position(head + typed)
        out['prefixes'] += 1
        queries = list(TYPED_LIGHT)
        if full or item.get('heavy_all') or c01_calls.hot(stmt, n):
            queries += TYPED_HEAVY
        cur = {'typed': typed, 'tail': tail, 'mode': mode, 'line': line, 'column': col}
        # one Script per prefix (a Script made later for other text re-uses and mutates the
        # cached tree of an earlier one, so results of an earlier prefix are never touched again)
        script = jedi.Script(code)
        for name, kw in queries:
            lab = api_walk.label(name, kw)
            out['queries'] += 1
            try:
                res = api_walk.run_query(script, name, kw, line, col)
            except Exception as e:
                err(lab, None, e)
                continue
            if res is None:
                continue
            if not isinstance(res, (list, tuple)):
                res = [res]
            if name == 'get_signatures' and res:
                out['with_sig'] += 1
            for r in list(res)[:max_results]:
                ident = cheap_walk(lab, r, err)
                if not full:
                    if ident in seen_obj:
                        out['objects'] += 1
                        continue
                    seen_obj.add(ident)
                api_walk.walk_object(lab, r, visit, err, depth=1)
        # the node list the argument scan sees at this prefix
        try:
            details = helpers.get_signature_details(script._module_node, (line, col))
        except Exception as e:
            err('get_signature_details', None, e)
            details = None
        if details is not None:
            children = [dump_node(c) for c in details._children]
            key = json.dumps([children, line, col], sort_keys=True)
            if key not in seen_ia:
                seen_ia.add(key)
                out['iterargs'].append({'typed': typed, 'tail': tail, 'mode': mode, 'children': children,
                                        'line': line, 'col': col,
                                        'impl': iterargs_real(details._children, details._position)})
    out['cpu'] = round(time.process_time() - t0, 2)
    return out


def stream_typed_start(ctx):
    """generates the items and starts the workers in a thread (they run while the in-process
    streams do); returns a join function -> (items, results)"""
    import threading
    rng = ctx.subrng('typed')
    items = c01_calls.lines(rng, ctx.size(10, 300), ctx.size(5, None))
    for it in items:
        # thorough: every query at every prefix; the unabridged attribute walk at every prefix for
        # the systematic part
        it['heavy_all'] = not ctx.quick
        it['full'] = (not ctx.quick) and it['kinds'][0] in ('sys', 'ctx')
        it['max_results'] = ctx.size(3, 5)
    # regression inputs first: corpus/C01/typed-*.json, every query at every prefix
    import glob
    corpus = []
    for k, path in enumerate(sorted(glob.glob(os.path.join(common.CORPUS_DIR, 'C01', 'typed-*.json')))):
        with open(path, encoding='utf-8') as f:
            c = json.load(f)
        corpus.append({'id': 'k%d' % k, 'stmt': c['stmt'], 'start': c.get('start', 0), 'kinds': c['kinds'],
                       'full': not ctx.quick, 'heavy_all': not ctx.quick, 'max_results': ctx.size(3, 5)})
    # a share of the statements: complete text, cursor at every column of the statement; and
    # the statement with one character deleted (a small edit of a valid program: `==` -> `=`,
    # a dropped comma / dot / bracket), cursor at the edit
    extra = []
    for mode, share in (('cursor', ctx.size(0.08, 0.3)), ('delete', ctx.size(0.1, 0.3))):
        for it in corpus[:ctx.size(1, 3)] + items:
            if it in corpus or rng.random() < share:
                c = dict(it)
                c['mode'] = mode
                c['id'] = '%s%s' % (mode[0], it['id'])
                extra.append(c)
    items = corpus + items + extra
    # long statements first: the chunks of parallel_map are contiguous, so interleave by length
    order = sorted(range(len(items)), key=lambda i: -len(items[i]['stmt']))
    jobs = 14
    buckets = [[] for _ in range(jobs)]
    for r, i in enumerate(order):
        buckets[r % jobs].append(items[i])
    box = {}

    def work():
        try:
            flat = [it for b in buckets for it in b]
            # parallel_map splits into equal contiguous chunks: pad so that chunk k = bucket k
            size = max(len(b) for b in buckets)
            padded = []
            for b in buckets:
                padded += b + [None] * (size - len(b))
            res = common.parallel_map('props.c01', 'typed_item_or_none', padded, jobs=jobs,
                                      timeout=ctx.size(600, 3000))
            box['res'] = [r for r in res if r is not None]
            box['items'] = flat
        except BaseException as e:     # re-raised in the main thread
            box['exc'] = e
    th = threading.Thread(target=work, daemon=True)
    t0 = time.time()
    th.start()

    def join():
        th.join()
        if 'exc' in box:
            raise box['exc']
        ctx.notes.append('typed stream workers: %.1fs wall' % (time.time() - t0))
        return box['items'], box['res']
    return join


def typed_item_or_none(item):
    return None if item is None else typed_item(item)


def stream_typed_finish(ctx, reqs, join):
    items, results = join()
    by_id = {it['id']: it for it in items}
    how = ('s = jedi.Script(source); r = getattr(s, method)(line, column); then every documented attribute of '
           'every result (harness/gen/api_walk.py); source = gen.c01_calls.HEAD + the typed characters')
    cases = []
    tot = {'prefixes': 0, 'queries': 0, 'objects': 0, 'with_sig': 0, 'suppressed': 0, 'cpu': 0.0}
    sites = {}
    seen_ia = set()
    ia_cap = ctx.size(8000, 25000)
    for r in results:
        it = by_id[r['id']]
        fam = 'typed/' + it.get('mode', 'prefix')
        for k in ('prefixes', 'queries', 'objects', 'with_sig', 'suppressed'):
            tot[k] += r[k]
        tot['cpu'] += r['cpu']
        kinds = [k for k in it['kinds'] if not k.startswith(('layout:', 'callee:', 'ctx:'))]
        ctxk = [k for k in it['kinds'] if k.startswith('ctx:')]
        for k in (kinds[1:2] or ['-']) + ctxk:
            d = ctx.hist.setdefault('typed', {})
            d[k] = d.get(k, 0) + r['prefixes']
        ctx.count('typed', ('stmt', it['stmt'], it.get('mode', 'prefix')), nontrivial=r['with_sig'] > 0,
                  bucket=fam, sample={'statement': it['stmt'], 'kinds': it['kinds'], 'prefixes': r['prefixes'],
                                      'prefixes_with_signature': r['with_sig'], 'queries': r['queries']})
        # every (prefix, query) is one evaluation of the direct oracle
        s = ctx.streams.setdefault('typed', {'evaluations': 0, 'nontrivial': 0})
        s['evaluations'] += r['queries']
        s['nontrivial'] += r['queries']
        ctx.evaluations += r['queries']
        for e in r['errors']:
            source = c01_calls.HEAD + e['tail']
            key = (e['exception'], e['site'])
            sites[key] = sites.get(key, 0) + 1
            case = {'source': source, 'line': e['line'], 'column': e['column'], 'method': e['method'],
                    'attribute': e['attribute'], 'exception': e['exception'], 'site': e['site'], 'family': fam,
                    'typed': e['typed'], 'kinds': it['kinds']}
            what = ('result attribute raised %s at %s' if e['attribute'] else 'internal exception %s at %s') % key
            ctx.fail('api', what, case, expected='completes normally (the position is inside the text)',
                     observed={'exception': e['exception'], 'site': e['site'], 'message': e['message'],
                               'frames': e.get('frames', '')}, how=how)
        for ia in r['iterargs']:
            # one request per distinct (node list, position); every real exception is kept
            key = json.dumps([ia['children'], ia['line'], ia['col']], sort_keys=True)
            if key in seen_ia or (len(seen_ia) >= ia_cap and not isinstance(ia['impl'], dict)):
                continue
            seen_ia.add(key)
            reqs.append({'op': 'iterargs', 'children': ia['children'], 'line': ia['line'], 'col': ia['col']})
            cases.append((('iterargs', ia['tail'], ia['typed'], ia['mode'], ia['line'], ia['col']), ia['impl']))
    ctx.notes.append('typed stream: %d statements, %d prefixes (%d with a resolved signature), %d queries, '
                     '%d result objects walked, %.0f cpu-s; internal-exception sites: %s'
                     % (len(results), tot['prefixes'], tot['with_sig'], tot['queries'], tot['objects'], tot['cpu'],
                        {'%s@%s' % k: v for k, v in sorted(sites.items(), key=lambda kv: -kv[1])}))
    return cases


# ------------------------------------------------------------------ stream: mixed results

# the position queries of api_walk plus the ones that look beyond the file (project-wide
# references, builtin modules included or not; goto into compiled modules)
MIXED_QUERIES = api_walk.position_queries() + [
    ('get_references', {}), ('get_references', {'include_builtins': False}),
    ('goto', {'follow_imports': True, 'follow_builtin_imports': True}),
    ('infer', {'prefer_stubs': True}), ('goto', {'only_stubs': True}),
]
MIXED_LIGHT = [('infer', {}), ('goto', {}), ('goto', {'follow_imports': True}), ('help', {}), ('get_references', {}),
               ('get_references', {'scope': 'file'})]
_MIXED_ROOT = []


def mixed_root(chdir=True):
    """the project of gen.c01_mixed.LAYOUT on disk, once per process; workers and replay work
    inside it (jedi's default project of a Script without path is found from the cwd)"""
    if not _MIXED_ROOT:
        import atexit
        import shutil
        import tempfile
        top = tempfile.mkdtemp(prefix='verif-c01-mixed-', dir='/var/tmp')
        root = os.path.join(top, 'proj')
        os.makedirs(root)
        os.makedirs(os.path.join(top, 'outside'))
        c01_mixed.materialise(root)
        atexit.register(shutil.rmtree, top, True)
        _MIXED_ROOT.append(root)
    if chdir and os.getcwd() != _MIXED_ROOT[0]:
        os.chdir(_MIXED_ROOT[0])
        # a parser cache of its own: the files of the project exist once per process, and the
        # shared cache directory is written by every other jedi process of the machine
        import jedi
        jedi.settings.cache_directory = os.path.join(os.path.dirname(_MIXED_ROOT[0]), 'cache')
    return _MIXED_ROOT[0]


def mixed_script(source, path, project, chdir=True):
    import jedi
    root = mixed_root(chdir)
    kw = {}
    if path is not None:
        kw['path'] = os.path.normpath(os.path.join(root, path))
    if project == 'explicit':
        kw['project'] = jedi.Project(root)
    return jedi.Script(source, **kw)


def result_mix(res):
    """'' | 'mixed' | 'mixed-same-path': does the result list hold definitions with and without
    a position (and under the same module_path)?"""
    try:
        rows = [(str(r.module_path or ''), r.line is None) for r in res]
    except Exception:
        return ''
    if len({n for _, n in rows}) < 2:
        return ''
    paths_with = {p for p, n in rows if not n}
    paths_without = {p for p, n in rows if n}
    return 'mixed-same-path' if paths_with & paths_without else 'mixed'


def mixed_item(item):
    """worker of common.parallel_map (fresh interpreter): one program of gen.c01_mixed, every
    query at every name / keyword / dot position, every documented attribute of every result
    (the unabridged walk once per distinct result of this process, the cheap one always)"""
    import random
    t0 = time.process_time()
    source, path, project = item['source'], item['path'], item['project']
    full = item.get('full', False)
    max_results = item.get('max_results', 4)
    out = {'id': item['id'], 'positions': 0, 'queries': 0, 'objects': 0, 'errors': [], 'suppressed': 0,
           'mixed': 0, 'mixed_same_path': 0, 'nopos_results': 0, 'by_query': {}}
    seen_err = {}
    cur = {}

    def visit(method, obj):
        out['objects'] += 1

    def err(method, attr, e):
        cls, site = exc_key(e)
        k = (cls, site, attr is None)
        seen_err[k] = seen_err.get(k, 0) + 1
        if seen_err[k] > 2:
            out['suppressed'] += 1
            return
        rec = dict(cur)
        rec.update({'method': method, 'attribute': attr, 'exception': cls, 'site': site,
                    'message': short(str(e), 200), 'frames': exc_frames(e)})
        out['errors'].append(rec)

    try:
        script = mixed_script(source, path, project)
    except Exception as e:
        cur = {'line': None, 'column': None}
        err('Script', None, e)
        return out
    rng = random.Random(item['id'] + source)
    poss = c01_mixed.positions(source)
    cap = item.get('max_positions')
    if cap is not None and len(poss) > cap:
        names = [p for p in poss if p[2] == 'name']
        rest = [p for p in poss if p[2] != 'name']
        keep = rng.sample(names, min(len(names), (3 * cap) // 4))
        keep += rng.sample(rest, min(len(rest), cap - len(keep)))
        poss = sorted(keep)
    for (line, col, what) in poss:
        out['positions'] += 1
        cur = {'line': line, 'column': col}
        queries = MIXED_QUERIES if (full or what != 'keyword') else MIXED_LIGHT
        for name, kw in queries:
            lab = api_walk.label(name, kw)
            out['queries'] += 1
            try:
                res = api_walk.run_query(script, name, kw, line, col)
            except Exception as e:
                err(lab, None, e)
                continue
            if res is None:
                continue
            if not isinstance(res, (list, tuple)):
                res = [res]
            mix = result_mix(res[:16]) if name != 'complete' else ''
            if mix:
                out['mixed'] += 1
                out['by_query'][name] = out['by_query'].get(name, 0) + 1
                if mix == 'mixed-same-path':
                    out['mixed_same_path'] += 1
            # results without a position first: they are the ones this stream is about
            res = sorted(res, key=lambda r: 0 if getattr(r, '_name', None) is not None and r._name.start_pos is None else 1)
            for r in res[:max_results]:
                ident = cheap_walk(lab, r, err)
                if ident[6] == 'None':
                    out['nopos_results'] += 1
                if not full:
                    if ident in _WALKED:
                        out['objects'] += 1
                        continue
                    _WALKED.add(ident)
                api_walk.walk_object(lab, r, visit, err, depth=1)
    # position-free queries
    cur = {'line': None, 'column': None}
    for name, kw in api_walk.global_queries(search_strings=item.get('search', ('sqrt', 'mx.', 'sys', 'nsp.'))):
        lab = api_walk.label(name, kw)
        out['queries'] += 1
        try:
            res = api_walk.run_query(script, name, kw)
        except Exception as e:
            err(lab, None, e)
            continue
        for r in list(res)[:max_results]:
            ident = cheap_walk(lab, r, err) if type(r).__name__ != 'SyntaxError' else None
            if ident is not None and not full:
                if ident in _WALKED:
                    continue
                _WALKED.add(ident)
            api_walk.walk_object(lab, r, visit, err, depth=1)
    out['cpu'] = round(time.process_time() - t0, 2)
    return out


def mixed_item_or_none(item):
    return None if item is None else mixed_item(item)


def stream_mixed_start(ctx):
    """generates the programs (and, for a share, their edits = code being typed) and starts the
    workers in a thread; returns a join function -> (items, results)"""
    import glob
    import threading
    rng = ctx.subrng('mixed')
    items = []
    # regression inputs first
    for k, path in enumerate(sorted(glob.glob(os.path.join(common.CORPUS_DIR, 'C01', 'mixed-*.json')))):
        with open(path, encoding='utf-8') as f:
            c = json.load(f)
        items.append({'id': 'mk%d' % k, 'source': c['source'], 'path': c.get('path'), 'project': c.get('project', 'explicit'),
                      'kinds': c.get('kinds', ['corpus']), 'family': 'mixed/corpus', 'full': True})
    base = c01_mixed.programs(rng, ctx.size(60, 600))
    for it in base:
        it['family'] = 'mixed/valid'
        items.append(it)
        if rng.random() < ctx.size(0.15, 0.5):
            for kind, src in c01_mixed.edits(rng, it['source']):
                e = dict(it)
                e.update({'id': '%s-%s' % (it['id'], kind), 'source': src, 'family': 'mixed/' + kind})
                items.append(e)
    for it in items:
        it.setdefault('full', not ctx.quick)
        it['max_results'] = ctx.size(4, 8)
        it['max_positions'] = None if it['family'] == 'mixed/corpus' else ctx.size(14, None)
    jobs = ctx.size(3, 14)
    order = sorted(range(len(items)), key=lambda i: -len(items[i]['source']))
    buckets = [[] for _ in range(jobs)]
    for r, i in enumerate(order):
        buckets[r % jobs].append(items[i])
    box = {}

    def work():
        try:
            size = max(max(len(b) for b in buckets), 20)
            padded = []
            for b in buckets:
                padded += b + [None] * (size - len(b))
            res = common.parallel_map('props.c01', 'mixed_item_or_none', padded, jobs=jobs, timeout=ctx.size(600, 3000))
            box['res'] = [r for r in res if r is not None]
        except BaseException as e:
            box['exc'] = e
    th = threading.Thread(target=work, daemon=True)
    t0 = time.time()
    th.start()

    def join():
        th.join()
        if 'exc' in box:
            raise box['exc']
        ctx.notes.append('mixed stream workers: %.1fs wall' % (time.time() - t0))
        return items, box['res']
    return join


def stream_mixed_finish(ctx, join):
    items, results = join()
    by_id = {it['id']: it for it in items}
    how = ('gen.c01_mixed.materialise(project dir); os.chdir(it); s = jedi.Script(source, path=<project dir>/path or None, '
           'project=jedi.Project(project dir) or the default); r = getattr(s, method)(line, column, **kw); then every '
           'documented attribute of every result (harness/gen/api_walk.py)')
    tot = {'positions': 0, 'queries': 0, 'objects': 0, 'mixed': 0, 'mixed_same_path': 0, 'nopos_results': 0,
           'suppressed': 0, 'cpu': 0.0}
    sites = {}
    byq = {}
    for r in results:
        it = by_id[r['id']]
        for k in tot:
            tot[k] += r.get(k, 0)
        for q, n in r['by_query'].items():
            byq[q] = byq.get(q, 0) + n
        pk = [k for k in it['kinds'] if k.startswith('path:')][0]
        bucket = '%s/%s/%s' % (it['family'], pk, 'mixed-result' if r['mixed'] else 'no-mixed-result')
        ctx.count('mixed', ('program', it['source'], it['path'], it['project']), nontrivial=r['mixed'] > 0, bucket=bucket,
                  sample={'source': it['source'], 'path': it['path'], 'project': it['project'], 'kinds': it['kinds'],
                          'queries': r['queries'], 'results mixing positioned and position-less definitions': r['mixed'],
                          'of those under one module_path': r['mixed_same_path']})
        for k in it['kinds']:
            if k.startswith('join:'):
                d = ctx.hist.setdefault('mixed-join', {})
                d[k[5:]] = d.get(k[5:], 0) + r['mixed']
        s = ctx.streams.setdefault('mixed', {'evaluations': 0, 'nontrivial': 0})
        s['evaluations'] += r['queries']
        s['nontrivial'] += r['mixed']
        ctx.evaluations += r['queries']
        for e in r['errors']:
            key = (e['exception'], e['site'])
            sites[key] = sites.get(key, 0) + 1
            case = {'source': it['source'], 'line': e['line'], 'column': e['column'], 'method': e['method'],
                    'attribute': e['attribute'], 'exception': e['exception'], 'site': e['site'], 'family': it['family'],
                    'layout': 'c01_mixed', 'path': it['path'], 'project': it['project'], 'kinds': it['kinds']}
            what = ('result attribute raised %s at %s' if e['attribute'] else 'internal exception %s at %s') % key
            ctx.fail('api', what, case, expected='completes normally (the position is inside the text)',
                     observed={'exception': e['exception'], 'site': e['site'], 'message': e['message'],
                               'frames': e.get('frames', '')}, how=how)
    ctx.notes.append('mixed stream: %d programs, %d positions, %d queries, %d result lists mixing definitions with and '
                     'without a position (%d of them under one module_path; by query %s), %d position-less results '
                     'walked, %d result objects walked, %.0f cpu-s; internal-exception sites: %s'
                     % (len(results), tot['positions'], tot['queries'], tot['mixed'], tot['mixed_same_path'],
                        dict(sorted(byq.items())), tot['nopos_results'], tot['objects'], tot['cpu'],
                        {'%s@%s' % k: v for k, v in sorted(sites.items(), key=lambda kv: -kv[1])}))
    if results and not tot['mixed_same_path']:
        ctx.tie_broken('coverage:mixed', 'no generated program produced a result list that mixes positioned and '
                                         'position-less definitions under one module_path')


# ------------------------------------------------------------------ stream: several statements on one line

SEMIS_QUERIES = [('infer', {}), ('goto', {}), ('help', {}), ('get_references', {'scope': 'file'}), ('complete', {}),
                 ('get_signatures', {}), ('get_context', {})]
SEMIS_HEAD_QUERIES = [('get_references', {'scope': 'file'}), ('get_references', {})]
SEMIS_GLOBAL = [('get_names', {'all_scopes': True, 'definitions': True, 'references': True}), ('get_syntax_errors', {})]


def error_node_names(module_node, row):
    """every name leaf on line `row` that has an error_node ancestor, with what
    `imports.follow_error_node_imports_if_possible` observes of that error node: for every child
    its start position and whether `child == ';'`"""
    out = []
    leaf = module_node.get_first_leaf()
    while leaf is not None:
        if leaf.type == 'name' and leaf.start_pos[0] == row:
            en = leaf.search_ancestor('error_node')
            if en is not None:
                out.append({'children': [[c.start_pos[0], c.start_pos[1], bool(c == ';')] for c in en.children],
                            'ns': list(leaf.start_pos), 'ne': list(leaf.end_pos), 'name': leaf.value})
        leaf = leaf.get_next_leaf()
    return out


def semis_item(item):
    """worker of common.parallel_map (fresh interpreter): one generated line below the head of
    gen.c01_semis; the position queries at every word end / behind every `;` of the line (every
    column: `every_column`), reference searches started at the head occurrences of the names the
    line uses, get_names(references) with goto / infer of every name, then every documented
    attribute of every result (the unabridged walk once per distinct result of this process)"""
    import jedi
    t0 = time.process_time()
    source = item['source']
    full = item.get('full', False)
    max_results = item.get('max_results', 3)
    out = {'id': item['id'], 'positions': 0, 'queries': 0, 'objects': 0, 'errors': [], 'suppressed': 0,
           'errnodes': [], 'in_error_node': 0}
    seen_err = {}
    cur = {}

    def visit(method, obj):
        out['objects'] += 1

    def err(method, attr, e):
        cls, site = exc_key(e)
        k = (cls, site, attr is None)
        seen_err[k] = seen_err.get(k, 0) + 1
        if seen_err[k] > 2:
            out['suppressed'] += 1
            return
        rec = dict(cur)
        rec.update({'method': method, 'attribute': attr, 'exception': cls, 'site': site,
                    'message': short(str(e), 200), 'frames': exc_frames(e)})
        out['errors'].append(rec)

    try:
        script = jedi.Script(source)
        out['errnodes'] = error_node_names(script._module_node, item['row'])
        out['in_error_node'] = len(out['errnodes'])
    except Exception as e:
        cur = {'line': None, 'column': None}
        err('Script', None, e)
        return out

    def results(lab, res):
        if res is None:
            return
        if not isinstance(res, (list, tuple)):
            res = [res]
        for r in list(res)[:max_results]:
            if type(r).__name__ == 'SyntaxError':
                api_walk.walk_object(lab, r, visit, err, depth=0)
                continue
            ident = cheap_walk(lab, r, err)
            if not full:
                if ident in _WALKED:
                    out['objects'] += 1
                    continue
                _WALKED.add(ident)
            api_walk.walk_object(lab, r, visit, err, depth=1)

    plan = [(l, c, SEMIS_QUERIES) for (l, c, _) in c01_semis.positions(item, item.get('every_column', False), item.get('inside', True))]
    plan += [(l, c, SEMIS_HEAD_QUERIES) for (l, c, _) in c01_semis.head_positions(item)]
    for (line, col, queries) in plan:
        out['positions'] += 1
        cur = {'line': line, 'column': col}
        for name, kw in queries:
            lab = api_walk.label(name, kw)
            out['queries'] += 1
            try:
                res = api_walk.run_query(script, name, kw, line, col)
            except Exception as e:
                err(lab, None, e)
                continue
            results(lab, res)
    # just outside the line: ValueError and nothing else
    first = item['line'].split('\n')[0]
    cur = {'line': item['row'], 'column': item['col0'] + len(first) + 1, 'outside': True}
    for name, kw in SEMIS_QUERIES:
        out['queries'] += 1
        try:
            api_walk.run_query(script, name, kw, cur['line'], cur['column'])
            out['errors'].append(dict(cur, method=api_walk.label(name, kw), attribute=None, exception='(none)',
                                      site='', message='no exception', frames=''))
        except Exception as e:
            if classify(e) != 'ValueError':
                err(api_walk.label(name, kw), None, e)
    cur = {'line': None, 'column': None}
    for name, kw in SEMIS_GLOBAL:
        lab = api_walk.label(name, kw)
        out['queries'] += 1
        try:
            res = api_walk.run_query(script, name, kw)
        except Exception as e:
            err(lab, None, e)
            continue
        # the names of the generated line first: goto / infer of each
        res = sorted(res, key=lambda r: 0 if getattr(r, 'line', None) == item['row'] else 1)
        mr, max_results = max_results, item.get('max_names', 12)
        results(lab, res)
        max_results = mr
    out['cpu'] = round(time.process_time() - t0, 2)
    return out


def semis_item_or_none(item):
    return None if item is None else semis_item(item)


def stream_semis_start(ctx):
    import glob
    import threading
    rng = ctx.subrng('semis')
    items = []
    for k, path in enumerate(sorted(glob.glob(os.path.join(common.CORPUS_DIR, 'C01', 'semis-*.json')))):
        with open(path, encoding='utf-8') as f:
            c = json.load(f)
        it = c01_semis.make((c['ctx'], dict(c01_semis.CONTEXTS)[c['ctx']]), c['line'], c.get('kinds', ['corpus']),
                            'sk%d' % k)
        it['every_column'] = True
        items.append(it)
    items += c01_semis.lines(rng, ctx.size(6, 200), all_contexts=not ctx.quick, all_kinds=not ctx.quick,
                             blank_share=ctx.size(0.3, 1.0))
    for it in items:
        it.setdefault('every_column', not ctx.quick)
        it.setdefault('inside', not ctx.quick)
        it['full'] = not ctx.quick
        it['max_results'] = ctx.size(3, 6)
        it['max_names'] = ctx.size(10, 60)
    jobs = ctx.size(6, 14)
    order = sorted(range(len(items)), key=lambda i: -len(items[i]['line']))
    buckets = [[] for _ in range(jobs)]
    for r, i in enumerate(order):
        buckets[r % jobs].append(items[i])
    box = {}

    def work():
        try:
            size = max(max(len(b) for b in buckets), 20)
            padded = []
            for b in buckets:
                padded += b + [None] * (size - len(b))
            res = common.parallel_map('props.c01', 'semis_item_or_none', padded, jobs=jobs, timeout=ctx.size(600, 3000))
            box['res'] = [r for r in res if r is not None]
        except BaseException as e:
            box['exc'] = e
    th = threading.Thread(target=work, daemon=True)
    t0 = time.time()
    th.start()

    def join():
        th.join()
        if 'exc' in box:
            raise box['exc']
        ctx.notes.append('semis stream workers: %.1fs wall' % (time.time() - t0))
        return items, box['res']
    return join


class _FakeLeaf:
    value = 'x'


class _FakeChild:
    """what follow_error_node_imports_if_possible touches of a child of the error node"""
    def __init__(self, index, start_pos, semi, log):
        self.index, self.start_pos, self.semi, self.log = index, start_pos, semi, log

    def __eq__(self, other):
        return self.semi and other == ';'

    def __ne__(self, other):
        return not self.__eq__(other)

    __hash__ = object.__hash__

    def get_first_leaf(self):
        self.log.append(self.index)
        return _FakeLeaf()


class _FakeErrorNode:
    type = 'error_node'

    def __init__(self, children):
        self.children = children


class _FakeName:
    type = 'name'
    value = 'x'

    def __init__(self, error_node, start_pos, end_pos):
        self._en, self.start_pos, self.end_pos = error_node, start_pos, end_pos

    def search_ancestor(self, *types):
        return self._en if 'error_node' in types else None


def errstart_real(children, ns, ne):
    """the real `follow_error_node_imports_if_possible` on stand-ins that carry exactly what it
    reads (start positions, `== ';'`): which child is `nodes[0]` -> {'first': index}; the first
    leaf is not `from` / `import`, so the function returns None after that"""
    from jedi.inference import imports
    log = []
    en = _FakeErrorNode([_FakeChild(i, (c[0], c[1]), bool(c[2]), log) for i, c in enumerate(children)])
    try:
        r = imports.follow_error_node_imports_if_possible(None, _FakeName(en, tuple(ns), tuple(ne)))
    except Exception as e:
        return {'exc': type(e).__name__}
    if r is not None or len(log) != 1:
        return {'exc': 'unexpected result %r, first-leaf reads %r' % (r, log)}
    return {'first': log[0]}


def synthetic_error_nodes(ctx):
    """small scope, exhaustively: up to `n` children on one line at strictly increasing columns
    (each a `;` or not), a name that is one of the non-`;` children or lies inside one"""
    rng = ctx.subrng('errstart')
    out = []
    n = ctx.size(3, 4)
    cols = list(range(0, 2 * n + 1))
    for k in range(1, n + 1):
        combos = list(itertools.combinations(cols, k))
        if ctx.quick and len(combos) > 12:
            combos = rng.sample(combos, 12)
        for starts in combos:
            for semis in itertools.product([False, True], repeat=k):
                children = [[1, c, s] for c, s in zip(starts, semis)]
                for i, (c, s) in enumerate(zip(starts, semis)):
                    if s:
                        continue
                    nxt = starts[i + 1] if i + 1 < k else c + 2
                    # the name is the child itself (ends where the next child starts, or earlier)
                    # or a later leaf of it
                    for ns in range(c, nxt):
                        for ne in range(ns + 1, nxt + 1):
                            out.append({'children': children, 'ns': [1, ns], 'ne': [1, ne]})
    # children over several lines, unsorted lists, a name in front of / behind everything
    for _ in range(ctx.size(300, 5000)):
        k = rng.randint(0, 5)
        children = [[rng.randint(1, 3), rng.randint(0, 6), rng.random() < 0.4] for _ in range(k)]
        if rng.random() < 0.7:
            children.sort()
        ns = [rng.randint(1, 3), rng.randint(0, 6)]
        out.append({'children': children, 'ns': ns, 'ne': [ns[0], ns[1] + rng.randint(1, 3)]})
    return out


def stream_semis_finish(ctx, reqs, join):
    items, results = join()
    by_id = {it['id']: it for it in items}
    how = ('s = jedi.Script(source); r = getattr(s, method)(line, column, **kw); then every documented attribute of '
           'every result (harness/gen/api_walk.py); source = gen.c01_semis.HEAD + one generated line')
    cases = []
    tot = {'positions': 0, 'queries': 0, 'objects': 0, 'suppressed': 0, 'in_error_node': 0, 'cpu': 0.0}
    sites = {}
    seen = set()
    for r in results:
        it = by_id[r['id']]
        fam = 'semis/' + it['ctx']
        for k in tot:
            tot[k] += r.get(k, 0)
        for k in it['kinds']:
            if k.startswith(('tail:', 'last:')) or k in ('blank-before-semicolon', 'no-blank-before-semicolon', 'junk-piece'):
                d = ctx.hist.setdefault('semis', {})
                d[k] = d.get(k, 0) + 1
        ctx.count('semis', ('line', it['source']), nontrivial=r['in_error_node'] > 0,
                  bucket='%s/%s' % (fam, 'names-in-error-node' if r['in_error_node'] else 'no-name-in-error-node'),
                  sample={'line': it['line'], 'context': it['ctx'], 'kinds': it['kinds'], 'queries': r['queries'],
                          'names inside an error node': r['in_error_node']})
        s = ctx.streams.setdefault('semis', {'evaluations': 0, 'nontrivial': 0})
        s['evaluations'] += r['queries']
        s['nontrivial'] += r['queries'] if r['in_error_node'] else 0
        ctx.evaluations += r['queries']
        for e in r['errors']:
            key = (e['exception'], e['site'])
            sites[key] = sites.get(key, 0) + 1
            case = {'source': it['source'], 'line': e['line'], 'column': e['column'], 'method': e['method'],
                    'attribute': e['attribute'], 'exception': e['exception'], 'site': e['site'], 'family': fam,
                    'generated_line': it['line'], 'kinds': it['kinds']}
            if e.get('outside'):
                ctx.fail('api', 'position outside the text: %s instead of ValueError' % (key,), case,
                         expected='ValueError', observed={'exception': e['exception'], 'site': e['site']}, how=how)
                continue
            what = ('result attribute raised %s at %s' if e['attribute'] else 'internal exception %s at %s') % key
            ctx.fail('api', what, case, expected='completes normally (the position is inside the text)',
                     observed={'exception': e['exception'], 'site': e['site'], 'message': e['message'],
                               'frames': e.get('frames', '')}, how=how)
        # the statement-start scan on the error nodes of this line
        for en in r['errnodes']:
            key = json.dumps([en['children'], en['ns'], en['ne']])
            if key in seen:
                continue
            seen.add(key)
            reqs.append({'op': 'errstart', 'children': en['children'], 'ns': en['ns'], 'ne': en['ne']})
            cases.append((('errstart', key, it['source'], en['name']), errstart_real(en['children'], en['ns'], en['ne'])))
    for en in synthetic_error_nodes(ctx):
        key = json.dumps([en['children'], en['ns'], en['ne']])
        if key in seen:
            continue
        seen.add(key)
        reqs.append({'op': 'errstart', 'children': en['children'], 'ns': en['ns'], 'ne': en['ne']})
        cases.append((('errstart', key, None, None), errstart_real(en['children'], en['ns'], en['ne'])))
    ctx.notes.append('semis stream: %d lines, %d positions, %d queries, %d names inside an error node, %d result objects '
                     'walked, %.0f cpu-s; internal-exception sites: %s'
                     % (len(results), tot['positions'], tot['queries'], tot['in_error_node'], tot['objects'], tot['cpu'],
                        {'%s@%s' % k: v for k, v in sorted(sites.items(), key=lambda kv: -kv[1])}))
    if results and not tot['in_error_node']:
        ctx.tie_broken('coverage:semis', 'no generated line put a name inside an error node')
    return cases


def errstart_oracle(ctx, source, ns, impl):
    """failing-input search for a disagreement of the statement-start scan: the property itself
    on the public API -- infer / goto / help / get_references at that name"""
    import jedi
    line, col = ns[0], ns[1] + 1
    for name, kw in SEMIS_QUERIES[:4]:
        lab = api_walk.label(name, kw)
        try:
            res = api_walk.run_query(jedi.Script(source), name, kw, line, col)
            for r in list(res or [])[:3]:
                cheap_walk(lab, r, lambda *a: None)
        except Exception as e:
            cls, site = exc_key(e)
            ctx.fail('api', 'internal exception %s at %s' % (cls, site),
                     {'source': source, 'line': line, 'column': col, 'method': lab, 'attribute': None, 'exception': cls,
                      'site': site, 'family': 'semis/errstart'},
                     expected='completes normally (the position is inside the text)',
                     observed={'exception': cls, 'site': site, 'message': short(str(e), 200), 'frames': exc_frames(e)},
                     how='jedi.Script(source).%s(line, column)' % lab)
            return


def stream_known(ctx):
    """inputs of the listed findings, kept alive so that each KNOWN-FINDING line stays honest"""
    import jedi
    probes = [
        # F14: no typeshed in the sandbox
        ('x = True\nx', 2, 1, 'infer', {}),
    ]
    for text, line, col, name, kw in probes:
        try:
            api_walk.run_query(jedi.Script(text), name, kw, line, col)
            out = 'ok'
        except Exception as e:
            out = classify(e)
        ctx.count('api', (text, line, col, name), bucket='known-probe')
        oracle_position(ctx, 'api', text, line, col, out, 'jedi.Script(source).%s(line, column)' % name,
                        {'method': name, 'family': 'probe'})
    # the genuine findings, each with its minimal input
    def attr_probe(src, how, f, method, attribute, line=None, col=None):
        ctx.count('api', (src, how), bucket='known-probe')
        try:
            f()
        except Exception as e:
            cls, site = exc_key(e)
            ctx.fail('api', 'result attribute raised %s at %s' % (cls, site),
                     {'source': src, 'line': line, 'column': col, 'method': method, 'attribute': attribute,
                      'exception': cls, 'site': site, 'family': 'probe'},
                     expected='completes normally',
                     observed={'exception': cls, 'site': site, 'message': short(str(e), 200), 'frames': exc_frames(e)},
                     how=how)

    src = 'class C:\n    def m(self):\n        return 1\n'
    attr_probe(src, 'jedi.Script(source).goto(2, 11)[0].parent().get_type_hint()',
               lambda: [n.parent().get_type_hint() for n in jedi.Script(src).goto(2, 11)],
               'goto.parent', 'Name.get_type_hint', 2, 11)
    src2 = 'def g(*args): pass\n'
    attr_probe(src2, 'jedi.Script(source).get_names()[0].get_type_hint()',
               lambda: [n.get_type_hint() for n in jedi.Script(src2).get_names()], 'get_names', 'Name.get_type_hint')
    src3 = 'def f():\n    return f\n'
    attr_probe(src3, 'jedi.Script(source).get_names()[0].get_type_hint()',
               lambda: [n.get_type_hint() for n in jedi.Script(src3).get_names()], 'get_names', 'Name.get_type_hint')
    src4 = "b'x'\n"
    attr_probe(src4, 'jedi.Script(source).get_context().docstring()',
               lambda: jedi.Script(src4).get_context().docstring(), 'get_context', 'Name.docstring')
    src5 = '_'
    attr_probe(src5, '[c.get_line_code() for c in jedi.Script(source).complete(1, 1)]',
               lambda: [c.get_line_code() for c in jedi.Script(src5).complete(1, 1)], 'complete',
               'Completion.get_line_code', 1, 1)
    src7 = 'def f():\n    return 1\nclass C:\n    v = f\n    def m(self):\n        return self.v\n'
    attr_probe(src7, '[g.get_type_hint() for n in jedi.Script(source).infer(6, 20) for g in n.infer()]',
               lambda: [g.get_type_hint() for n in jedi.Script(src7).infer(6, 20) for g in n.infer()],
               'infer.infer', 'Name.get_type_hint', 6, 20)
    src8 = 'lam = lambda l1: l1\nr = lam()\nr'
    attr_probe(src8, 'jedi.Script(source).infer(3, 1)', lambda: jedi.Script(src8).infer(3, 1), 'infer', None, 3, 1)
    src9 = 'try:\n    pass\nexcept A as e'
    attr_probe(src9, '[n.get_type_hint() for n in jedi.Script(source).get_names()]',
               lambda: [n.get_type_hint() for n in jedi.Script(src9).get_names()], 'get_names', 'Name.get_type_hint')
    src10 = 'f0(zz=1, zz'
    attr_probe(src10, 'jedi.Script(source).get_references(1, 11)', lambda: jedi.Script(src10).get_references(1, 11),
               'get_references', None, 1, 11)
    src11 = 'def f0(): pass\nf0(\n    zz=1,\n    zz'
    attr_probe(src11, 'jedi.Script(source).get_references(4, 6)', lambda: jedi.Script(src11).get_references(4, 6),
               'get_references', None, 4, 6)
    src12 = 'def f(p):\n    return p\nr = f(a.x=1)\nr'
    attr_probe(src12, 'jedi.Script(source).infer(4, 1)', lambda: jedi.Script(src12).infer(4, 1), 'infer', None, 4, 1)
    src13 = 'def g(p=[y for y in z if q]):\n    pass\n'
    attr_probe(src13, 'jedi.Script(source).infer(1, 26)', lambda: jedi.Script(src13).infer(1, 26), 'infer', None, 1, 26)
    src14 = 'import marshal\nmarshal'
    attr_probe(src14, '[p.module_path for n in jedi.Script(source).infer(2, 7) for g in n.get_signatures() for p in g.params]',
               lambda: [p.module_path for n in jedi.Script(src14).infer(2, 7) for g in n.get_signatures() for p in g.params],
               'infer.get_signatures.params', 'ParamName.module_path', 2, 7)
    src15 = 'import nsp\nx = [nsp]\n'
    attr_probe(src15, 'Script(source, project=Project(<gen.c01_mixed.LAYOUT on disk>)).get_names()[1].get_type_hint()',
               lambda: mixed_script(src15, None, 'explicit', chdir=False).get_names()[1].get_type_hint(),
               'get_names', 'Name.get_type_hint')
    src6 = '[\n'
    attr_probe(src6, 'jedi.Script(source).complete()', lambda: jedi.Script(src6).complete(), 'complete', None)


# ------------------------------------------------------------------ compare

def compare(ctx, cases, answers):
    for (key, impl), ans in zip(cases, answers):
        stream = key[0]
        if isinstance(ans, dict) and 'error' in ans:
            raise common.InfraError('driver error: %r' % ans)
        if stream == 'lines':
            ctx.count('lines', key, nontrivial=len(impl) > 1, bucket='n=%d' % min(len(impl), 5),
                      sample={'text': key[1], 'lines': impl})
            if ans != impl:
                ctx.tie_broken('correspondence:lines', short({'text': key[1], 'impl': impl, 'model': ans}))
                if ''.join(impl) != key[1]:
                    ctx.fail('lines', 'split_lines loses text', {'source': key[1]}, expected=key[1], observed=impl,
                             how='parso.split_lines(source, keepends=True)')
        elif stream == 'validate':
            _, text, line, col = key
            st = position_status(text, line, col)
            ctx.count('validate', key, nontrivial=True, bucket=st + '/' + impl['out'],
                      sample={'text': text, 'line': line, 'col': col, 'result': impl})
            model = {k: ans[k] for k in ans}
            if model != impl:
                ctx.tie_broken('correspondence:validate', short({'case': key, 'impl': impl, 'model': model}))
            out = 'ok' if impl['out'] == 'ok' else ('ValueError' if impl.get('cls') == 'ValueError' else (impl.get('cls'), WRAPPER_SITE))
            how = 'helpers.validate_line_column(probe)(jedi.Script(source), line, column)'
            if oracle_position(ctx, 'validate', text, line, col, out, how) and out == 'ok':
                # what the wrapped method receives: the position itself, None replaced by the
                # last line / the end of the line
                nl = len(raw_lines(text))
                want_line = nl if line is None else line
                want_col = default_column(text, line) if col is None else col
                if impl['line'] != want_line or (want_col is not None and impl['col'] != want_col):
                    ctx.fail('validate', 'the wrapped method receives another position than the one asked for',
                             {'source': text, 'line': line, 'column': col}, expected=[want_line, want_col],
                             observed=[impl['line'], impl['col']], how=how)
        elif stream in ('methods', 'api'):
            text, line, col, lab = key[1], key[2], key[3], key[4]
            family = key[5] if len(key) > 5 else 'pool'
            st = position_status(text, line, col)
            ctx.count(stream, key[:5], nontrivial=True, bucket='%s/%s' % (family, st),
                      sample={'source': text, 'line': line, 'column': col, 'method': lab,
                              'outcome': impl if isinstance(impl, str) else list(impl)})
            how = 'jedi.Script(source).%s at (line, column)' % lab
            if isinstance(impl, tuple):
                oracle_position(ctx, stream, text, line, col, impl, how, {'method': lab, 'family': family})
                continue
            model = 'ok' if ans['out'] == 'ok' else ans.get('cls')
            if model != impl:
                ctx.tie_broken('correspondence:' + stream,
                               short({'source': text, 'line': line, 'column': col, 'method': lab, 'impl': impl, 'model': model}))
            oracle_position(ctx, stream, text, line, col, impl, how, {'method': lab, 'family': family})
        elif stream == 'iterargs':
            _, tail, typed, mode, line, col = key
            n_args = len(impl) if isinstance(impl, list) else -1
            ctx.count('iterargs', (tail, line, col), nontrivial=n_args != 1 or impl[0] != [0, '', False],
                      bucket='args=%s' % (min(n_args, 5) if n_args >= 0 else 'exception'),
                      sample={'typed': typed, 'impl': impl})
            if ans != impl:
                ctx.tie_broken('correspondence:iterargs', short({'text below the head': tail, 'mode': mode, 'position': [line, col],
                                                                 'impl': impl, 'model': ans}, 600))
                iterargs_oracle(ctx, tail, typed, mode, line, col, impl)
        elif stream == 'errstart':
            _, k, source, name = key
            children, ns, ne = json.loads(k)
            ctx.count('errstart', k, nontrivial=any(c[2] for c in children),
                      bucket='%s/%s' % ('tree' if source is not None else 'synthetic',
                                        'first=%s' % min(impl['first'], 3) if 'first' in impl else 'exception'),
                      sample={'children (line, column, is `;`)': children, 'name start': ns, 'name end': ne, 'impl': impl,
                              'source': source})
            if ans != impl:
                ctx.tie_broken('correspondence:errstart', short({'children (line, column, is `;`)': children, 'name start': ns,
                                                                 'name end': ne, 'impl': impl, 'model': ans,
                                                                 'source': source}, 600))
                if source is not None:
                    errstart_oracle(ctx, source, ns, impl)
        elif stream in ('oncompletion', 'getcode', 'cut'):
            model = ans if not isinstance(ans, dict) else 'EXC:' + ans.get('exc', '?')
            ctx.count('helpers', key, nontrivial=impl != '', bucket=stream)
            if model != impl:
                ctx.tie_broken('correspondence:helpers/' + stream, short({'case': key, 'impl': impl, 'model': model}))
                helper_oracle(ctx, stream, key, impl)


def iterargs_oracle(ctx, tail, typed, mode, line, col, impl):
    """failing-input search for a disagreement of the argument scan: the property itself on the
    public API -- get_signatures() at that position and every attribute of its results"""
    import jedi
    source = c01_calls.HEAD + tail
    errs = []
    try:
        api_walk.walk(jedi.Script(source), line, col, lambda *a: None, lambda m, a, e: errs.append((m, a, e)),
                      queries=[('get_signatures', {}), ('complete', {})], max_results=3, depth=1)
    except Exception as e:
        errs.append(('walk', None, e))
    for m, a, e in errs[:3]:
        cls, site = exc_key(e)
        ctx.fail('api', ('result attribute raised %s at %s' if a else 'internal exception %s at %s') % (cls, site),
                 {'source': source, 'line': line, 'column': col, 'method': m, 'attribute': a, 'exception': cls,
                  'site': site, 'family': 'typed/iterargs/' + mode, 'typed': typed},
                 expected='completes normally', observed={'exception': cls, 'site': site, 'message': short(str(e), 200)},
                 how='jedi.Script(source).%s(line, column), then %s' % (m, a))


def helper_oracle(ctx, stream, key, impl):
    """failing-input search for a helper disagreement: the helper's own contract, computed
    independently (plain Python string arithmetic on offsets)"""
    if isinstance(impl, str) and impl.startswith('EXC:'):
        if stream == 'getcode':
            _, text, a, b = key
            import parso
            lines = parso.split_lines(text, keepends=True)
            valid = all(1 <= p[0] <= len(lines) and 0 <= p[1] <= len(lines[p[0] - 1]) for p in (a, b)) and a <= b
            if not valid:
                return
        ctx.fail('helpers', '%s raised %s' % (stream, impl), {'case': list(key)}, observed=impl)
        return
    if stream == 'getcode':
        _, text, a, b = key
        import parso
        lines = parso.split_lines(text, keepends=True)
        valid = all(1 <= p[0] <= len(lines) and 0 <= p[1] <= len(lines[p[0] - 1]) for p in (a, b)) and a <= b
        if valid:
            off = lambda p: sum(len(l) for l in lines[:p[0] - 1]) + p[1]
            want = text[off(a):off(b)]
            if impl != want:
                ctx.fail('helpers', '_get_code is not the text between the two positions', {'case': list(key)},
                         expected=want, observed=impl, how='jedi.api.helpers._get_code(split_lines(text), start, end)')
    elif stream == 'oncompletion':
        _, s, col = key
        m = re.search(r'(?!\d)\w+$|$', s[:col]).group(0)
        if impl != m:
            ctx.fail('helpers', 'get_on_completion_name differs from the documented regex', {'case': list(key)},
                     expected=m, observed=impl)
    elif stream == 'cut':
        _, value, line, column, pl, pc = key
        import parso
        # contract only when the position lies inside the leaf
        ls = parso.split_lines(value, keepends=True)
        if line <= pl < line + len(ls):
            rel = pl - line
            c = pc - column if rel == 0 else pc
            if 0 <= c <= len(ls[rel]):
                want = ''.join(ls[:rel]) + ls[rel][:c]
                if impl != want:
                    ctx.fail('helpers', 'cut_value_at_position is not the value up to the position',
                             {'case': list(key)}, expected=want, observed=impl)


def run(ctx):
    load_local_known(ctx, 'C01')
    reqs = []
    cases = []
    t = [time.time()]

    def lap(name):
        t.append(time.time())
        ctx.notes.append('%s: %.1fs' % (name, t[-1] - t[-2]))
    # development aid: VERIF_C01_ONLY=mixed,api,... runs a subset of the streams
    only = set(filter(None, os.environ.get('VERIF_C01_ONLY', '').split(',')))
    on = lambda name: not only or name in only
    if only:
        ctx.notes.append('VERIF_C01_ONLY=%s: the other streams were skipped' % ','.join(sorted(only)))
    join_typed = stream_typed_start(ctx) if on('typed') else None
    join_mixed = stream_mixed_start(ctx) if on('mixed') else None
    join_semis = stream_semis_start(ctx) if on('semis') else None
    if on('validate'):
        cases += stream_validate(ctx, reqs)
        lap('validate')
    if on('methods'):
        cases += stream_methods(ctx, reqs)
        lap('methods')
    if on('helpers'):
        cases += stream_helpers(ctx, reqs)
        lap('helpers')
    if on('known'):
        stream_known(ctx)
        lap('known probes')
    if on('api'):
        cases += stream_api(ctx, reqs)
        lap('api')
    if join_typed is not None:
        cases += stream_typed_finish(ctx, reqs, join_typed)
        lap('typed (wait + oracle)')
    if join_mixed is not None:
        stream_mixed_finish(ctx, join_mixed)
        lap('mixed (wait + oracle)')
    if join_semis is not None:
        cases += stream_semis_finish(ctx, reqs, join_semis)
        lap('semis (wait + oracle)')
    if ctx.model_ok:
        answers = common.run_driver_parallel('C01', reqs)
        lap('driver')
        compare(ctx, cases, answers)
        lap('compare')
    else:
        ctx.notes.append('model did not build: correspondence skipped, direct oracle only')
        for (key, impl) in cases:
            if key[0] in ('methods', 'api'):
                out = impl
                oracle_position(ctx, key[0], key[1], key[2], key[3], out, 'jedi.Script(source).%s' % key[4],
                                {'method': key[4], 'family': key[5] if len(key) > 5 else 'pool'})
            elif key[0] == 'validate':
                out = 'ok' if impl['out'] == 'ok' else ('ValueError' if impl.get('cls') == 'ValueError' else (impl.get('cls'), WRAPPER_SITE))
                oracle_position(ctx, 'validate', key[1], key[2], key[3], out, 'validate_line_column probe')
            elif key[0] in ('oncompletion', 'getcode', 'cut'):
                helper_oracle(ctx, key[0], key, impl)
    ctx.obligations['assumptions'] = [
        'parso.split_lines is modelled by Model.Text.splitLines (stream lines: exhaustive small texts incl. \\f \\v \\x1c \\x85 U+2028)',
        'totality of parso error recovery and of the inference engine is NOT proved: stream api is fuzzing in support of the claim, not a theorem',
        'sandbox: jedi/third_party/typeshed is empty; exceptions caused by that are listed as known findings keyed on (class, innermost jedi frame)',
        'Python str.isalnum/\\w/\\d (unicode tables) enter the helper models as per-request character classes',
        'parso trees are well-formed in the sense of Lemmas/IterArgs.WF (leaves have a value; inner nodes are not names, '
        'have a first child at their own position; argument / star_expr nodes have two children); a parso node is truthy; '
        'only Operator / Keyword leaves compare equal to a str (stream iterargs compares the real scan with the model on '
        'the node lists of every typed prefix)',
        'the children of a parso error_node are in text order and a name never lies inside a `;` leaf (hypotheses of '
        'stmt_start_total; stream errstart feeds the real function and the model the error nodes of every generated line)',
        'which test dominates which `.value` read of _iter_arguments is computed by translator/gen_c01.py:value_reads '
        '(python ast; enclosing if/elif tests, earlier conjuncts of `and`, early returns; single-assignment aliases)',
    ]
    ctx.obligations['exhaustive'] = True


def replay(ctx, payload):
    """re-runs the recorded query at the recorded position on the real code and walks every
    attribute of the results; exit 1 (and a REPRODUCED line) when the recorded exception class
    is raised at the recorded place again, exit 0 otherwise"""
    import jedi
    inp = payload['input']
    print('input:', json.dumps(inp, ensure_ascii=True))
    want = (inp.get('exception'), inp.get('site'))
    got = []
    if 'source' in inp and inp.get('method'):
        first = inp['method'].split('.')[0]
        m = re.match(r'(\w+)', first)
        if inp.get('layout') == 'c01_mixed':
            # the project of gen.c01_mixed.LAYOUT is written to a fresh directory, the process
            # moves into it, the Script gets the recorded path (relative to it) / project
            script = mixed_script(inp['source'], inp.get('path'), inp.get('project'))
            print('project directory:', mixed_root(), 'path:', inp.get('path'), 'project:', inp.get('project'))
        else:
            script = jedi.Script(inp['source'])
        queries = [(n, kw) for n, kw in MIXED_QUERIES + api_walk.global_queries()
                   + api_walk.global_queries(search_strings=('sqrt', 'mx.', 'sys', 'nsp.'))
                   if api_walk.label(n, kw) == first] or [(m.group(1), {})]
        name, kw = queries[0]
        try:
            r = api_walk.run_query(script, name, kw, inp.get('line'), inp.get('column'))
            print('result:', r)
            for o in (r if isinstance(r, (list, tuple)) else [r] if r is not None else []):
                api_walk.walk_object(first, o, lambda *a: None,
                                     lambda mm, a, e: got.append((mm, a) + exc_key(e) + (short(str(e), 120),)))
        except Exception as e:
            got.append((first, None) + exc_key(e) + (short(str(e), 120),))
        for g in got:
            print('raised:', g)
    print('expected:', payload.get('expected'), 'observed at record time:', payload.get('observed'))
    if want[0] and any(g[2:4] == want for g in got):
        print('REPRODUCED: %s at %s' % want)
        return 1
    if want[0]:
        print('not reproduced: %s at %s was not raised' % want)
    return 0

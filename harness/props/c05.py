"""C05 - rename rewrites exactly the references and preserves behaviour.

Streams
  refs       Script.get_references at every identifier occurrence of generated Scopes programs
             vs Model.Refs.refs (sets of occurrence ids must be equal)
  render     the text produced by rename(...) vs the model text: the original with exactly the
             occurrences of `refs` replaced (Tree.render theorem render_rename)
  oracle     the property itself, independent of the model:
             (a) rename rewrites exactly what get_references reports, nothing else;
             (b) the renamed program behaves like the original (both are executed after an
                 AST instrumentation that logs every name read and every assigned constant);
             (c) partition: asking from any reported occurrence yields the same set;
             (d) renaming the new name back restores the text byte for byte.
  multimod   the same clauses on generated multi-module projects on disk (gen/multimod.py,
             props/c05_multimod.py): root modules, a package with sub-modules and re-exports,
             every import form, aliases, the same function name defined in two modules and tied
             together by try/except-ImportError or if/else imports; references across files,
             announced file/package renames, behaviour = output of `python -m <main>`.
  kwparam    the same clauses on generated programs whose parameters are passed BY KEYWORD at call
             sites (gen/kwparams.py, props/c05_kwparams.py): positional-or-keyword, keyword-only
             (after `*` and after `*args`, with and without default), positional-only and `**`
             parameters of functions, methods, `__init__`, nested functions and lambdas; rename
             from the parameter, from a use in the body and from the call-site keyword.
  refs/globals, render/globals, oracle (tag globals)
             generated programs in which ONE module variable is (re)bound through `global` declarations
             of two or three scopes (gen/globalvars.py: top-level functions, nested functions, functions
             in class bodies, class bodies; readers with and without declaration; with and without a
             module-level binding): all clauses from every occurrence, in particular from inside each
             declaring scope.
  globalstep references.py:_find_global_variables alone (called on what _find_names answers, flow analysis
             off) vs Model.RefsGlobal.globalVariablesOf with the guard the translator reads from the source.
"""
import ast
import os

import common
from common import short
from gen import scopes as G
from gen import multimod as GM
from props import c05_multimod as MM
from props import c05_kwparams as KW
from gen import kwparams as GK
from gen import globalvars as GV

MODELS = ['Scopes', 'Refs', 'RefsGlobal', 'RefsMulti', 'KwBind']
LEAN_TARGETS = ['JediModel.Props.C05', 'JediModel.Drivers.C05']
MANIFEST = dict(
    text='Theorems: refs_sound_partial (every reported reference denotes the variable under the cursor, for '
         'identifiers satisfying the decidable NameOk; scan invariant by induction over the occurrence list, built on '
         'the C03 chain theorem generalised over the flow-analysis selector), render_rename over Model/Tree (rendering the rename map changes exactly the values of the '
         'mapped name leaves; every prefix and every other leaf is byte-identical), and over Model/Refs (a '
         'transcription of find_references: defining-name closure with flow analysis off, global-variable step, '
         'same-context step, scan with late merge): every reference carries the identifier of the start, the start is '
         'among its references, the found set only grows along the scan. Tie: exact-equality correspondence of '
         'get_references with the model on generated programs (exhaustive small scope + random). The behavioural '
         'clauses (same behaviour, partition, rename-back) are decided by the direct oracle that executes the '
         'programs; the reference-set = variable-occurrence-set statement is false of the unchanged code '
         '(kernel-checked witnesses, known findings). Several modules (Model/RefsMulti: tokens as _find_names answers, '
         'modules as token lists): scan_modules_flat (module boundaries are invisible to the scan), '
         'late_merge_across_modules (a token that did not match when its module was scanned is reported as soon as a '
         'token of a LATER module ties it to a defining name), both stated over the translator constant that records '
         'where find_references creates the map of non-matching references (reset_per_module_loses_references: the '
         'kernel-checked counter-model for the other placement), flow_analysis_off_then_restored. Direct oracle on '
         'generated multi-module projects on disk (every import form, aliases, re-exports, try/except and if/else ties, '
         'file and package renames): exactness, behaviour, partition, rename-back. Keyword arguments (Model/KwBind): '
         'keyword_goto_complete (every parameter a call keyword binds in Python - positional-or-keyword or keyword-only - is '
         'among the answers of the named-param goto, for every signature and keyword; stated over the kind filter the '
         'translator reads from names.py:AbstractTreeName.goto, so a filter that forgets a keyword-capable kind breaks the '
         'build), keyword_goto_sound_partial (converse, for filters that accept keyword-capable kinds only) with the '
         'kernel-checked witness that the unchanged filter is not sound (`**x` tied to `x=`) and the counter-model for a '
         'filter without KEYWORD_ONLY; tie: Script.goto on the keyword of a call = the model, for all well-formed signatures '
         'of <= 3 parameters x every keyword x function/method/__init__ (stream kwgoto). Direct oracle on generated programs '
         'whose parameters of every kind are passed by keyword (stream kwparam) and on multi-module projects with keyword '
         'calls across modules. Module variables living through `global` statements of several scopes '
         '(Model/RefsGlobal: _find_global_variables with its decision which `global x` statements are linked to the found '
         'names as a parameter the translator reads from the loop body - no guard / `continue` unless the found name is '
         'a module name or sits in the scope of the statement; TieBroken otherwise): global_step_links_every_statement '
         '(every `global x` name of the module and every definition of x in its scope is yielded, whatever the found names), '
         'global_writers_are_references (for every program and every start spelled x: every `global x` statement and every '
         'binding of x in a scope that declares it - a binding of the module variable, varOf = 0 - is among the references, '
         'also from inside another declaring scope), refsG_is_refs (the parametrised model run by the correspondence is the '
         'model of the older theorems), same_scope_only_loses_global_writers (kernel-checked counter-model for the guarded '
         'shape: two declaring functions, the writer of the other one is lost and the sets are no partition). Ties: stream '
         'globalstep (the real _find_global_variables = the model, on every program with a global statement), refs/render on '
         'generated programs with two or three declaring scopes (gen/globalvars.py); the direct oracle executes them.',
    note='Modelled not verified: the Scopes fragment (straight-line bodies, no imports) for one module; for several '
         'modules only the scan loop is modelled (what goto answers for a token across imports is an input of the model); '
         'import resolution, file/package renames and the project-wide file search are covered by the direct oracle on '
         'generated projects (stream multimod) only.',
    technique='Lean 4 proof over hand-written model (global step parametrised by the guard read from the source) + differential correspondence (find_references, _find_global_variables, keyword goto) + execution oracle',
    design='5.C05')

FRESH = 'zz_new'


# ---------------------------------------------------------------------------- behaviour oracle

class _Instr(ast.NodeTransformer):
    def __init__(self):
        self.k = 0

    def visit_Name(self, node):
        if isinstance(node.ctx, ast.Load):
            self.k += 1
            return ast.copy_location(
                ast.Call(func=ast.Name(id='_uU', ctx=ast.Load()),
                         args=[ast.Constant(self.k), node], keywords=[]), node)
        return node

    def visit_Constant(self, node):
        if isinstance(node.value, int) and not isinstance(node.value, bool):
            self.k += 1
            return ast.copy_location(ast.Constant(1000 + self.k), node)
        return node


def behaviour(src):
    """event log of an instrumented run: every name read (index in source order, value token) and
    the terminating exception class.  Tokens: assigned constants are made unique per position;
    functions/classes are identified by kind and first line."""
    try:
        tree = ast.parse(src)
    except SyntaxError as e:
        return ('SyntaxError', str(e.lineno))
    tree = _Instr().visit(tree)
    ast.fix_missing_locations(tree)
    log = []

    ordinals = {}

    def ordinal(c):
        # classes are identified by the order in which the run first shows them (the same in
        # the original and the renamed program), never by their name
        return ordinals.setdefault(id(c), len(ordinals))

    def tok(v):
        if isinstance(v, int):
            return v
        code = getattr(v, '__code__', None)
        if code is not None:
            return ('function', code.co_firstlineno)
        if isinstance(v, type):
            return ('class', ordinal(v))
        if type(v).__module__ == '__c05__':
            return ('inst', ordinal(type(v)))
        return type(v).__name__

    def _uU(k, v):
        log.append((k, tok(v)))
        return v
    import sys
    old = sys.getrecursionlimit()
    sys.setrecursionlimit(150)
    try:
        exec(compile(tree, '<c05>', 'exec'), {'_uU': _uU, '__name__': '__c05__'})
        end = None
    except RecursionError:
        end = 'RecursionError'
    except BaseException as e:
        end = type(e).__name__
    finally:
        sys.setrecursionlimit(old)
    return (log[:2000], end)


def replace_at(src, positions, old, new):
    """src with `old` replaced by `new` at the given (line, col) positions"""
    lines = src.split('\n')
    by_line = {}
    for (l, c) in positions:
        by_line.setdefault(l, []).append(c)
    for l, cols in by_line.items():
        s = lines[l - 1]
        for c in sorted(cols, reverse=True):
            assert s[c:c + len(old)] == old, (s, c, old)
            s = s[:c] + new + s[c + len(old):]
        lines[l - 1] = s
    return '\n'.join(lines)


def shape_of(flat, occs, u):
    """syntactic class of the name under the cursor = which hypothesis of the (unproved, false in
    general) statement refs = occurrences-of-one-variable it violates"""
    x = flat['occs'][u][0]
    mine = [o for o in flat['occs'] if o[0] == x]
    roles = {o[1] for o in mine}
    R, K = G.ROLES, G.KINDS
    if R['nonlocal'] in roles:
        return 'name-has-nonlocal-declaration'
    if R['global'] in roles and any(o[1] in (R['bind'], R['param'], R['def']) and o[2] != 0
                                    and not any(g[1] == R['global'] and g[2] == o[2] for g in mine)
                                    for o in mine):
        # some scope binds the name locally while another scope declares it global
        return 'global-declaration-and-unrelated-local-binding'
    for o in mine:
        if o[1] == R['param'] and any(b[1] in (R['bind'], R['def']) and b[2] == o[2] for b in mine):
            return 'parameter-rebound-in-function-body'
    # root causes shared with C03 (goto consults a class body Python does not): a use of the name
    # in a class body or comprehension nested (through class bodies / comprehensions only) in a
    # class that binds the name
    for o in mine:
        if o[1] != R['use']:
            continue
        t = o[2]
        while t != 0 and flat['scopes'][t][0] in (K['class'], K['comp']):
            t = flat['scopes'][t][1]
            if flat['scopes'][t][0] == K['class'] and any(b[2] == t and b[1] in (R['bind'], R['def']) for b in mine):
                return 'use-nested-in-class-body-that-binds-the-name'
    for si, sc in enumerate(flat['scopes']):
        if sc[0] == K['class'] and any(o[2] == si and o[1] in (R['bind'], R['def']) for o in mine):
            first_bind = min(i for i, o in enumerate(flat['occs'])
                             if o[0] == x and o[2] == si and o[1] in (R['bind'], R['def']))
            if any(o[0] == x and o[2] == si and o[1] == R['use'] and o[3] <= first_bind
                   for o in flat['occs']):
                return 'class-body-reads-outer-variable-then-binds-attribute'
    return 'unclassified'


def global_step(src, project, occs, pos2id):
    """the real references.py:_find_global_variables on the names _find_names answers for every occurrence
    (flow analysis off, as inside find_references): {occ id: sorted occurrence ids yielded}"""
    import jedi
    from jedi.inference import references as R
    s = jedi.Script(src, project=project)
    mc = s._get_module_context()
    inf = mc.inference_state
    out = {}
    for o in occs:
        leaf = s._module_node.get_name_of_position((o['line'], o['col']))
        if leaf is None:
            continue
        try:
            inf.flow_analysis_enabled = False
            names = R._find_names(mc, leaf)
            res = list(R._find_global_variables(names, leaf.value))
        except Exception as e:
            out[o['id']] = 'raised:%s@%s' % common.exc_site(e)
            continue
        finally:
            inf.flow_analysis_enabled = True
        out[o['id']] = sorted({pos2id.get(n.tree_name.start_pos, -1) if n.tree_name is not None else -1 for n in res})
    return out


def analyse(prog):
    """pure analysis of one program on the real code (runs in worker processes)"""
    import jedi
    src, occs = G.plain(prog)
    flat = G.flat(prog)
    pos2id = {(o['line'], o['col']): o['id'] for o in occs}
    project = jedi.Project(EMPTY_PROJECT)
    # a fresh Script per query: with path=None the diff parser mutates the module node of an
    # older Script object when a newer one is created (jedi's documented usage is one Script per
    # buffer state)
    class _Fresh:
        def __getattr__(self, name):
            return getattr(jedi.Script(src, project=project), name)
    script = _Fresh()
    refs = {}
    raised = []
    for o in occs:
        try:
            res = script.get_references(o['line'], o['col'], scope='file')
        except Exception as e:
            cls, site = common.exc_site(e)
            raised.append((o['id'], '%s@%s' % (cls, site)))
            continue
        refs[o['id']] = sorted(pos2id.get((d.line, d.column), -1) for d in res)
    out = {'prog': prog, 'src': src, 'occs': occs, 'flat': flat, 'refs': refs, 'raised': raised,
           'fails': [], 'judged': 0, 'renders': [], 'gvars': {}}
    if any(o['role'] == 'global' for o in occs):
        out['gvars'] = global_step(src, project, occs, pos2id)
    base = None
    # occurrences with a lexical meaning in the executed program: bindings, declarations, and uses
    # that were executed and found a binding.  A use that is never executed, or that reads an
    # unbound variable (NameError), is outside the property's quantifier: it is neither a start
    # point nor a witness against the partition.
    seen, err, _ = G.run_executable(prog, occs)
    out['executable'] = err is None and not any(-1 in t for t in seen.values())
    if not out['executable']:
        # a program that stops with NameError / UnboundLocalError is not an executable program
        # (the property's quantifier): correspondence only, no oracle verdict
        return out
    meaningful = set()
    for oc in occs:
        if oc['role'] != 'use':
            meaningful.add(oc['id'])
        elif oc['id'] in seen and all(t != -1 for t in seen[oc['id']]):
            meaningful.add(oc['id'])
    for u, rs in refs.items():
        if u not in meaningful:
            continue
        o = occs[u]
        case = {'source': src, 'line': o['line'], 'column': o['col'], 'new_name': FRESH}
        if -1 in rs:
            continue
        # (c) partition
        for r in rs:
            if r in refs and r in meaningful and \
                    [i for i in refs[r] if i in meaningful] != [i for i in rs if i in meaningful]:
                out['fails'].append(('references are not a partition: asking from a reported occurrence gives another set',
                                     dict(case, shape=shape_of(flat, occs, u)),
                                     rs, {'from': occs[r], 'refs': refs[r]}))
                break
        # rename
        try:
            ref = script.rename(o['line'], o['col'], new_name=FRESH)
            new_code = list(ref.get_changed_files().values())[0].get_new_code() if ref.get_changed_files() else src
        except Exception as e:
            cls, site = common.exc_site(e)
            if cls != 'RefactoringError':
                raised.append((u, 'rename:%s@%s' % (cls, site)))
            continue
        out['judged'] += 1
        # project-scope references (what rename uses) - same single file here
        try:
            prs = sorted(pos2id.get((d.line, d.column), -1)
                         for d in script.get_references(o['line'], o['col'], include_builtins=False))
        except Exception:
            prs = rs
        if -1 in prs:
            raised.append((u, 'project-scope reference outside the buffer'))
            continue
        expected = replace_at(src, [(occs[i]['line'], occs[i]['col']) for i in prs], o['name'], FRESH)
        out['renders'].append((u, prs, new_code))
        if new_code != expected:
            out['fails'].append(('rename does not rewrite exactly the reported references',
                                 dict(case, shape='render'), expected, new_code))
            continue
        # (b) behaviour
        if base is None:
            base = behaviour(src)
        nb = behaviour(new_code)
        if base[1] is None and nb != base:
            out['fails'].append(('renamed program behaves differently', dict(case, shape=shape_of(flat, occs, u)),
                                 {'old': short(base, 400)}, {'new_code': new_code, 'new': short(nb, 400)}))
        # (d) rename back
        try:
            line = o['line']
            col = o['col']
            # position of the same occurrence in the new code: columns shift by earlier replacements on the line
            shift = sum(len(FRESH) - len(o['name']) for i in prs
                        if occs[i]['line'] == line and occs[i]['col'] < col)
            s2 = jedi.Script(new_code, project=project)
            back = s2.rename(line, col + shift, new_name=o['name'])
            files = back.get_changed_files()
            back_code = list(files.values())[0].get_new_code() if files else new_code
            if back_code != src:
                out['fails'].append(('renaming back does not restore the text',
                                     dict(case, shape=shape_of(flat, occs, u)), src, back_code))
        except Exception as e:
            cls, site = common.exc_site(e)
            raised.append((u, 'rename-back:%s@%s' % (cls, site)))
    return out


EMPTY_PROJECT = '/var/tmp/verif-c05-empty-project'


def fix_keys(out):
    out['refs'] = {int(k): v for k, v in out['refs'].items()}
    out['gvars'] = {int(k): v for k, v in out.get('gvars', {}).items()}
    out['fails'] = [tuple(f) for f in out['fails']]
    out['renders'] = [tuple(r) for r in out['renders']]
    return out


def programs(ctx):
    rng = ctx.subrng('gen')
    out = []
    if ctx.quick:
        small = list(G.enumerate_small(3))
        out += [(p, 'exhaustive') for p in rng.sample(small, 250)]
        pool = [p for p in G.enumerate_small(4)][len(small):]
        out += [(p, 'sampled-small') for p in rng.sample(pool, 250)]
        ctx.notes.append('250 sampled of the %d module bodies with <= 3 items, 250 of the %d with 4 items'
                         % (len(small), len(pool)))
        n_random = 120
    else:
        small = list(G.enumerate_small(4))
        out += [(p, 'exhaustive') for p in small]
        ctx.notes.append('exhaustive stream: all %d module bodies with <= 4 items over names {a, b}' % len(small))
        ctx.obligations['exhaustive'] = True
        n_random = 3000
    for _ in range(n_random):
        out.append((G.gen_program(rng, size=10), 'random'))
    # one module variable (re)bound through `global` declarations of SEVERAL scopes (gen/globalvars.py)
    grng = ctx.subrng('globalvars')
    for plan in GV.plans(ctx.size(36, 600)):
        out.append((GV.gen_program(grng, plan), 'globals'))
    out += [(p, 'witness') for p in WITNESSES]
    return out


def analyse_any(item):
    """worker entry: one pool serves the three streams"""
    kind, x = item
    if kind == 'prog':
        return analyse(x)
    if kind == 'attr':
        return analyse_attr(x)
    if kind == 'kw':
        return KW.analyse(x)
    if kind == 'kg':
        return KW.goto_chunk(x)
    return MM.analyse_project(x)


COST = {'prog': 1, 'attr': 12, 'mm': 30, 'kw': 30, 'kg': 3}


def kwparam_items(ctx):
    """stratified: over any 6 consecutive programs every kind of parameter stands in every kind of
    callable; every program has the three keyword-only forms; every 4th program has one of the
    shapes in which a call keyword is spelled like a parameter it cannot bind"""
    items = []
    n = ctx.size(14, 300)
    for i in range(n):
        k = i % len(GK.KINDS)
        plan = {'kinds': GK.KINDS[k:] + GK.KINDS[:k]}
        if i % 4 == 3:
            plan['collide'] = GK.COLLIDE_KINDS[(i // 4) % len(GK.COLLIDE_KINDS)]
        items.append({'seed': '%s-kw-%d' % (ctx.seed, i), 'plans': [plan], 'tag': 'random'})
    for w in KW.WITNESSES:
        items.append({'program': w, 'tag': 'witness'})
    for w in corpus_kwparam():
        items.append({'program': w, 'tag': 'corpus'})
    return items


def corpus_kwparam():
    import glob
    import json
    out = []
    for p in sorted(glob.glob(os.path.join(common.CORPUS_DIR, 'C05', '*.json'))):
        with open(p, encoding='utf-8') as f:
            d = json.load(f)
        if d.get('program') == 'kwparam':
            out.append({'source': d['source'], 'dictkeys': d.get('dictkeys', []), 'collide': d.get('collide', []),
                        'features': ['corpus:' + os.path.basename(p)]})
    return out


def balanced(items, jobs=14):
    """order `items` so that the contiguous chunks common.parallel_map cuts carry about the same
    estimated cost; returns (ordered items, positions) with ordered[k] = items[positions[k]]"""
    n = len(items)
    jobs = max(1, min(jobs, (n + 19) // 20))
    size = (n + jobs - 1) // jobs
    caps = [min(size, max(0, n - k * size)) for k in range(jobs)]
    bins = [[] for _ in range(jobs)]
    load = [0] * jobs
    for i in sorted(range(n), key=lambda i: -COST[items[i][0]]):
        k = min((k for k in range(jobs) if len(bins[k]) < caps[k]), key=lambda k: load[k])
        bins[k].append(i)
        load[k] += COST[items[i][0]]
    pos = [i for b in bins for i in b]
    return [items[i] for i in pos], pos


def multimod_items(ctx):
    """stratified: every way of tying two definitions together in every place, every import form"""
    rng = ctx.subrng('multimod')
    items = []
    ties = ['tie-try', 'tie-try-local', 'tie-try', 'tie-try-local', 'tie-if']
    wheres = ['main', 'sub', 'upper']
    # the function defined in two modules takes a second parameter that call sites pass by keyword:
    # positional-or-keyword, keyword-only after `*`, keyword-only after `*rest`, or none (as before)
    kws = ['kwonly-star', 'pk', 'kwonly-args', None, 'kwonly-star', 'kwonly-args', 'pk']
    n_tie, n_free = ctx.size(20, 300), ctx.size(10, 150)
    for i in range(n_tie):
        plan = {'tie': ties[i % len(ties)], 'tie_where': wheres[(i // len(ties) + i) % 3],
                'kw': kws[i % len(kws)], 'klass': i % 3 == 0}
        items.append({'project': GM.gen_project(rng, plan), 'tag': 'tie', 'economy': ctx.quick})
    forms = ['from-name', 'from-name-as', 'import-module', 'import-module-as', 'import-dotted',
             'from-pkg-import-sub', 'from-pkg-import-sub-as', 'relative-sub', 'relative-name']
    for i in range(n_free):
        plan = {'import_form': forms[i % len(forms)], 'kw': kws[(i + 1) % len(kws)], 'klass': i % 2 == 0}
        items.append({'project': GM.gen_project(rng, plan), 'tag': 'free', 'economy': ctx.quick})
    for w in MM.WITNESSES:
        items.append({'project': w, 'tag': 'witness', 'economy': False})
    for w in corpus_projects():
        items.append({'project': w, 'tag': 'corpus', 'economy': False})
    return items


def corpus_projects():
    import glob
    import json
    out = []
    for p in sorted(glob.glob(os.path.join(common.CORPUS_DIR, 'C05', '*.json'))):
        with open(p, encoding='utf-8') as f:
            d = json.load(f)
        if 'files' in d:
            out.append({'files': d['files'], 'main': d['main'], 'features': ['corpus:' + os.path.basename(p)]})
    return out


def run(ctx):
    os.makedirs(EMPTY_PROJECT, exist_ok=True)
    # debugging aid: VERIF_C05_STREAMS=kw,mm,attr,prog restricts the run to some streams (default: all)
    only = set(filter(None, os.environ.get('VERIF_C05_STREAMS', '').split(',')))
    progs = programs(ctx) if not only or 'prog' in only else []
    attr_seeds = ['%s-attr-%d' % (ctx.seed, i) for i in range(ctx.size(12, 400))] if not only or 'attr' in only else []
    mm_items = multimod_items(ctx) if not only or 'mm' in only else []
    kw_items = kwparam_items(ctx) if not only or 'kw' in only else []
    kg_cases = GK.goto_cases() if not only or 'kg' in only else []
    kg_chunks = [kg_cases[i:i + 40] for i in range(0, len(kg_cases), 40)]
    if only:
        ctx.notes.append('RESTRICTED RUN (VERIF_C05_STREAMS=%s): not the full check' % ','.join(sorted(only)))
    items = [['prog', p] for p, _ in progs] + [['attr', s_] for s_ in attr_seeds] + [['mm', it] for it in mm_items] \
        + [['kw', it] for it in kw_items] + [['kg', ch] for ch in kg_chunks]
    ordered, pos = balanced(items)
    import time
    t_pool = time.time()
    res = common.parallel_map('props.c05', 'analyse_any', ordered)
    ctx.notes.append('worker pool (%d items: %d programs, %d attribute seeds, %d projects, %d keyword-parameter programs): '
                     '%.1f s wall, load %s'
                     % (len(items), len(progs), len(attr_seeds), len(mm_items), len(kw_items), time.time() - t_pool,
                        open('/proc/loadavg').read().split()[0]))
    results = [None] * len(items)
    for k, i in enumerate(pos):
        results[i] = res[k]
    outs = [fix_keys(o) for o in results[:len(progs)]]
    attr_results = results[len(progs):len(progs) + len(attr_seeds)]
    mm_results = results[len(progs) + len(attr_seeds):len(progs) + len(attr_seeds) + len(mm_items)]
    kw_results = results[len(progs) + len(attr_seeds) + len(mm_items):len(items) - len(kg_chunks)]
    kg_results = [r for ch in results[len(items) - len(kg_chunks):] for r in ch]
    reqs = []
    how = 'jedi.Script(source).rename(line, column, new_name=...) / get_references; see harness/props/c05.py:analyse'
    for out, (_, tag) in zip(outs, progs):
        out['tag'] = tag
        for oid, b in out['raised']:
            ctx.count('raised', (out['src'], oid), nontrivial=False, bucket=b)
        for u, rs in out['refs'].items():
            ctx.count('oracle', (out['src'], u), nontrivial=len(rs) > 1, bucket='refs=%d' % min(len(rs), 5),
                      sample={'source': out['src'], 'line': out['occs'][u]['line'],
                              'column': out['occs'][u]['col'], 'references': rs})
        for what, case, exp, obs in out['fails']:
            ctx.fail('oracle', what, case, expected=exp, observed=obs, how=how)
        flat = out['flat']
        reqs.append({'op': 'refs', 'scopes': [s[:2] for s in flat['scopes']], 'occs': flat['occs']})
    kg_reqs = [{'op': 'kwgoto', 'sig': c['sig'], 'k': c['k']} for c in kg_cases]
    if ctx.model_ok and (reqs or kg_reqs):
        answers = common.run_driver_parallel('C05', reqs + kg_reqs)
        kg_answers = answers[len(reqs):]
        answers = answers[:len(reqs)]
        # ---- stream kwgoto: Script.goto on the keyword of a call vs Model.KwBind.gotoKeyword with the kind
        # filter the translator reads from names.py (all well-formed signatures of <= 3 parameters x keyword x
        # function / method / __init__)
        for c, r, a in zip(kg_cases, kg_results, kg_answers):
            if isinstance(a, dict) and 'error' in a:
                raise common.InfraError('driver: %r' % a)
            if 'raised' in r:
                ctx.count('raised', None, nontrivial=False, bucket='kwgoto:' + r['raised'])
                continue
            ctx.count('kwgoto', (c['source'], c['line'], c['col']), nontrivial=bool(a['goto']),
                      bucket='%s:%s' % (c['form'], 'binds' if a['binds'] else ('tied-not-bound' if a['goto'] else 'no-parameter')),
                      sample={'source': c['source'], 'line': c['line'], 'column': c['col'], 'goto': r['goto']})
            if sorted(a['goto']) != r['goto']:
                ctx.tie_broken('correspondence:kwgoto',
                               short({'source': c['source'], 'line': c['line'], 'column': c['col'],
                                      'jedi (parameter indices)': r['goto'], 'model': a['goto']}, 1500))
        for out, a in zip(outs, answers):
            if isinstance(a, dict) and 'error' in a:
                raise common.InfraError('driver: %r' % a)
            occs = out['occs']
            for u in out['refs']:
                ok_ = bool(a['nameok'][u])
                # how many start points the soundness theorem refs_sound_partial covers
                ctx.count('nameok', (out['src'], u), nontrivial=ok_, bucket='NameOk' if ok_ else 'outside-hypothesis')
            for u, impl in out['refs'].items():
                model = sorted(a['refs'][u])
                ctx.count('refs/' + out['tag'], (out['src'], u), nontrivial=len(model) > 1,
                          bucket='refs=%d' % min(len(model), 5))
                if model != impl:
                    ctx.tie_broken('correspondence:refs',
                                   short({'source': out['src'], 'occ': occs[u], 'jedi': impl, 'model': model}, 1500))
            # ---- stream globalstep: references.py:_find_global_variables alone vs Model.RefsGlobal.globalVariablesOf
            # with the guard the translator reads from the source (programs with a `global` statement)
            for u, impl in out['gvars'].items():
                if isinstance(impl, str):
                    ctx.count('raised', (out['src'], u), nontrivial=False, bucket='globalstep:' + impl)
                    continue
                model = sorted(a['globalvars'][u])
                ctx.count('globalstep/' + out['tag'], (out['src'], u), nontrivial=len(model) > 1,
                          bucket='linked=%d' % min(len(model), 6))
                if model != impl:
                    ctx.tie_broken('correspondence:globalstep',
                                   short({'source': out['src'], 'occ': occs[u], 'jedi': impl, 'model': model}, 1500))
            for u, prs, new_code in out['renders']:
                model_ids = sorted(a['refs'][u])
                model_text = replace_at(out['src'], [(occs[i]['line'], occs[i]['col']) for i in model_ids],
                                        occs[u]['name'], FRESH)
                ctx.count('render/' + out['tag'], (out['src'], u), nontrivial=len(model_ids) > 1)
                if model_text != new_code:
                    ctx.tie_broken('correspondence:render',
                                   short({'source': out['src'], 'occ': occs[u], 'jedi': new_code, 'model': model_text}, 1500))
    elif reqs:
        ctx.notes.append('model did not build: correspondence skipped, oracle only')
    # ---- attribute programs: beyond the Scopes fragment, judged by the direct oracle only
    for recs in attr_results:
        for rec in recs:
            ctx.count('attr', (rec['case']['source'], rec['case']['line'], rec['case']['column']), nontrivial=True,
                      sample=rec['case'])
            for what, exp, obs in rec['fails']:
                ctx.fail('oracle', what, rec['case'], expected=exp, observed=obs, how=how)
    # ---- multi-module projects on disk: direct oracle only
    mm_how = ('project written to a scratch directory; jedi.Script(code, path=..., project=jedi.Project(root))'
              '.get_references / .rename at (rel, line, column); `./check C05 --replay <file>` re-runs the clauses')
    for it, out in zip(mm_items, mm_results):
        proj = it['project']
        for b in out['raised']:
            ctx.count('raised', None, nontrivial=False, bucket='multimod:' + b)
        if out['skipped']:
            ctx.count('multimod-project', None, nontrivial=False, bucket='skipped: ' + out['skipped'][:40])
            continue
        for f in out['features']:
            ctx.count('multimod-project', (sorted(proj['files'].items()), f), nontrivial=True, bucket=f)
        for st in out['starts']:
            rel, line, col, name = st['start']
            case = {'files': proj['files'], 'main': proj['main'], 'rel': rel, 'line': line, 'column': col,
                    'name': name, 'new_name': GM.FRESH, 'shape': st['shape'], 'origin': it['tag']}
            ctx.count('multimod/' + it['tag'], (sorted(proj['files'].items()), rel, line, col),
                      nontrivial=st['n_files'] > 1 or st['n_mods'] > 0,
                      bucket='files=%d%s' % (st['n_files'], '+module' if st['n_mods'] else ''),
                      sample={k: v for k, v in case.items()})
            for what, exp, obs in st['fails']:
                ctx.fail('multimod', what, dict(case, clause=MM.CLAUSE[what]), expected=exp, observed=obs, how=mm_how)
    # ---- programs with parameters passed by keyword: direct oracle only
    kw_how = ('jedi.Script(source, project=Project(<empty dir>)).get_references(line, column, scope="file") / '
              '.rename(line, column, new_name=...); both programs executed; `./check C05 --replay <file>` re-runs the clauses')
    for it, outs_ in zip(kw_items, kw_results):
        for out in outs_:
            for b in out['raised']:
                ctx.count('raised', None, nontrivial=False, bucket='kwparam:' + b)
            if out['skipped']:
                ctx.count('kwparam-program', None, nontrivial=False, bucket='skipped: ' + out['skipped'][:40])
                continue
            for f in out['features']:
                ctx.count('kwparam-program', None, nontrivial=True, bucket=f)
            for rec in out['records']:
                cs = rec['case']
                ctx.count('kwparam/' + it['tag'], (cs['source'], cs['line'], cs['column']), nontrivial=rec['n_refs'] > 1,
                          bucket='refs=%d' % min(rec['n_refs'], 6),
                          sample={k: cs[k] for k in ('source', 'line', 'column', 'name')})
                for what, exp, obs in rec['fails']:
                    ctx.fail('kwparam', what, dict(cs, clause=KW.CLAUSE[what]), expected=exp, observed=obs, how=kw_how)
    try:
        from translator import gen_c05
        lim = gen_c05.limits(common.REPO)
        if not (GM.MIN_GLOBAL_NAME_LEN > lim['short_name_limit'] and GM.MAX_FILES < lim['parsed_file_limit']):
            ctx.notes.append('generated projects exceed the search limits of the checked source: %r' % lim)
    except Exception as e:
        ctx.notes.append('search limits not readable from the source: %r' % e)
    ctx.obligations['assumptions'] = [
        'stream multimod (projects on disk, imports, aliases, file/package renames) is judged by the direct oracle; '
        'its Lean side is the abstract scan over several modules (Model/RefsMulti: tokens as _find_names answers), tied '
        'to the source by the position of `non_matching_reference_maps = {}` relative to the loop over modules',
        'multimod behaviour = (exit code, stdout, class of the terminating exception) of `python -B -S -m <main>`; '
        'names of at most %d characters and projects of more than %d files are outside the stream (documented search '
        'limits of references.py)' % (GM.MIN_GLOBAL_NAME_LEN - 1, GM.MAX_FILES),
        'stream attr (attributes whose spelling coincides with parameters/locals) has no Lean model: direct oracle only',
        'stream kwparam (parameters of every kind passed by keyword at call sites) is judged by the direct oracle; '
        'behaviour = (printed text, class of the terminating exception) of executing the program; keywords that end up '
        'as keys of a ** dictionary are strings: never start points, but counted when reported or rewritten',
        'fragment and flat table as for C03 (harness/gen/scopes.py); the text-level rename model is '
        '"replace the value of exactly the leaves in refs" which Props.C05.render_rename proves equal to parso\'s render',
        'behaviour = event log of an AST-instrumented execution (every name read, unique tokens for assigned constants, '
        'terminating exception class)',
    ]


D = lambda kind, name, body, params=(): {'k': 'def', 'kind': kind, 'name': name, 'params': list(params), 'body': body}
B = lambda x: {'k': 'bind', 'x': x}
U = lambda x: {'k': 'use', 'x': x}
C = lambda f: {'k': 'call', 'x': f, 'n': 0}
WITNESSES = [
    # F9: inner nonlocal writer is not renamed with the outer variable
    [D('function', 'f', [B('a'), D('function', 'g', [{'k': 'nonlocal', 'x': 'a'}, B('a'), U('a')]), C('g'), U('a')]), C('f')],
    # a `global a` anywhere merges the module variable into the references of an unrelated local
    [B('a'), D('function', 'f', [B('a'), U('a')]), D('function', 'g', [{'k': 'global', 'x': 'a'}, B('a')]), C('f'), U('a')],
    # class attribute initialised from an outer variable of the same name
    [B('a'), D('class', 'K', [{'k': 'assign', 'x': 'a', 'y': 'a'}])],
    # a parameter re-bound in the function body
    [D('function', 'f', [B('b'), U('b')], params=['b']), {'k': 'call', 'x': 'f', 'n': 1}],
]


def replay(ctx, payload):
    import jedi
    inp = payload['input']
    if 'files' in inp:
        return MM.replay(payload)
    if inp.get('program') == 'kwparam':
        return KW.replay(payload)
    s = jedi.Script(inp['source'], project=jedi.Project(EMPTY_PROJECT))
    print(inp['source'])
    print('references:', [(d.line, d.column) for d in s.get_references(inp['line'], inp['column'], scope='file')])
    r = s.rename(inp['line'], inp['column'], new_name=inp.get('new_name', FRESH))
    for f in r.get_changed_files().values():
        print(f.get_new_code())
    print('expected:', payload.get('expected'), '\nobserved at record time:', payload.get('observed'))
    return 0


# ---------------------------------------------------------------------------- attribute programs (oracle only)

ATTR_POOL = ['total', 'step', 'count', 'item']


def gen_attr_program(rng):
    """small class-based programs in which attribute names, parameters and locals share spellings"""
    a1, a2 = rng.sample(ATTR_POOL, 2)
    p1 = rng.choice([a1, a1, rng.choice(ATTR_POOL)])       # constructor parameter, often spelled like the attribute
    p2 = rng.choice([a2, rng.choice(ATTR_POOL)])
    if p2 == p1:
        p2 = next(x for x in ATTR_POOL if x != p1)
    loc = rng.choice([a1, a2, rng.choice(ATTR_POOL)])      # a local in a method
    arg = rng.choice([a1, rng.choice(ATTR_POOL)])          # a parameter of a module-level function
    lines = [
        'class Acc:',
        '    def __init__(self, %s, %s):' % (p1, p2),
        '        self.%s = %s' % (a1, p1),
        '        self.%s = %s' % (a2, p2),
        '    def add(self, n):',
        '        %s = self.%s + n' % (loc, a1),
        '        self.%s = %s' % (a1, loc),
        '        return %s + self.%s' % (loc, a2),
    ]
    if rng.random() < 0.5:
        lines += ['class Other:', '    %s = 5' % a1, '    def get(self):', '        return self.%s' % a1]
        other = True
    else:
        other = False
    lines += [
        'def use(%s):' % arg,
        '    box = Acc(%s, 2)' % arg,
        '    %s = box.%s' % (rng.choice([a1, 'got']), a1),
        '    return box.add(3) + box.%s' % a2,
        'result = use(4)',
    ]
    if other:
        lines.append('other = Other().get()')
    return '\n'.join(lines) + '\n'


def attr_shape(src, name):
    """root-cause class of a failure on an attribute program"""
    tree = ast.parse(src)
    for fn in ast.walk(tree):
        if isinstance(fn, ast.FunctionDef) and name in [a.arg for a in fn.args.args]:
            for n in ast.walk(fn):
                if isinstance(n, ast.Name) and n.id == name and isinstance(n.ctx, ast.Store):
                    return 'parameter-rebound-in-function-body'
    return 'attribute-program'


def analyse_attr(seed):
    import io
    import random
    import tokenize
    import keyword
    import jedi
    rng = random.Random(seed)
    out = []
    project = jedi.Project(EMPTY_PROJECT)
    for _ in range(3):
        src = gen_attr_program(rng)
        base = behaviour(src)
        if base[1] is not None:
            continue
        toks = [(t.start[0], t.start[1], t.string) for t in tokenize.generate_tokens(io.StringIO(src).readline)
                if t.type == tokenize.NAME and not keyword.iskeyword(t.string) and t.string not in ('self',)
                and not (t.string.startswith('__') and t.string.endswith('__'))]
        refs = {}
        for (l, c, s) in toks:
            try:
                rs = jedi.Script(src, project=project).get_references(l, c, scope='file')
                refs[(l, c)] = sorted((d.line, d.column) for d in rs)
            except Exception as e:
                refs[(l, c)] = None
        for (l, c, s) in toks:
            rs = refs[(l, c)]
            if rs is None or any(r[0] is None for r in rs):
                continue
            case = {'source': src, 'line': l, 'column': c, 'new_name': FRESH, 'shape': attr_shape(src, s)}
            rec = {'case': case, 'fails': []}
            for r in rs:
                if r in refs and refs[r] is not None and refs[r] != rs:
                    rec['fails'].append(('references are not a partition: asking from a reported occurrence gives another set',
                                         rs, {'from': list(r), 'refs': refs[r]}))
                    break
            try:
                ref = jedi.Script(src, project=project).rename(l, c, new_name=FRESH)
                files = ref.get_changed_files()
                new_code = list(files.values())[0].get_new_code() if files else src
            except Exception as e:
                out.append(rec)
                continue
            expected = replace_at(src, rs, s, FRESH)
            if new_code != expected:
                rec['fails'].append(('rename does not rewrite exactly the reported references', expected, new_code))
            else:
                nb = behaviour(new_code)
                if nb != base:
                    rec['fails'].append(('renamed program behaves differently', {'old': short(base, 300)},
                                         {'new_code': new_code, 'new': short(nb, 300)}))
            out.append(rec)
    return out
